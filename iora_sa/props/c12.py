"""C12 — The key-value store is a map with absolute expiry, across restarts (DESIGN.md §2 C12)."""
from .. import access
from ..cfg import search, witness_str, elem_dominates
from ..expr import show, walk, last, field_of, strip_wrappers, strip_casts, short, const_value, access_path
from ..facts import AnalysisBroken
from ..predabs import Vocab, PredAbs, A, Not, And, Or, T, F
from ..rules import common

TITLE = "The key-value store is a map with absolute expiry, across restarts"
TECHNIQUE = 'custom static analysis over clang-14 CFG facts: must-lockset lock table, finite predicate abstraction (expiry facts) over every read API, dataflow shape rules for TTL writes, clock-independence of replay'
KV = "iora::storage::KVStore"
KVF = "iora/storage/kvstore.hpp"
M, CMx, EM = KV + "::_mutex", KV + "::_cacheMutex", KV + "::_evictionMutex"
EXP = KV + "::ExpiryEntry::expiry"
CEXP = KV + "::CacheEntry::expiry"

EXPLANATION = (
    "Static obligations over kvstore.hpp: R1 lock table (values, expiry map, TTL once-flag, log stream under _mutex — shared for reads, "
    "exclusive for writes; read cache under _cacheMutex; eviction queue/stop flag under _evictionMutex; every cache update/invalidation "
    "happens while _mutex is held, so a cached value can never be older than a completed write); R2 in each of the seven read APIs every "
    "path that reports a key present carries the fact 'no expiry entry, or expiry > now' (predicate abstraction; the cache fast path "
    "carries 'cached expiry > now') with `now` an unmodified system_clock::now(); R3 a plain write clears the key's expiry entry and "
    "timer on every path, a TTL write stores {expiry, id} and caches with that same expiry, expireAt/persist invalidate the cache; R4 what "
    "is persisted is toEpochMs of the very time point stored in memory (absolute, never a duration), and replay is clock-independent: "
    "inside the replay loops no decision depends on `now`, expiry is applied once by a sweep after the whole history, on the `<= now` "
    "side; compaction keeps exactly `expiry > now`; R5 eviction erases only behind the generation test (timer id equals the captured id) "
    "and `expiry <= now`, and the store never uses TimingWheel::reschedule; R6 keys dropped at compaction are excluded from the snapshot "
    "and leave memory only after the rename.")
NOT_DECIDED = ["agreement with a reference map over all histories", "binary exactness of values (lengths: C11-R5)", "wall-clock jumps",
               "concurrent-reader linearizability beyond the lock table"]

READ_APIS = ("get", "getBatch", "exists", "keys", "keysWithPrefix", "size", "ttl")


def txt(n):
    """show() with the implicit time_point copy constructions removed"""
    import re
    t = show(n)
    prev = None
    while prev != t:
        prev = t
        t = re.sub(r"time_point\(([^()]*(?:\([^()]*\))?[^()]*)\)", r"\1", t)
    return t


def kvf(ctx, name, nparams=None):
    fs = [f for f in ctx.fb().funcs(KV + "::" + name, KVF) if f.ok and (nparams is None or len(f.params) == nparams)]
    if len(fs) != 1:
        raise AnalysisBroken("KVStore::%s: %d definitions" % (name, len(fs)))
    return fs[0]


def r1(ctx, r):
    fb, la = ctx.fb(), ctx.locks()
    for fld in ("_kv", "_expiry"):
        common.guarded_by(r, fb, la, KV + "::" + fld, M, mode_for_write="x", mode_for_read="s", files=[KVF],
                          exempt={KV + "::load": "constructor-time replay before the object is shared",
                                  KV + "::dropExpiredAfterReplay": "called only from load() (constructor-time replay)"})
    common.guarded_by(r, fb, la, KV + "::_ttlStarted", M, mode_for_write="x", mode_for_read="s", files=[KVF])
    common.guarded_by(r, fb, la, KV + "::_logStream", M, mode_for_write="x", mode_for_read="x", files=[KVF],
                      exempt={KV + "::openLogFile": "called from the constructor and from compactLocked (which holds _mutex: C11-R4)", KV + "::shutdown": "after every worker is joined"})
    common.guarded_by(r, fb, la, KV + "::_cache", CMx, mode_for_write="x", mode_for_read="s", files=[KVF])
    for fld in ("_evictionQueue", "_evictionStop"):
        common.guarded_by(r, fb, la, KV + "::" + fld, EM, files=[KVF])
    r.floor(90, "guarded access sites")
    # cache maintenance only under the store mutex
    n = 0
    for f in fb.methods_of(KV):
        if not f.ok:
            continue
        for e in f.stmts():
            if e.node.get("k") == "mcall" and e.node.get("callee") in (KV + "::updateCache", KV + "::invalidateCache"):
                n += 1
                r.instance()
                r.expect(la.holds(f, e, M), f, e, "cache touched outside _mutex", "%s calls %s after releasing (or without) _mutex: a writer that completes in between is overwritten in the cache by the "
                         "reader's older value, and get() then serves removed or outdated data indefinitely" % (short(f.name), last(e.node["callee"])), okdesc="%s: %s under _mutex" % (short(f.name), last(e.node["callee"])))
        for e in common.member_calls_on(f, KV + "::_cache", ("erase", "clear")):
            if last(f.name) in ("invalidateCache", "updateCache"):
                continue
            r.instance()
            r.expect(la.holds(f, e, M), f, e, "cache erase outside _mutex", "%s erases from the cache without _mutex" % short(f.name), okdesc="%s: cache erase under _mutex" % short(f.name))
    if n < 6:
        raise AnalysisBroken("only %d cache update/invalidate calls found" % n)
    # lock order _mutex → _cacheMutex, _evictionMutex leaf
    from .c05 import lock_acquisitions
    for f in fb.in_file(KVF):
        if not f.ok:
            continue
        for (e, m) in lock_acquisitions(f, la):
            held = la.mutexes(f, e)
            r.instance()
            ok = not ((m == M and CMx in held) or (EM in held and m != EM) or (m == M and EM in held))
            r.expect(ok, f, e, "lock order", "%s acquires %s while holding %s (order is _mutex → _cacheMutex; _evictionMutex is a leaf)" % (short(f.name), last(m), ",".join(last(x) for x in held)),
                     okdesc="%s: %s in order" % (short(f.name), last(m)))


def _now_ok(f):
    """every local named `now` is an unmodified system_clock::now()"""
    for e in f.stmts():
        if e.node.get("k") == "decl":
            for v in e.node["vars"]:
                if v["n"] == "now":
                    i = strip_wrappers(v.get("init") or {})
                    while i.get("k") == "ctor" and len(i.get("args", [])) == 1:
                        i = strip_wrappers(i["args"][0])
                    if not (i.get("k") == "call" and i.get("callee", "").endswith("system_clock::now")):
                        return False
        if e.node.get("k") in ("bin", "opcall") and e.node.get("op") in ("=", "+=", "-=") and strip_wrappers(e.node.get("lhs") or e.node["args"][0]).get("n") == "now":
            return False
    return True


def expiry_leaf(n):
    """atoms: hasexp (an expiry entry was found), live (expiry > now), clive (cached expiry > now)"""
    cp = common.cmp_parts(n)
    if cp:
        op, l, rr = cp
        ls, rs = strip_casts(strip_wrappers(l)), strip_casts(strip_wrappers(rr))
        lt, rt = show(ls), show(rs)

        def is_now(x, t):
            return t == "now" or (x.get("k") == "call" and x.get("callee", "").endswith("system_clock::now"))
        for (a, at, b, bt, o) in ((ls, lt, rs, rt, op), (rs, rt, ls, lt, {"<": ">", ">": "<", "<=": ">=", ">=": "<=", "==": "==", "!=": "!="}[op])):
            fld = field_of(a) if a.get("k") == "member" else None
            if fld in (EXP, CEXP) and is_now(b, bt):
                atom = "live" if fld == EXP else "clive"
                if o == ">":
                    return A(atom)
                if o == "<=":
                    return Not(A(atom))
                return None
        if ("_expiry.end()" in rt or "_expiry.end()" in lt) and op in ("==", "!="):
            return Not(A("hasexp")) if op == "==" else A("hasexp")
        if ("_cache.end()" in rt or "_cache.end()" in lt) and op in ("==", "!="):
            return Not(A("chit")) if op == "==" else A("chit")
    return None


def r2(ctx, r):
    fb = ctx.fb()
    atoms = ["hasexp", "live", "chit", "clive"]
    for name in READ_APIS:
        f = kvf(ctx, name)
        r.instance()
        r.expect(_now_ok(f), f, None, "%s: now" % name, "%s compares expiry with something other than an unmodified system_clock::now()" % name, okdesc="%s: now = system_clock::now()" % name)

        def eff(e):
            # a fresh lookup / a new loop iteration invalidates what was known about the previous key
            if e.kind == "stmt" and e.node.get("k") == "decl":
                for v in e.node["vars"]:
                    i = v.get("init")
                    if i is not None and ("_expiry.find" in show(i) or v["n"] in ("eit",)):
                        return [("havoc_all", ["hasexp", "live"])]
                    if i is not None and "_cache.find" in show(i):
                        return [("havoc_all", ["chit", "clive"])]
                    if v["n"].startswith("__begin") or (i is not None and "*__begin" in show(i)):
                        return [("havoc_all", ["hasexp", "live"])]
            return None
        pa = PredAbs(f, Vocab(atoms), expiry_leaf, eff, track_bools=True)
        live = Or(Not(A("hasexp")), A("live"))
        reports = []
        if name == "get":
            for ret in common.returns(f):
                t = show(ret.node.get("v") or {})
                if "cacheIt" in t:
                    reports.append((ret, And(A("chit"), A("clive")), "cache hit"))
                elif "it->second" in t:
                    reports.append((ret, live, "value"))
        elif name == "getBatch":
            reports = [(e, live, "result[key] = value") for e in f.stmts() if e.node.get("k") == "opcall" and e.node.get("op") == "=" and "result[" in show(e.node["args"][0])]
        elif name == "exists":
            reports = [(ret, live, "return true") for ret in common.returns(f) if const_value(ret.node.get("v") or {}) == 1]
        elif name in ("keys", "keysWithPrefix"):
            reports = [(e, live, "result.push_back(key)") for e in f.stmts() if e.node.get("k") == "mcall" and last(e.node["callee"]) in ("push_back", "emplace_back") and (e.node.get("obj") or {}).get("n") == "result"]
        elif name == "ttl":
            reports = [(ret, And(A("hasexp"), A("live")), "remaining") for ret in common.returns(f) if "nullopt" not in show(ret.node.get("v") or {})]
        elif name == "size":
            # size = |kv| - |{expired entries}| : the loop counts entries on the `expiry <= now` side
            incs = [e for e in f.stmts() if e.node.get("k") == "un" and "++" in e.node["op"] and strip_wrappers(e.node["v"]).get("n") == "expired"]
            pa2 = PredAbs(f, Vocab(["elive"]), lambda n: (lambda cp: ({"<=": Not(A("elive")), ">": A("elive")}.get(cp[0]) if cp and show(strip_casts(cp[1])).endswith("expiry") and show(strip_casts(cp[2])) == "now" else None))(common.cmp_parts(n)),
                          lambda e: [("havoc", "elive")] if e.kind == "stmt" and e.node.get("k") == "decl" and any(v["n"].startswith("__begin") or "*__begin" in show(v.get("init") or {}) for v in e.node["vars"]) else None)
            r.instance()
            r.expect(len(incs) == 1 and pa2.entails(incs[0], Not(A("elive"))), f, incs[0] if incs else None, "size: expired count", "size() does not count exactly the entries with expiry <= now as expired",
                     okdesc="size: ++expired only when expiry <= now")
            rets = [ret for ret in common.returns(f)]
            r.instance()
            r.expect(any("_kv.size() - expired" in show(x.node) for x in rets) and all("_kv.size()" in show(x.node) for x in rets) and
                     all(("expired" in show(x.node)) or pa_entails_empty(f, x) for x in rets), f, None, "size: result", "size() does not return |kv| minus the expired count",
                     okdesc="size: _kv.size() - expired (or _kv.size() when no expiry entries exist)")
            continue
        if not reports:
            r.fail(f, None, "%s: no report site" % name, "%s no longer has a recognisable 'key present' result" % name)
        for (e, goal, what) in reports:
            r.instance()
            r.expect(pa.entails(e, goal), f, e, "%s reports an expired key" % name, "KVStore::%s reaches `%s` on a path where the key's expiry was not compared with now on the not-expired side "
                     "(known: %s): a key past its deadline but not yet evicted is observable" % (name, what, ",".join(pa.describe(e)) or "nothing"), okdesc="%s: %s only when not expired" % (name, what))
    # closed set: the public const-behaving methods that read _kv
    readers = set()
    for f in fb.methods_of(KV):
        if f.ok and f.access == "public" and any(n.get("k") == "member" and n["n"] == KV + "::_kv" for n in f.nodes.values()):
            if not [1 for (e, n, k) in common.field_writes(f, KV + "::_kv")]:
                readers.add(last(f.name))
    r.instance()
    r.expect(readers <= set(READ_APIS) | {"expireAt", "persist"}, KV, None, "new read API", "public methods %s read _kv but are not in the checked set of read APIs" % sorted(readers - set(READ_APIS) - {"expireAt", "persist"}),
             okdesc="read APIs = %s" % sorted(readers))


def pa_entails_empty(f, ret):
    # `if (_expiry.empty()) return _kv.size();`
    for b in f.blocks.values():
        if b.cond is not None and "_expiry.empty()" in show(b.cond) and b.succs[0] is not None and search(f, ("block", b.succs[0]), lambda x: x is ret, eh=False) is not None:
            return True
    return False


def r3(ctx, r):
    fb, la = ctx.fb(), ctx.locks()
    # plain writes
    for (name, np) in (("set", 2), ("setBatch", 1)):
        f = kvf(ctx, name, np)
        stores = [e for e in f.stmts() if e.node.get("k") == "opcall" and e.node.get("op") == "=" and (access_path(e.node["args"][0]) or ("", ""))[-2:] == (KV + "::_kv", "[]")]
        ers = common.member_calls_on(f, KV + "::_expiry", ("erase",))
        cans = [e for e in f.stmts() if e.node.get("k") == "mcall" and e.node.get("callee") == KV + "::cancelTimerLocked"]
        ucs = [e for e in f.stmts() if e.node.get("k") == "mcall" and e.node.get("callee") == KV + "::updateCache"]
        if not stores:
            raise AnalysisBroken("%s/%d: no store into _kv" % (name, np))
        for s_ in stores:
            if s_.catch_id:
                continue
            r.instance()
            ok = any(elem_dominates(f, x, s_) and not x.catch_id for x in ers) and any(elem_dominates(f, x, s_) for x in cans)
            r.expect(ok, f, s_, "%s: expiry survives overwrite" % name, "a plain %s stores the value without first cancelling the key's timer and erasing its expiry entry: the overwritten key still "
                     "expires at the old deadline" % name, okdesc="%s: cancel + _expiry.erase before _kv[key] = value" % name)
            r.instance()
            ok = any(elem_dominates(f, s_, u) and "kNoExpiry()" in show(u.node) for u in ucs)
            r.expect(ok, f, s_, "%s: cache expiry" % name, "a plain %s caches the value with an expiry other than 'none'" % name, okdesc="%s: updateCache(…, kNoExpiry())" % name)
    # TTL writes
    for (name, np) in (("set", 3), ("setBatch", 2)):
        f = kvf(ctx, name, np)
        stores = [e for e in f.stmts() if e.node.get("k") == "opcall" and e.node.get("op") == "=" and (access_path(e.node["args"][0]) or ("", ""))[-2:] == (KV + "::_expiry", "[]") and not e.catch_id]
        ucs = [e for e in f.stmts() if e.node.get("k") == "mcall" and e.node.get("callee") == KV + "::updateCache"]
        logs = [e for e in f.stmts() if e.node.get("k") == "mcall" and e.node.get("callee") == KV + "::writeLogEntry"]
        arms = [e for e in f.stmts() if e.node.get("k") == "mcall" and e.node.get("callee") == KV + "::armTimerLocked"]
        r.instance()
        if not stores:
            r.fail(f, None, "%s(ttl): no expiry stored" % name, "the TTL form of %s no longer records an expiry entry" % name)
            continue
        ev = None
        m_ = [x for x in walk(stores[0].node["args"][1]) if x.get("k") == "var" and "time_point" in x.get("t", "")]
        ev = m_[0]["n"] if m_ else None
        r.expect(ev is not None, f, stores[0], "%s(ttl): expiry value" % name, "the stored expiry is not a time point variable", okdesc="%s(ttl): _expiry[key] = {%s, id}" % (name, ev))
        if ev is None:
            continue
        # expiry = system_clock::now() + ttl
        init = None
        for e in f.stmts():
            if e.node.get("k") == "decl":
                for v in e.node["vars"]:
                    if v["n"] == ev:
                        init = show(strip_wrappers(v.get("init") or {})).replace(" ", "")
        r.instance()
        r.expect(init in ("system_clock::now()+ttl",), f, None, "%s(ttl): deadline" % name, "the deadline is `%s`, not system_clock::now() + ttl" % init, okdesc="%s(ttl): expiry = now() + ttl" % name)
        for (lst, what, pat) in ((ucs, "cache", ev), (logs, "log record", "KVStore::toEpochMs(%s)" % ev), (arms, "timer", ev)):
            r.instance()
            good = [e for e in lst if not e.catch_id and pat in txt(e.node)]
            r.expect(bool(good), f, None, "%s(ttl): %s uses another expiry" % (name, what), "the %s of a TTL write does not carry the expiry that is stored in memory (`%s`): after a restart or a cache hit the key "
                     "lives to a different deadline" % (what, pat), okdesc="%s(ttl): %s carries %s" % (name, what, pat))
    for name, expect in (("expireAt", "when"), ("persist", None)):
        f = kvf(ctx, name)
        inv = [e for e in f.stmts() if e.node.get("k") == "mcall" and e.node.get("callee") == KV + "::invalidateCache"]
        chg = [e for (e, n, k) in common.field_writes(f, KV + "::_expiry")]
        r.instance()
        r.expect(inv and chg and all(any(search(f, c, lambda x, i=i: x is i, eh=False) is not None or elem_dominates(f, i, c) for i in inv) for c in chg) and
                 search(f, chg[0], "exit", stop=lambda x: x in inv or (x.kind == "stmt" and x.node.get("k") == "throw"), eh=False) is None, f, None, "%s: cache not invalidated" % name,
                 "%s changes the key's expiry but leaves the cached entry (with the old expiry) in place" % name, okdesc="%s: invalidateCache on every path" % name)
        logs = [e for e in f.stmts() if e.node.get("k") == "mcall" and e.node.get("callee") == KV + "::writeLogEntry"]
        r.instance()
        pat = "KVStore::toEpochMs(%s)" % expect if expect else "NO_EXPIRY_SENTINEL"
        r.expect(len(logs) == 1 and pat in txt(logs[0].node) and "'X'" in show(logs[0].node), f, logs[0] if logs else None, "%s: log record" % name, "%s does not journal an 'X' record carrying %s" % (name, pat),
                 okdesc="%s: writeLogEntry('X', key, …, %s)" % (name, pat))


def r4(ctx, r):
    fb = ctx.fb()
    ld = kvf(ctx, "load")
    r.instance()
    r.expect(_now_ok(ld), ld, None, "load: now", "load() does not use an unmodified system_clock::now()", okdesc="load: now = system_clock::now()")
    # replay is a fold over the history: no decision inside the replay loops depends on the clock
    loops = [b for b in ld.blocks.values() if b.term and b.term["k"] in ("ForStmt", "WhileStmt") and b.succs[0] is not None]
    replay_loops = [b for b in loops if any("snapshot.read" in show(e.node) or "log.read" in show(e.node) or "log.peek" in show(e.node) for e in b.elems if e.kind == "stmt") or
                    (b.cond is not None and ("count" in show(b.cond) or "peek" in show(b.cond)))]
    if len(replay_loops) < 2:
        raise AnalysisBroken("load(): %d replay loops recognised" % len(replay_loops))
    nclock = 0
    for lb in replay_loops:
        body = lb.succs[0]
        for b in ld.blocks.values():
            if b.cond is None:
                continue
            inside = search(ld, ("block", body), lambda x, b=b: x in b.elems, stop=lambda x, lb=lb: x in lb.elems, eh=False) is not None if b.elems else False
            if not inside:
                continue
            if any(x.get("k") == "var" and x["n"] == "now" for x in walk(b.cond)):
                nclock += 1
                r.instance()
                r.fail(ld, b.elems[-1], "replay decision depends on the clock", "inside the replay loop `%s` decides by the current time: a record that looks expired may be followed by one that clears or extends "
                       "the expiry (persist / expireAt), so keys are lost across a restart — expiry must be applied once, after the whole history" % show(b.cond)[:60])
    r.instance()
    r.expect(nclock == 0, ld, None, "clock in replay", "replay loops consult the clock", okdesc="replay loops are clock-independent")
    sweeps = [e for e in ld.stmts() if e.node.get("k") == "mcall" and e.node.get("callee") == KV + "::dropExpiredAfterReplay"]
    r.instance()
    ok = bool(sweeps)
    if ok:
        # every normal exit of load passes a sweep, after the loops
        w = search(ld, ("entry",), "exit", stop=lambda x: x in sweeps or (x.kind == "stmt" and x.node.get("k") == "throw"), eh=False)
        ok = w is None and all(txt(s_.node["args"][0]) == "now" for s_ in sweeps)
        for s_ in sweeps:
            for lb in replay_loops:
                if search(ld, s_, lambda x, lb=lb: x in lb.elems, eh=False) is not None and "log" in "".join(show(e.node) for e in lb.elems if e.kind == "stmt"):
                    ok = False
    r.expect(ok, ld, None, "no expiry sweep after replay", "load() can finish without dropping the keys that are still expired after the whole history was applied (or sweeps before the log was replayed)",
             okdesc="dropExpiredAfterReplay(now) on every exit, after the replay")
    sw = fb.funcs(KV + "::dropExpiredAfterReplay", KVF)
    if sw:
        f = sw[0]
        pa = PredAbs(f, Vocab(["hasexp", "live", "chit", "clive"]), expiry_leaf, lambda e: None)
        ers = common.member_calls_on(f, KV + "::_kv", ("erase",)) + common.member_calls_on(f, KV + "::_expiry", ("erase",))
        r.instance(len(ers))
        for e in ers:
            r.expect(pa.entails(e, Not(A("live"))), f, e, "sweep side", "the post-replay sweep erases an entry that was not seen to have expiry <= now", okdesc="sweep erases only expiry <= now")
        if len(ers) < 2:
            r.fail(f, None, "sweep incomplete", "the sweep does not erase from both _kv and _expiry")
    # persisted values are absolute: toEpochMs of the stored time point, everywhere
    nlog = 0
    for f in fb.methods_of(KV):
        if not f.ok:
            continue
        for e in f.stmts():
            if e.node.get("k") == "mcall" and e.node.get("callee") == KV + "::writeLogEntry" and len([a for a in e.node["args"] if not a.get("def")]) == 4:
                nlog += 1
                a = txt(strip_wrappers(e.node["args"][3]))
                r.instance()
                r.expect(a.startswith("KVStore::toEpochMs(") or a.endswith("NO_EXPIRY_SENTINEL"), f, e, "relative expiry persisted", "%s journals `%s` as expiry: only toEpochMs(<absolute time point>) survives a restart unchanged" % (short(f.name), a),
                         okdesc="%s journals %s" % (short(f.name), a))
    if nlog < 4:
        raise AnalysisBroken("only %d expiry-carrying log writes" % nlog)
    cl = kvf(ctx, "compactLocked")
    pa = PredAbs(cl, Vocab(["hasexp", "live", "chit", "clive"]), expiry_leaf, lambda e: [("havoc_all", ["hasexp", "live"])] if e.kind == "stmt" and e.node.get("k") == "decl" and any(v["n"] == "eit" for v in e.node["vars"]) else None)
    surv = [e for e in cl.stmts() if e.node.get("k") == "mcall" and last(e.node["callee"]) == "push_back" and (e.node.get("obj") or {}).get("n") == "survivors"]
    drop = [e for e in cl.stmts() if e.node.get("k") == "mcall" and last(e.node["callee"]) == "push_back" and (e.node.get("obj") or {}).get("n") == "dropped"]
    r.instance(2)
    r.expect(surv and all(pa.entails(e, Or(Not(A("hasexp")), A("live"))) for e in surv), cl, surv[0] if surv else None, "compaction keeps expired", "compaction keeps a key that was not seen to be unexpired",
             okdesc="survivors: no expiry or expiry > now")
    r.expect(drop and all(pa.entails(e, And(A("hasexp"), Not(A("live")))) for e in drop), cl, drop[0] if drop else None, "compaction drops live", "compaction drops a key that was not seen to be expired",
             okdesc="dropped: expiry <= now")
    wkv = [e for e in cl.stmts() if e.node.get("k") == "mcall" and e.node.get("callee") == KV + "::writeKeyValue"]
    r.instance()
    ok = len(wkv) == 1
    if ok:
        a = strip_wrappers(wkv[0].node["args"][2])
        init = None
        for e in cl.stmts():
            if e.node.get("k") == "decl":
                for v in e.node["vars"]:
                    if a.get("k") == "var" and v["d"] == a.get("d"):
                        init = txt(v.get("init") or {})
        ok = init is not None and "toEpochMs(eit->second.expiry)" in init.replace("KVStore::", "") and "NO_EXPIRY_SENTINEL" in init
    r.expect(ok, cl, wkv[0] if wkv else None, "snapshot expiry", "the snapshot does not store toEpochMs(expiry) (or the no-expiry sentinel) per key", okdesc="snapshot: toEpochMs(expiry) | sentinel")


def r5(ctx, r):
    fb = ctx.fb()
    f = kvf(ctx, "evictionCallback")
    vocab = Vocab(["found", "validid", "sameid", "live"])

    # locals by what they hold, not by their names: the captured generation (`= *idHolder`), the clock reading (`= system_clock::now()`)
    holder = [p_["n"] for p_ in f.params if "TimerId" in p_["t"] or "shared_ptr" in p_["t"]]
    captured, clock = set(), set()
    for e in f.stmts():
        if e.node.get("k") == "decl":
            for dv in e.node["vars"]:
                i = dv.get("init")
                if i is None:
                    continue
                if any(x.get("k") == "var" and x.get("n") in holder for x in walk(i)):
                    captured.add(dv["d"])
                if any(x.get("k") == "call" and x.get("callee") == "std::chrono::system_clock::now" for x in walk(i)) and strip_casts(strip_wrappers(i)).get("k") == "call":
                    clock.add(dv["d"])

    def is_captured(x):
        x = strip_casts(x)
        return x.get("k") == "var" and x.get("d") in captured

    def is_now(x):
        x = strip_casts(strip_wrappers(x))
        return (x.get("k") == "var" and x.get("d") in clock) or (x.get("k") == "call" and x.get("callee") == "std::chrono::system_clock::now")

    def leaf(n):
        cp = common.cmp_parts(n)
        if cp:
            op, l, rr = cp
            lt, rt = show(strip_casts(l)), show(strip_casts(rr))
            if "_expiry.end()" in rt and op in ("==", "!="):
                return Not(A("found")) if op == "==" else A("found")
            if is_captured(l) and "InvalidTimerId" in rt and op in ("==", "!="):
                return Not(A("validid")) if op == "==" else A("validid")
            if lt.endswith("timerId") and is_captured(rr) and op in ("==", "!="):
                return A("sameid") if op == "==" else Not(A("sameid"))
            if lt.endswith("expiry") and is_now(rr):
                return {">": A("live"), "<=": Not(A("live")), ">=": None, "<": None}.get(op)
        return None

    store_locks = set()
    store_lock_names = {v["n"] for e in f.stmts() if e.node.get("k") == "decl" for v in e.node["vars"]
                        if v["t"].startswith(("std::unique_lock", "std::shared_lock", "std::lock_guard")) and any(x.get("k") == "member" and x["n"] == M for x in walk(v.get("init") or {}))}

    def eff(e):
        # what was learnt under one hold of the store mutex is stale under the next: a set-with-TTL / expireAt can land in between
        if e.kind == "stmt" and e.node.get("k") == "decl":
            for v in e.node["vars"]:
                if v["t"].startswith(("std::unique_lock", "std::shared_lock", "std::lock_guard")) and any(x.get("k") == "member" and x["n"] == M for x in walk(v.get("init") or {})):
                    store_locks.add(v["d"])
                    return [("havoc_all", ["found", "validid", "sameid", "live"])]
        if e.kind == "dtor" and e.raw.get("t", "").startswith(("std::unique_lock", "std::shared_lock", "std::lock_guard")) and (e.raw.get("d") in store_locks or e.raw.get("n") in store_lock_names):
            return [("havoc_all", ["found", "validid", "sameid", "live"])]
        if e.kind == "stmt" and e.node.get("k") == "mcall" and e.node.get("callee", "").startswith(("std::unique_lock::unlock", "std::shared_lock::unlock", "std::unique_lock::lock")):
            return [("havoc_all", ["found", "validid", "sameid", "live"])]
        return None
    pa = PredAbs(f, vocab, leaf, eff, track_bools=True)
    ers = common.member_calls_on(f, KV + "::_kv", ("erase",)) + common.member_calls_on(f, KV + "::_expiry", ("erase",)) + common.member_calls_on(f, KV + "::_cache", ("erase",))
    if len(ers) < 3:
        r.fail(f, None, "eviction incomplete", "evictionCallback does not erase the key from values, expiry map and cache")
    for e in ers:
        r.instance()
        r.expect(pa.entails(e, And(A("found"), A("validid"), A("sameid"), Not(A("live")))), f, e, "eviction unguarded",
                 "evictionCallback erases on a path where the entry's timer id was not seen equal to the captured id (generation guard) or its expiry was not seen <= now (known: %s): "
                 "a timer left over from before a re-set of the same key deletes the new value" % ",".join(pa.describe(e)), okdesc="evict only when same generation and expiry <= now")
    r.instance()
    r.expect(_now_ok(f), f, None, "eviction clock", "evictionCallback does not use an unmodified system_clock::now()", okdesc="eviction: now = system_clock::now()")
    # captured id is read under the lock
    r.instance()
    la = ctx.locks()
    rd = [e for e in f.stmts() if e.node.get("k") == "decl" and any(v["d"] in captured for v in e.node["vars"])]
    r.expect(rd and all(la.holds(f, x, M) for x in rd), f, rd[0] if rd else None, "captured id read unlocked", "the captured timer id is read before _mutex is taken (races its publication in armTimerLocked)",
             okdesc="capturedId read under _mutex")
    # never reschedule
    r.instance()
    bad = [(g, e) for g in fb.in_file(KVF) if g.ok for e in g.stmts() if e.node.get("k") == "mcall" and e.node.get("callee") == "iora::core::TimingWheel::reschedule"]
    r.expect(not bad, bad[0][0] if bad else KV, bad[0][1] if bad else None, "reschedule used", "KVStore calls TimingWheel::reschedule, which keeps the timer id and defeats the generation guard",
             okdesc="KVStore never calls TimingWheel::reschedule")
    # arm: id published into the holder under the caller's lock, closure carries key copy + holder
    arm = kvf(ctx, "armTimerLocked")
    r.instance()
    pub = [e for e in arm.stmts() if e.node.get("k") in ("bin", "opcall") and e.node.get("op") == "=" and "idHolder" in show(e.node.get("lhs") or e.node["args"][0])]
    sch = [e for e in arm.stmts() if e.node.get("k") == "mcall" and e.node.get("callee") == "iora::core::TimingWheel::schedule"]
    r.expect(pub and sch and elem_dominates(arm, sch[0], pub[0]) and M in {m for (m, md, h) in la.entry(arm)}, arm, None, "id publication", "armTimerLocked does not publish the new timer id into the holder while _mutex is held",
             okdesc="armTimerLocked: *idHolder = id under _mutex")


def r6(ctx, r):
    cl = kvf(ctx, "compactLocked")
    wkv = [e for e in cl.stmts() if e.node.get("k") == "mcall" and e.node.get("callee") == KV + "::writeKeyValue"]
    r.instance()
    # the write loop iterates `survivors`
    ranges = [show(strip_wrappers(v["init"])) for e in cl.stmts() if e.node.get("k") == "decl" for v in e.node["vars"] if v["n"].startswith("__range") and v.get("init") is not None]
    r.expect(wkv and "survivors" in ranges and "key" in show(wkv[0].node["args"][1]), cl, wkv[0] if wkv else None, "snapshot source", "the snapshot is not written from the survivor list", okdesc="snapshot written from `survivors`")
    ren = [e for e in cl.stmts() if e.node.get("k") == "call" and e.node.get("callee") == "std::filesystem::rename"]
    ers = common.member_calls_on(cl, KV + "::_kv", ("erase",)) + common.member_calls_on(cl, KV + "::_expiry", ("erase",))
    r.instance()
    r.expect(ren and ers and all(search(cl, ("entry",), lambda x, e=e: x is e, stop=lambda x: x in ren, eh=False) is None for e in ers), cl, None, "pruned before rename", "dropped keys leave memory before the snapshot is in place",
             okdesc="memory pruned after rename")
    r.instance()
    dr = [show(strip_wrappers(v["init"])) for e in cl.stmts() if e.node.get("k") == "decl" for v in e.node["vars"] if v["n"].startswith("__range") and v.get("init") is not None]
    r.expect(dr.count("dropped") >= 1, cl, None, "prune source", "the in-memory pruning does not iterate the dropped list", okdesc="pruning iterates `dropped`")


def r7(ctx, r):
    """journal record layout: the writer emits a field exactly when the replay decoder expects it (both decide by the op code)"""
    fb = ctx.fb()
    wl = kvf(ctx, "writeLogEntry")
    ld = kvf(ctx, "load")
    common.require_names(wl, ["op", "key", "value", "buffer"])
    common.require_names(ld, ["op", "ptr", "end"])
    # writer: flags controlling the optional fields
    flags = {}
    for e in wl.stmts():
        if e.node.get("k") == "decl":
            for v in e.node["vars"]:
                if v["t"] in ("bool", "const bool") and v.get("init") is not None:
                    flags[v["n"]] = (e, v["init"])
    def ops_of(init):
        """set of op characters if init is a disjunction of `op == 'c'` tests, else None"""
        out = set()
        def rec(n):
            n = strip_casts(n)
            if n.get("k") == "bin" and n.get("op") == "||":
                return rec(n["lhs"]) and rec(n["rhs"])
            cp = common.cmp_parts(n)
            if cp and cp[0] == "==" and strip_casts(cp[1]).get("n") == "op" and const_value(cp[2]) is not None:
                out.add(chr(const_value(cp[2])))
                return True
            return False
        return out if rec(init) else None
    # which flag guards which field: the block guarded by the flag appends value bytes / the 8-byte expiry
    guards = {}
    for b in wl.blocks.values():
        c = strip_casts(b.cond) if b.cond is not None else None
        if c is not None and c.get("k") == "var" and c["n"] in flags:
            body = " ".join(show(x.node) for x in wl.blocks[b.succs[0]].elems if x.kind == "stmt")
            if "value" in body and "expiry" not in body.lower():
                guards["value"] = c["n"]
            elif "expiry" in body.lower() and "value" not in body:
                guards["expiry"] = c["n"]
    if set(guards) != {"value", "expiry"}:
        raise AnalysisBroken("writeLogEntry: optional-field guards not recognised (%s)" % guards)
    # reader: ops whose arm reads a 4-byte value length / an 8-byte expiry
    reader = {"value": set(), "expiry": set()}
    arms = {}
    for b in ld.blocks.values():
        cp = common.cmp_parts(b.cond) if b.cond is not None else None
        if cp and cp[0] == "==" and strip_casts(cp[1]).get("n") == "op" and const_value(cp[2]) is not None:
            arms[chr(const_value(cp[2]))] = _body(ld, b.succs[0], stop_at_conds_on="op")
    for opc, els in arms.items():
        t = " ".join(show(x.node) for x in els)
        if "memcpy(&valLen" in t or "valLen" in t:
            reader["value"].add(opc)
        if "memcpy(&expiryMs" in t or "expiryMs" in t:
            reader["expiry"].add(opc)
    if not reader["value"] or not reader["expiry"]:
        raise AnalysisBroken("load(): arms reading valLen / expiryMs not recognised (%s)" % reader)
    for fld in ("value", "expiry"):
        e, init = flags[guards[fld]]
        w_ops = ops_of(init)
        r.instance()
        r.expect(w_ops is not None and w_ops == reader[fld], wl, e, "journal layout: %s field" % fld, "writeLogEntry emits the %s field when `%s` (%s), while load() expects it exactly for the records with op in %s: a record written without the field "
                 "(e.g. an empty value) is mis-decoded or skipped at replay — the write is lost, or an older value resurfaces, after a restart" % (fld, show(init)[:60], "ops %s" % sorted(w_ops) if w_ops is not None else "not a function of the op code alone", sorted(reader[fld])),
                 okdesc="%s field: writer ops %s = reader ops %s" % (fld, sorted(w_ops) if w_ops else "?", sorted(reader[fld])))
    # every op the API journals has a replay arm (the last arm is the else)
    written = set()
    for f in fb.methods_of(KV):
        if not f.ok:
            continue
        for e in f.stmts():
            if e.node.get("k") == "mcall" and e.node.get("callee") == KV + "::writeLogEntry" and e.node.get("args"):
                cv = const_value(strip_casts(e.node["args"][0]))
                if cv is not None:
                    written.add(chr(cv))
    r.instance()
    r.expect(len(written) >= 4 and len(written - set(arms)) <= 1, ld, None, "journal ops", "the API journals the ops %s but load() has arms for %s" % (sorted(written), sorted(arms)), okdesc="ops journalled %s; replay arms %s + else" % (sorted(written), sorted(arms)))


def _body(f, bid, stop_at_conds_on=None):
    out, seen, work = [], set(), [bid]
    while work:
        b = work.pop()
        if b is None or b in seen or len(seen) > 40:
            continue
        blk = f.blocks[b]
        if stop_at_conds_on and blk.cond is not None and common.cmp_parts(blk.cond) and strip_casts(common.cmp_parts(blk.cond)[1]).get("n") == stop_at_conds_on:
            continue
        seen.add(b)
        out.extend(x for x in blk.elems if x.kind == "stmt")
        # stay inside the arm: do not follow back edges to the loop head (blocks with a lower line than the arm start are skipped)
        for s_ in blk.succs:
            if s_ is not None and s_ not in seen:
                nxt = f.blocks[s_]
                l0 = next((x.line for x in blk.elems if x.line), 0)
                l1 = next((x.line for x in nxt.elems if x.line), 0)
                if l1 and l0 and l1 < l0:
                    continue
                work.append(s_)
    return out


def r8(ctx, r):
    """a key that leaves the value map leaves the expiry map in the same step"""
    fb, la = ctx.fb(), ctx.locks()
    n = 0
    for f in fb.methods_of(KV):
        if not f.ok:
            continue
        kv_er = common.member_calls_on(f, KV + "::_kv", ("erase", "clear"))
        ex_er = common.member_calls_on(f, KV + "::_expiry", ("erase", "clear"))
        for e in kv_er:
            n += 1
            r.instance()
            ok = any(x.block is e.block for x in ex_er) or any(elem_dominates(f, x, e) for x in ex_er) or (bool(ex_er) and search(f, e, "exit", stop=lambda y: y in ex_er, eh=False) is None)
            r.expect(ok, f, e, "expiry entry orphaned", "%s removes a key from the value map (`%s`) without removing its expiry entry in the same step: the orphaned entry outlives the key, is counted as an expired key by "
                     "size() once its old deadline passes (size() too small, can wrap), and applies the old deadline to a later re-creation of the key that bypasses the TTL path" % (short(f.name), show(e.node)[:40]),
                     okdesc="%s: _kv and _expiry erased together" % last(f.name))
    if n < 8:
        raise AnalysisBroken("only %d removals from _kv found (floor 8)" % n)



CSTR = {"strcmp", "strncmp", "strlen", "strcpy", "strncpy", "strcat", "strncat", "strstr", "strchr", "strrchr", "strcasecmp", "strncasecmp", "strdup", "strtok", "strspn", "strcspn", "strcoll", "sprintf", "sscanf"}


def r9(ctx, r):
    """'binary keys and values … returned byte-for-byte': keys, prefixes and values are arbitrary byte strings with embedded
    NULs.  Nothing in the store may look at them through a C-string function (it stops at the first 0x00), and the prefix test is
    a length-aware comparison of exactly prefix.size() bytes."""
    fb = ctx.fb()
    nfun = 0
    for f in fb.in_file(KVF):
        if not f.ok:
            continue
        nfun += 1
        for e in f.stmts():
            n = e.node
            if n.get("k") == "call" and last(n.get("callee", "")) in CSTR:
                r.instance()
                r.fail(f, e, "C-string function on store data", "%s calls %s(): keys, prefixes and values are binary — a C-string function stops at the first NUL byte, so keys that differ only after an embedded 0x00 "
                       "compare equal (a prefix scan returns, and a prefix remove deletes, keys outside the prefix) or values are cut" % (short(f.name), last(n["callee"])))
    if nfun < 20:
        raise AnalysisBroken("kvstore.hpp: only %d function bodies" % nfun)
    kp = kvf(ctx, "keysWithPrefix")
    tests = [b for b in kp.blocks.values() if b.cond is not None and any(x.get("k") == "mcall" and last(x.get("callee", "")) == "compare" for x in walk(b.cond))]
    r.instance()
    ok = False
    for b in tests:
        for x in walk(b.cond):
            if x.get("k") == "mcall" and last(x.get("callee", "")) == "compare" and len(x.get("args", [])) >= 3:
                a = x["args"]
                ok = const_value(a[0]) == 0 and "prefix.size()" in show(a[1]) and strip_casts(strip_wrappers(a[2])).get("n") == "prefix"
    pushes = [e for e in kp.stmts() if e.node.get("k") == "mcall" and last(e.node.get("callee", "")) in ("push_back", "emplace_back")]
    if not pushes:
        raise AnalysisBroken("keysWithPrefix: result collection not found")
    if not tests:
        # another spelling of the prefix test: refuse unless it is one of the other size-aware forms
        alt = any(x.get("k") in ("call", "mcall") and last(x.get("callee", "")) in ("starts_with", "equal", "memcmp", "mismatch") for b in kp.blocks.values() if b.cond is not None for x in walk(b.cond))
        if not alt:
            r.fail(kp, pushes[0], "prefix test", "keysWithPrefix no longer compares the first prefix.size() bytes of the key with the prefix in a length-aware way")
        else:
            raise AnalysisBroken("keysWithPrefix: prefix test in a form this rule does not evaluate")
    else:
        r.expect(ok, kp, pushes[0], "prefix test", "keysWithPrefix does not test `key.compare(0, prefix.size(), prefix) == 0`", okdesc="prefix test compares exactly prefix.size() bytes")


def r10(ctx, r):
    """A key whose deadline has passed is ABSENT for the reference map even while the eviction worker has not removed it yet.  The
    read paths hide it (R2); the mutators that act on an existing key only — persist, expireAt — must treat it as absent too, or
    they give it a new lease of life: the key reappears in every read path and survives compaction and reopen."""
    from ..finite import dominating_facts
    fb = ctx.fb()
    # helpers that decide 'expired' : bool methods of the store whose body compares an `expiry` with the system clock
    helpers = set()
    for g in fb.methods_of(KV):
        if not g.ok:
            continue
        txt_now = any(x.get("k") == "call" and x.get("callee") == "std::chrono::system_clock::now" for x in g.nodes.values())
        cmp_exp = any(common.cmp_parts(x) and any(y.get("k") == "member" and last(y["n"]) == "expiry" for y in walk(x)) for x in g.nodes.values() if x.get("k") in ("bin", "opcall"))
        rets_bool = any(e.node.get("k") == "ret" and (strip_casts(e.node.get("v") or {}).get("t") == "bool" or common.cmp_parts(strip_casts(e.node.get("v") or {}))) for e in g.stmts())
        if txt_now and cmp_exp and any(e.node.get("k") == "ret" and e.node.get("v") is not None for e in g.stmts()) and last(g.name) not in READ_APIS and len(list(g.stmts())) < 25 and not g.name.endswith(("persist", "expireAt")):
            helpers.add(g.name)
    for name in ("persist", "expireAt"):
        f = kvf(ctx, name)
        muts = [e for e in f.stmts() if e.node.get("k") == "mcall" and e.node.get("callee") == KV + "::writeLogEntry"]
        muts += common.member_calls_on(f, KV + "::_expiry", ("erase", "emplace", "insert", "insert_or_assign", "try_emplace"))
        muts += [e for e in f.stmts() if e.node.get("k") in ("opcall", "bin") and e.node.get("op") == "=" and any(x.get("k") == "member" and x["n"] == KV + "::_expiry" for x in walk(e.node["args"][0] if e.node["k"] == "opcall" else e.node["lhs"]))]
        if not muts:
            raise AnalysisBroken("%s: no mutation site found" % name)
        for e in muts:
            r.instance()
            ok = False
            for (c, t) in dominating_facts(f, e):
                c0 = strip_casts(c)
                if c0.get("k") == "mcall" and c0.get("callee") in helpers and not t:
                    ok = True
                co = common.cmp_oriented(c0, lambda x: any(y.get("k") == "call" and y.get("callee") == "std::chrono::system_clock::now" for y in walk(x)) or show(strip_casts(x)) == "now")
                if co and show(strip_casts(co[1])).endswith("expiry") and ((co[0] == ">" and t) or (co[0] == "<=" and not t)):
                    ok = True
            r.expect(ok, f, e, "%s revives an expired key" % name, "KVStore::%s reaches `%s` for a key that exists in _kv without having established that its stored deadline has not passed (no dominating `expiry > now` / "
                     "!isExpired(key)): for a key past its deadline that the eviction worker has not removed yet — hidden from every read path — this makes it permanent / gives it a new deadline, so it reappears in "
                     "get/exists/keys/size and survives compaction and reopen" % (name, show(e.node)[:50]), okdesc="%s: acts only on a key that is not expired" % name)


def r11(ctx, r):
    """'cache sizes smaller than the key set' includes 0: the read cache evicts with erase(begin()), which is undefined on an empty
    map.  Every begin()-erase / begin()-dereference in the store is behind a fact that makes the container non-empty."""
    from ..finite import dominating_facts
    fb = ctx.fb()
    n = 0
    for f in fb.in_file(KVF):
        if not f.ok:
            continue
        for e in f.stmts():
            nd = e.node
            if not (nd.get("k") == "mcall" and last(nd.get("callee", "")) == "erase" and nd.get("args")):
                continue
            a0 = strip_casts(strip_wrappers(nd["args"][0]))
            while a0 is not None and a0.get("k") in ("ctor", "cast") and a0.get("args"):
                a0 = strip_casts(strip_wrappers(a0["args"][0]))
            if not (a0 is not None and a0.get("k") == "mcall" and last(a0.get("callee", "")) in ("begin", "cbegin")):
                continue
            cont = field_of(nd.get("obj"))
            n += 1
            r.instance()
            facts = dominating_facts(f, e)
            ok = False
            limits = []
            for (c, t) in facts:
                c0 = strip_casts(c)
                if c0.get("k") == "mcall" and last(c0.get("callee", "")) == "empty" and field_of(c0.get("obj")) == cont and not t:
                    ok = True
                co = common.cmp_oriented(c0, lambda x: not any(y.get("k") == "mcall" and last(y.get("callee", "")) == "size" and field_of(y.get("obj")) == cont for y in walk(x)))
                if co and any(y.get("k") == "mcall" and last(y.get("callee", "")) == "size" and field_of(y.get("obj")) == cont for y in walk(co[1])):
                    # size() >= L / size() > L (true): non-empty when L > 0 resp. L >= 0
                    if t and co[0] == ">":
                        ok = True
                    if t and co[0] == ">=":
                        cv = const_value(co[2])
                        if cv is not None and cv > 0:
                            ok = True
                        else:
                            limits.append(show(strip_casts(co[2])))
            for L in limits:
                for (c, t) in facts:
                    co = common.cmp_oriented(strip_casts(c), lambda x: const_value(x) == 0)
                    if co and show(strip_casts(co[1])) == L and ((co[0] == "==" and not t) or (co[0] in (">", "!=") and t)):
                        ok = True
            r.expect(ok, f, e, "erase(begin()) on a possibly empty container", "%s evicts with %s.erase(%s.begin()) without a fact that makes it non-empty (known: %s): with a size limit of 0 the test `size() >= limit` holds "
                     "on the empty map and the erase dereferences end() — the first set/get crashes" % (short(f.name), last(cont or "?"), last(cont or "?"), "; ".join(("" if t else "!") + show(c)[:40] for c, t in facts[-3:]) or "nothing"),
                     okdesc="%s: begin()-erase on a non-empty container" % short(f.name))
    if n < 1:
        raise AnalysisBroken("no erase(begin()) site found in kvstore.hpp")


def run(ctx, ck):
    ck.run_rule("C12-R1", "lock table of the store; cache maintained only under the store mutex", "A1 guarded-by + lock order", lambda r: r1(ctx, r))
    ck.run_rule("C12-R2", "every read path applies the expiry backstop", "A5 predicate abstraction, closed set of read APIs", lambda r: r2(ctx, r))
    ck.run_rule("C12-R3", "plain write clears expiry; TTL write stores/caches/journals one and the same expiry", "A2 + dataflow shape", lambda r: r3(ctx, r))
    ck.run_rule("C12-R4", "expiry is absolute and persisted; replay is clock-independent with one final sweep", "A5 + A2", lambda r: r4(ctx, r))
    ck.run_rule("C12-R5", "eviction is generation-guarded", "A5", lambda r: r5(ctx, r))
    ck.run_rule("C12-R7", "journal record layout: writer and replay decide every optional field by the op code, identically", "A10 writer/reader table agreement", lambda r: r7(ctx, r))
    ck.run_rule("C12-R8", "a key leaves the value map and the expiry map together", "A2 pairing", lambda r: r8(ctx, r))
    ck.run_rule("C12-R9", "keys, prefixes and values are binary: no C-string function touches them; the prefix test is length-aware", "A10 closed set of forbidden callees + shape of the prefix test", lambda r: r9(ctx, r))
    ck.run_rule("C12-R10", "persist / expireAt treat an expired, not yet evicted key as absent", "A5 dominating facts; helper summaries (which callee decides 'expired')", lambda r: r10(ctx, r))
    ck.run_rule("C12-R11", "begin()-erase only on a container known non-empty (a size limit of 0 is a valid configuration)", "A5 dominating facts", lambda r: r11(ctx, r))
    ck.run_rule("C12-R6", "keys dropped at compaction never resurrect", "A2", lambda r: r6(ctx, r))
