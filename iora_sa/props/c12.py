"""C12 — The key-value store is a map with absolute expiry, across restarts (DESIGN.md §2 C12)."""
from .. import access
from ..cfg import search, witness_str, elem_dominates
from ..expr import show, walk, last, field_of, strip_wrappers, strip_casts, short, const_value, access_path
from ..facts import AnalysisBroken
from ..predabs import Vocab, PredAbs, A, Not, And, Or, T, F
from ..rules import common
from ..locks import LOCK_TYPES

TITLE = "The key-value store is a map with absolute expiry, across restarts"
TECHNIQUE = 'custom static analysis over clang-14 CFG facts: must-lockset lock table, finite predicate abstraction (expiry facts) over every read API, dataflow shape rules for TTL writes, clock-independence of replay'
KV = "iora::storage::KVStore"
KVF = "iora/storage/kvstore.hpp"
M, CMx, EM = KV + "::_mutex", KV + "::_cacheMutex", KV + "::_evictionMutex"
EXP = KV + "::ExpiryEntry::expiry"
CEXP = KV + "::CacheEntry::expiry"

EXPLANATION = (
    "Static obligations over kvstore.hpp: R1 lock table (values, expiry map, TTL once-flag, log stream under _mutex — shared for reads, "
    "exclusive for writes; read cache under _cacheMutex; eviction queue/stop flag under _evictionMutex; every cache update/invalidation "
    "happens while _mutex is held, so a cached value can never be older than a completed write); R2 in each of the seven read APIs every "
    "path that reports a key present carries the fact 'no expiry entry, or expiry > now' (predicate abstraction; the cache fast path "
    "carries 'cached expiry > now') with `now` an unmodified system_clock::now(); R3 a plain write clears the key's expiry entry and "
    "timer on every path, a TTL write stores {expiry, id} and caches with that same expiry, expireAt/persist invalidate the cache; R4 what "
    "is persisted is toEpochMs of the very time point stored in memory (absolute, never a duration), and replay is clock-independent: "
    "inside the replay loops no decision depends on `now`, expiry is applied once by a sweep after the whole history, on the `<= now` "
    "side; compaction keeps exactly `expiry > now`; R5 eviction erases only behind the generation test (timer id equals the captured id) "
    "and `expiry <= now`, and the store never uses TimingWheel::reschedule; R6 keys dropped at compaction are excluded from the snapshot "
    "and leave memory only after the rename; R12 every normal return of the plain set, and every iteration of the plain setBatch's apply loop, has removed the key's expiry entry "
    "(inline or through a helper that always does), so a 'nothing to write' shortcut cannot report success while the key keeps its deadline.")
# exempt from the function-inventory guard (report.py): these rules hold for, or look into, functions they have never seen
FOLLOWS_HELPERS = {"C12-R2": "the expiry test is recognised inline or through bool helpers of the store whose returns decide it exactly (predicate_summary); a report site behind a helper that reads the expiry map "
                             "in a shape the rule cannot summarise is refused, a report site that moved out of the API's own body is refused",
                   "C12-R1": "universal lock table: every access to a guarded field is judged where it stands; a private helper's lockset is what all of its call sites hold (StoreLocks), constructor-time code is derived from the call graph",
                   "C12-R12": "the removal of the expiry entry is recognised inline or through any helper of the store that removes it for its key parameter on all of its normal paths (clear_sites)"}
NOT_DECIDED = ["agreement with a reference map over all histories", "binary exactness of values (lengths: C11-R5)", "wall-clock jumps",
               "concurrent-reader linearizability beyond the lock table"]

READ_APIS = ("get", "getBatch", "exists", "keys", "keysWithPrefix", "size", "ttl")


def txt(n):
    """show() with the implicit time_point copy constructions removed"""
    import re
    t = show(n)
    prev = None
    while prev != t:
        prev = t
        t = re.sub(r"time_point\(([^()]*(?:\([^()]*\))?[^()]*)\)", r"\1", t)
    return t


def kvf(ctx, name, nparams=None):
    fs = [f for f in ctx.fb().funcs(KV + "::" + name, KVF) if f.ok and (nparams is None or len(f.params) == nparams)]
    if len(fs) != 1:
        raise AnalysisBroken("KVStore::%s: %d definitions" % (name, len(fs)))
    return fs[0]


# ------------------------------------------------------------------ call following (helper extraction must not change a verdict)

def kv_callee(fb, n):
    """the one analysable definition of the KVStore method a call node resolves to (None: not a call into the store's own code)"""
    if n is None or n.get("k") not in ("mcall", "call"):
        return None
    c = n.get("callee") or ""
    if not c.startswith(KV + "::"):
        return None
    fs = [g for g in fb.funcs(c, KVF) if g.ok and g.kind != "lambda" and len(g.params) == len(n.get("args", []))]
    return fs[0] if len(fs) == 1 else None


def arg_var(a):
    """the variable an expression hands on unchanged (through casts, std::move and copy construction), else None"""
    a = strip_casts(strip_wrappers(a)) if a is not None else None
    while a is not None and a.get("k") == "ctor" and a.get("copy") and len([x for x in a.get("args", []) if not x.get("def")]) == 1:
        a = strip_casts(strip_wrappers(a["args"][0]))
    return a if a is not None and a.get("k") == "var" else None


def kv_methods_reached(fb, f, stop=()):
    """f and the store's own methods reachable from it through direct calls (lambdas created on the way included)"""
    seen, work, out = set(), [f], []
    while work:
        g = work.pop()
        if g.sig in seen or g.name in stop:
            continue
        seen.add(g.sig)
        out.append(g)
        for n in g.nodes.values():
            h = kv_callee(fb, n)
            if h is not None and h.sig not in seen:
                work.append(h)
        for (ln, lf) in g.lambdas:
            if lf.ok and lf.sig not in seen:
                work.append(lf)
    return out


_INSERTS = ("emplace", "insert", "try_emplace", "insert_or_assign", "swap", "operator=", "operator[]", "merge")


def may_insert(fb, f, field):
    """f, or a method of the store it calls, can add an entry to the map `field` (operator[] inserts when the key is missing)"""
    for g in kv_methods_reached(fb, f):
        if common.member_calls_on(g, field, _INSERTS):
            return True
    return False


def is_lookup(n, field, kd):
    """`field.find(K)` with K the variable whose declaration id is kd"""
    n = strip_casts(strip_wrappers(n)) if n is not None else None
    while n is not None and n.get("k") == "ctor" and n.get("copy") and len(n.get("args", [])) == 1:
        n = strip_casts(strip_wrappers(n["args"][0]))
    if n is None or n.get("k") != "mcall" or last(n.get("callee", "")) != "find" or field_of(n.get("obj")) != field or not n.get("args"):
        return False
    a = arg_var(n["args"][0])
    return a is not None and (kd is None or a.get("d") == kd)


def clear_sites(fb, f, field, kd, depth=0):
    """elements of f after which the map `field` certainly holds no entry for the key in the variable with declaration id kd:
    `field.erase(K)`, `field.erase(it)` with `it = field.find(K)`, `field.clear()`, or a call of one of the store's own methods
    that does one of these for the parameter K is bound to on every path that returns normally (so an extracted
    `clearExpiryLocked(key)` / `forgetKeyLocked(key)` counts as what it does, and a helper that only sometimes erases does not)"""
    its = {v["d"] for e in f.stmts() if e.node.get("k") == "decl" for v in e.node["vars"] if is_lookup(v.get("init"), field, kd)}
    out = []
    for e in f.stmts():
        n = e.node
        if n.get("k") != "mcall":
            continue
        if field_of(n.get("obj")) == field:
            m = last(n.get("callee", ""))
            a = arg_var(n["args"][0]) if n.get("args") else None
            if m == "clear" or (m == "erase" and a is not None and (a.get("d") == kd or a.get("d") in its)):
                out.append(e)
        elif depth < 3:
            g = kv_callee(fb, n)
            if g is None:
                continue
            for i, a in enumerate(n["args"]):
                av = arg_var(a)
                if av is not None and av.get("d") == kd and clear_abs(fb, g, field, g.params[i]["d"], depth + 1).exit_entails(EXPIRY_GONE):
                    out.append(e)
                    break
    return out


def expiry_clear_sites(fb, f, kd, depth=0):
    return clear_sites(fb, f, KV + "::_expiry", kd, depth)


EXPIRY_GONE = Or(A("cleared"), Not(A("hasexp")))


def expiry_clear_abs(fb, f, kd, depth=0, reset_at=()):
    return clear_abs(fb, f, KV + "::_expiry", kd, depth, reset_at)


def clear_abs(fb, f, field, kd, depth=0, reset_at=()):
    """predicate abstraction of f over {cleared: the entry of key K in the map `field` was removed and not put back; hasexp: K has an
    entry there}.  `reset_at`: elements at which K starts to name another key (the loop variable of a batch loop)."""
    EXPF = field
    sites = {id(e) for e in clear_sites(fb, f, field, kd, depth)}
    puts = {id(e) for e in common.member_calls_on(f, EXPF, _INSERTS)}
    for e in f.stmts():
        if id(e) not in sites and e.node.get("k") in ("mcall", "call"):
            g = kv_callee(fb, e.node)
            if g is not None and may_insert(fb, g, EXPF):
                puts.add(id(e))
    resets = {id(e) for e in reset_at}

    def leaf(n):
        for (op, l, rr) in common.cmp_both(n):
            l0, r0 = strip_casts(strip_wrappers(l)), strip_casts(strip_wrappers(rr))
            if r0.get("k") == "mcall" and last(r0.get("callee", "")) in ("end", "cend") and field_of(r0.get("obj")) == EXPF and op in ("==", "!="):
                return Not(A("hasexp")) if op == "==" else A("hasexp")
            if l0.get("k") == "mcall" and last(l0.get("callee", "")) == "count" and field_of(l0.get("obj")) == EXPF and const_value(r0) == 0 and op in ("==", "!=", ">"):
                return Not(A("hasexp")) if op == "==" else A("hasexp")
        if n.get("k") == "mcall" and field_of(n.get("obj")) == EXPF:
            if last(n.get("callee", "")) == "count":
                return A("hasexp")
        return None

    def eff(e):
        if e.kind != "stmt":
            return None
        if id(e) in sites:
            return [("set", "cleared", True), ("set", "hasexp", False)]
        if id(e) in resets:
            return [("set", "cleared", False), ("havoc", "hasexp")]
        if id(e) in puts:
            return [("set", "cleared", False), ("set", "hasexp", True)]
        if e.node.get("k") == "decl" and any(is_lookup(v.get("init"), EXPF, None) for v in e.node["vars"]):
            return [("havoc", "hasexp"), ("assume", Or(Not(A("cleared")), Not(A("hasexp"))))]
        return None
    return PredAbs(f, Vocab(["hasexp", "cleared"]), leaf, eff, init=Not(A("cleared")), track_bools=True)


def through_const_local(f, n):
    """the expression a value stands for: a local that is initialised once and never assigned again is replaced by its initialiser (repeatedly)"""
    assigned = _assigned_ids(f)
    for _ in range(4):
        n = strip_casts(strip_wrappers(n)) if n is not None else None
        if n is None or n.get("k") != "var" or n.get("d") in assigned:
            return n
        init = next((v.get("init") for e in f.stmts() if e.node.get("k") == "decl" for v in e.node["vars"] if v["d"] == n.get("d")), None)
        if init is None:
            return n
        n = init
    return n


def natural_loop(f, head):
    """(blocks of the natural loop with header `head`, sources of its back edges) — dominance based, exception edges ignored"""
    from ..cfg import dominators
    dom = dominators(f, eh=False)
    backs = [p for p in head.preds if head.id in dom.get(p, ())]
    body, work = {head.id}, list(backs)
    while work:
        b = work.pop()
        if b in body:
            continue
        body.add(b)
        work.extend(f.blocks[b].preds)
    return body, backs


def loop_heads(f):
    return [b for b in f.blocks.values() if b.term and b.term.get("k") in ("ForStmt", "WhileStmt", "CXXForRangeStmt", "DoStmt") and len(b.succs) == 2]


class StoreLocks:
    """The must-lockset analysis with one refinement for the private helpers of the store.  The entry lockset of a helper is the intersection over
    its call sites of (mutex, mode) pairs, so a predicate helper that is called under the shared lock by the readers and under the exclusive lock
    by the writers (`isExpiredLocked`) is left with nothing.  Here the question 'is M held in at least mode m at element e of helper h' is
    answered the way it is meant: h does not give M up between its entry and e, and every call site of h holds M in at least mode m."""

    def __init__(self, la):
        self.la, self.aliases, self._memo, self._fl = la, la.aliases, {}, {}

    def fn(self, f):
        return self.la.fn(f)

    def entry(self, f):
        return self.la.entry(f)

    def mutexes(self, f, e):
        return set(self.la.mutexes(f, e)) | {m for m in (M, CMx, EM) if self.holds(f, e, m)}

    def holds(self, f, e, mutex, mode=None, depth=0):
        if self.la.holds(f, e, mutex, mode):
            return True
        if depth > 4 or not self.la._is_internal(f):
            return False
        from ..locks import FnLocks
        k = (f.sig, mutex, mode)
        if k not in self._fl:
            self._fl[k] = FnLocks(f, frozenset({(mutex, "x" if mode == "x" else "s", 0)}), self.aliases)
        if not self._fl[k].holds(e, mutex, mode):
            return False          # released inside the helper before e
        k2 = (f.sig, mutex, mode, "sites")
        if k2 not in self._memo:
            self._memo[k2] = False      # recursion guard
            sites = self.la._sites(f)
            self._memo[k2] = bool(sites) and all(self.holds(g, ce, mutex, mode, depth + 1) for (g, ce) in sites)
        return self._memo[k2]


def ctor_time_functions(fb):
    """{qualified name: reason}: the private methods of the store that only run while the constructor is still alone with the object — every
    caller is the constructor, at a point that no path from a thread start reaches, or another such method; and the method starts no thread
    itself.  (Derived, so that splitting load() into loadSnapshot()/replayLog() does not turn constructor-time replay into unlocked accesses.)"""
    from .. import callgraph
    cg = callgraph.get(fb)
    ctors = [f for f in fb.methods_of(KV) if f.kind == "ctor" and f.ok]
    memo = {}

    def thread_start(n):
        return n.get("k") == "ctor" and n.get("cls") == "std::thread" and bool([a for a in n.get("args", []) if not a.get("def")])

    def starts_thread(g):
        if g.sig not in memo:
            memo[g.sig] = any(thread_start(n) for h in kv_methods_reached(fb, g) for n in h.nodes.values())
        return memo[g.sig]
    out, changed = {}, True
    while changed:
        changed = False
        for g in fb.methods_of(KV):
            if not g.ok or g.kind != "method" or g.access == "public" or g.name in out or starts_thread(g):
                continue
            callers = cg.callers.get(g.name, [])
            ok = bool(callers)
            for (c, e, n) in callers:
                if c.name in out:
                    continue
                if not any(c is x for x in ctors):
                    ok = False
                    break
                starts = [x for x in c.stmts() if x is not e and (thread_start(x.node) or (kv_callee(fb, x.node) is not None and starts_thread(kv_callee(fb, x.node))))]
                if any(search(c, t, lambda y: y is e) is not None for t in starts):
                    ok = False
                    break
            if ok:
                out[g.name] = "runs only inside the constructor before any thread is started (callers: %s)" % ", ".join(sorted({short(c.name) for (c, e, n) in callers}))
                changed = True
    return out


def r1(ctx, r):
    fb, la = ctx.fb(), StoreLocks(ctx.locks())
    # constructor-time replay (load() and whatever it is split into) runs before the object is shared: derived from the call graph, not listed.  If load()
    # gains a caller outside the constructor, or runs after a thread was started, it is no longer exempt and its unlocked accesses are reported.
    if not [f for f in fb.methods_of(KV) if f.kind == "ctor" and f.ok]:
        raise AnalysisBroken("KVStore: no analysable constructor")
    ctor_time = ctor_time_functions(fb)
    for fld in ("_kv", "_expiry"):
        common.guarded_by(r, fb, la, KV + "::" + fld, M, mode_for_write="x", mode_for_read="s", files=[KVF], exempt=ctor_time)
    common.guarded_by(r, fb, la, KV + "::_ttlStarted", M, mode_for_write="x", mode_for_read="s", files=[KVF])
    common.guarded_by(r, fb, la, KV + "::_logStream", M, mode_for_write="x", mode_for_read="x", files=[KVF],
                      exempt={KV + "::openLogFile": "called from the constructor and from compactLocked (which holds _mutex: C11-R4)", KV + "::shutdown": "after every worker is joined"})
    common.guarded_by(r, fb, la, KV + "::_cache", CMx, mode_for_write="x", mode_for_read="s", files=[KVF])
    for fld in ("_evictionQueue", "_evictionStop"):
        common.guarded_by(r, fb, la, KV + "::" + fld, EM, files=[KVF])
    r.floor(90, "guarded access sites")
    # cache maintenance only under the store mutex
    n = 0
    for f in fb.methods_of(KV):
        if not f.ok:
            continue
        for e in f.stmts():
            if e.node.get("k") == "mcall" and e.node.get("callee") in (KV + "::updateCache", KV + "::invalidateCache"):
                n += 1
                r.instance()
                r.expect(la.holds(f, e, M), f, e, "cache touched outside _mutex", "%s calls %s after releasing (or without) _mutex: a writer that completes in between is overwritten in the cache by the "
                         "reader's older value, and get() then serves removed or outdated data indefinitely" % (short(f.name), last(e.node["callee"])), okdesc="%s: %s under _mutex" % (short(f.name), last(e.node["callee"])))
        for e in common.member_calls_on(f, KV + "::_cache", ("erase", "clear")):
            if last(f.name) in ("invalidateCache", "updateCache"):
                continue
            n += 1
            r.instance()
            r.expect(la.holds(f, e, M), f, e, "cache erase outside _mutex", "%s erases from the cache without _mutex" % short(f.name), okdesc="%s: cache erase under _mutex" % short(f.name))
    # floor over both spellings of cache maintenance (a call of updateCache/invalidateCache, or the erase written out where the helper was inlined): 7 + 8 on the pinned tree
    if n < 12:
        raise AnalysisBroken("only %d cache maintenance sites (update/invalidate calls, inline erases) found" % n)
    # lock order _mutex → _cacheMutex, _evictionMutex leaf
    from .c05 import lock_acquisitions
    for f in fb.in_file(KVF):
        if not f.ok:
            continue
        for (e, m) in lock_acquisitions(f, la):
            held = la.mutexes(f, e)
            r.instance()
            ok = not ((m == M and CMx in held) or (EM in held and m != EM) or (m == M and EM in held))
            r.expect(ok, f, e, "lock order", "%s acquires %s while holding %s (order is _mutex → _cacheMutex; _evictionMutex is a leaf)" % (short(f.name), last(m), ",".join(last(x) for x in held)),
                     okdesc="%s: %s in order" % (short(f.name), last(m)))


def _now_ok(f):
    """every local named `now` is an unmodified system_clock::now()"""
    for e in f.stmts():
        if e.node.get("k") == "decl":
            for v in e.node["vars"]:
                if v["n"] == "now":
                    i = strip_wrappers(v.get("init") or {})
                    while i.get("k") == "ctor" and len(i.get("args", [])) == 1:
                        i = strip_wrappers(i["args"][0])
                    if not (i.get("k") == "call" and i.get("callee", "").endswith("system_clock::now")):
                        return False
        if e.node.get("k") in ("bin", "opcall") and e.node.get("op") in ("=", "+=", "-=") and strip_wrappers(e.node.get("lhs") or e.node["args"][0]).get("n") == "now":
            return False
    return True


# ------------------------------------------------------------------ expiry facts (A5), by what the code does rather than how its locals are called

EXPF, KVFLD, CACHEF = KV + "::_expiry", KV + "::_kv", KV + "::_cache"
BASE_ATOMS = ["hasexp", "live", "eq", "chit", "clive"]      # eq: deadline == clock reading (so that `>=` / `<` are exact too: a wrong-side test inside a helper is a verdict, not an unknown)
LIVE_XOR_EQ = Not(And(A("live"), A("eq")))


def is_clock_call(n):
    n = strip_casts(strip_wrappers(n)) if n is not None else None
    while n is not None and n.get("k") == "ctor" and n.get("copy") and len(n.get("args", [])) == 1:
        n = strip_casts(strip_wrappers(n["args"][0]))
    return n is not None and n.get("k") == "call" and n.get("callee") == "std::chrono::system_clock::now"


def _assigned_ids(f):
    out = set()
    for n in f.nodes.values():
        if n.get("k") in ("bin", "opcall") and n.get("op") in ("=", "+=", "-=", "*=", "/=", "++", "--"):
            l = strip_wrappers(n.get("lhs") or (n.get("args") or [None])[0])
            if l is not None and l.get("k") == "var":
                out.add(l.get("d"))
        if n.get("k") == "un" and ("++" in n.get("op", "") or "--" in n.get("op", "")):
            l = strip_wrappers(n.get("v"))
            if l is not None and l.get("k") == "var":
                out.add(l.get("d"))
    return out


def clock_ids(fb, f, depth=0):
    """declaration ids of the locals and parameters of f that hold an unmodified reading of system_clock::now(): `const auto t = system_clock::now()`
    never assigned afterwards, and — in a non-public method of the store — a time_point parameter to which every call site passes such a reading
    (`isExpiredAt(key, now)`).  What the variable is called plays no role."""
    key = "_c12_clock"
    if key in f.__dict__:
        return f.__dict__[key]
    f.__dict__[key] = set()       # recursion guard
    out, assigned = set(), _assigned_ids(f)
    for e in f.stmts():
        if e.node.get("k") == "decl":
            for v in e.node["vars"]:
                if v.get("init") is not None and is_clock_call(v["init"]) and v["d"] not in assigned:
                    out.add(v["d"])
    if depth < 3 and f.kind != "lambda" and f.access in ("private", "protected") and f.cls == KV:
        from .. import callgraph
        sites = [(g, n) for (g, e, n) in callgraph.get(fb).callers.get(f.name, []) if g.ok and len(n.get("args", [])) == len(f.params)]
        for i, p_ in enumerate(f.params):
            if "time_point" not in p_.get("t", "") or p_.get("d") in assigned or not sites:
                continue
            ok = True
            for (g, n) in sites:
                a = n["args"][i]
                av = arg_var(a)
                if not (is_clock_call(a) or (av is not None and av.get("d") in clock_ids(fb, g, depth + 1))):
                    ok = False
            if ok:
                out.add(p_["d"])
    f.__dict__[key] = out
    return out


def _dnf(pairs, atoms):
    """formula that holds exactly for the given truth assignments (tuples, in the order of `atoms`)"""
    out = F
    for asg in sorted(pairs):
        out = Or(out, And(*[A(a) if v else Not(A(a)) for a, v in zip(atoms, asg)]))
    return out


class ExpiryFacts:
    """Path-by-path knowledge of one function of the store about the key it is looking at: hasexp (an expiry entry was found), live (its
    deadline > the clock reading), chit / clive (the same for the read cache).  Recognised by meaning: the end() of the very map that was
    searched, `count(k)`, the field ExpiryEntry::expiry / CacheEntry::expiry compared with a value that IS system_clock::now() (clock_ids), a
    condition kept in a named bool, and — helper extraction — a bool method of the store whose own returns decide these atoms
    (`isExpiredLocked(key)`, `isExpiredAt(key, now)`): the call then stands for a fresh lookup with the summarised outcome."""

    def __init__(self, fb, f, depth=0, extra_eff=None, atoms=None):
        self.fb, self.f, self.depth, self.extra_eff = fb, f, depth, extra_eff
        self.clock = clock_ids(fb, f)
        self.summ = {}
        self.opaque = []      # calls of helpers of the store that look at the expiry map but whose outcome this abstraction cannot summarise
        for e in f.stmts():
            g = kv_callee(fb, e.node) if depth < 3 else None
            if g is None or g is f:
                continue
            s_ = predicate_summary(fb, g, depth + 1) if (e.node.get("t") or "") == "bool" else None
            if s_ is not None:
                self.summ[e.node["id"]] = s_
            elif any(n.get("k") == "member" and n.get("n") in (EXPF, EXP) and not common.field_writes(x, EXPF) for x in kv_methods_reached(fb, g) for n in x.nodes.values()):
                self.opaque.append(e)
        # the key each lookup in the expiry map is made with (find / count / predicate helper): when all of them use one and the same variable, a second
        # lookup (`if (_expiry.count(k) == 0) …; auto it = _expiry.find(k);`) asks about the same entry and does not invalidate what the first established
        kids = set()
        for n in f.nodes.values():
            if n.get("k") == "mcall" and field_of(n.get("obj")) == EXPF and last(n.get("callee", "")) in ("find", "count") and n.get("args"):
                v = arg_var(n["args"][0])
                kids.add(v.get("d") if v is not None else None)
            elif n.get("id") in self.summ:
                ks = [arg_var(a) for a in n.get("args", []) if "basic_string" in (strip_casts(strip_wrappers(a)) or {}).get("t", "")]
                kids.add(ks[0].get("d") if len(ks) == 1 and ks[0] is not None else None)
        self.one_key = len(kids) == 1 and None not in kids and not (kids & _assigned_ids(f))
        self.pa = PredAbs(f, Vocab(list(atoms or BASE_ATOMS)), self.leaf, self.eff, init=LIVE_XOR_EQ, track_bools=True)

    def is_now(self, x):
        v = arg_var(x)
        return is_clock_call(x) or (v is not None and v.get("d") in self.clock)

    def deref(self, v):
        n = through_const_local(self.f, v)
        while n is not None and n.get("k") == "ctor" and n.get("copy") and len(n.get("args", [])) == 1:
            n = strip_casts(strip_wrappers(n["args"][0]))
        return n if n is not None else v

    def leaf(self, n):
        for (op, l, rr) in common.cmp_both(n):
            l0, r0 = strip_casts(strip_wrappers(l)), strip_casts(strip_wrappers(rr))
            if l0.get("k") == "var":      # `const auto deadline = eit->second.expiry; if (deadline <= now)`: a local that is never assigned again stands for its initialiser
                l0 = self.deref(l0)
            fld = l0.get("n") if l0.get("k") == "member" else None
            if fld == CEXP and self.is_now(rr):
                return A("clive") if op == ">" else (Not(A("clive")) if op == "<=" else None)
            if fld == EXP and self.is_now(rr):
                return {">": A("live"), "<=": Not(A("live")), ">=": Or(A("live"), A("eq")), "<": And(Not(A("live")), Not(A("eq"))), "==": A("eq"), "!=": Not(A("eq"))}[op]
            if r0.get("k") == "mcall" and last(r0.get("callee", "")) in ("end", "cend") and op in ("==", "!="):
                atom = {EXPF: "hasexp", CACHEF: "chit"}.get(field_of(r0.get("obj")))
                if atom:
                    return Not(A(atom)) if op == "==" else A(atom)
            if l0.get("k") == "mcall" and last(l0.get("callee", "")) == "count" and const_value(r0) == 0 and op in ("==", "!=", ">"):
                atom = {EXPF: "hasexp", CACHEF: "chit"}.get(field_of(l0.get("obj")))
                if atom:
                    return Not(A(atom)) if op == "==" else A(atom)
        if n.get("k") == "mcall" and last(n.get("callee", "")) == "count":
            atom = {EXPF: "hasexp", CACHEF: "chit"}.get(field_of(n.get("obj")))
            if atom:
                return A(atom)
        if n.get("id") in self.summ:
            return self.summ[n["id"]]
        return None

    def eff(self, e):
        ops = list((self.extra_eff(e) if self.extra_eff else None) or [])
        if e.kind == "stmt":
            n = e.node
            if n.get("k") == "decl":
                for v in n["vars"]:
                    i = v.get("init")
                    # a fresh lookup / a new loop iteration invalidates what was known about the previous key
                    if (is_lookup(i, EXPF, None) and not self.one_key) or v["n"].startswith("__begin") or (i is not None and any(x.get("k") == "var" and x.get("n", "").startswith("__begin") for x in walk(i))):
                        ops += [("havoc_all", ["hasexp", "live", "eq"]), ("assume", LIVE_XOR_EQ)]
                    if is_lookup(i, CACHEF, None):
                        ops.append(("havoc_all", ["chit", "clive"]))
            elif n.get("id") in self.summ and not self.one_key:
                ops += [("havoc_all", ["hasexp", "live", "eq"]), ("assume", LIVE_XOR_EQ)]
        return ops or None

    def entails_when(self, elem, cond, truth, goal):
        """goal holds on every path that reaches elem and on which the expression `cond` evaluates to `truth` (cond None: on every path)"""
        from ..predabs import translate, known_when
        st = self.pa.before(elem)
        if st is None:
            return True
        if cond is not None:
            st = self.pa.v.assume(st, known_when(translate(cond, self.pa.leaf), truth))
        return self.pa.v.entails(st, goal)


def predicate_summary(fb, g, depth=1):
    """For a bool method g of the store: the formula over {hasexp, live, eq} that holds exactly when g returns true — computed from g's own
    returns by the same abstraction (None when g's result is not an exact function of these atoms, e.g. it does not look at expiry at all)."""
    key = "_c12_summary"
    if key in g.__dict__:
        return g.__dict__[key]
    g.__dict__[key] = None
    from ..predabs import translate, known_when
    if not any(n.get("k") == "member" and n.get("n") in (EXP, EXPF) for n in g.nodes.values()) and not any(kv_callee(fb, n) is not None for n in g.nodes.values()):
        return None
    if common.field_writes(g, EXPF) or common.field_writes(g, KVFLD):
        return None
    ef = ExpiryFacts(fb, g, depth)
    v = ef.pa.v
    tmask = fmask = 0
    for ret in common.returns(g):
        st = ef.pa.before(ret)
        if st is None or ret.node.get("v") is None:
            continue
        cv = const_value(ret.node["v"])
        fm = translate(ret.node["v"], ef.pa.leaf)
        tmask |= 0 if cv == 0 and fm is None else v.assume(st, known_when(fm, True))
        fmask |= 0 if cv == 1 and fm is None else v.assume(st, known_when(fm, False))
    ih, il, ie = v.idx["hasexp"], v.idx["live"], v.idx["eq"]

    def proj(mask):
        return {((a >> ih) & 1, (a >> il) & 1, (a >> ie) & 1) for a in range(v.size) if mask >> a & 1}
    ts, fs = proj(tmask), proj(fmask)
    if not ts or not fs or ts & fs:
        return None
    g.__dict__[key] = _dnf(ts, ["hasexp", "live", "eq"])
    return g.__dict__[key]


def returned_locals(f):
    """declaration ids of the locals a function returns (`return result;`)"""
    out = set()
    for ret in common.returns(f):
        v = arg_var(ret.node.get("v")) if ret.node.get("v") is not None else None
        if v is not None and not any(p_.get("d") == v.get("d") for p_ in f.params):
            out.add(v.get("d"))
    return out


def additions_to(f, ids):
    """elements that put something into one of the local containers `ids` (push_back / emplace / insert / `c[k] = v`)"""
    out = []
    for e in f.stmts():
        n = e.node
        if n.get("k") == "mcall" and last(n.get("callee", "")) in ("push_back", "emplace_back", "emplace", "insert", "insert_or_assign", "try_emplace", "push_front"):
            o = arg_var(n.get("obj"))
            if o is not None and o.get("d") in ids:
                out.append(e)
        elif n.get("k") == "opcall" and n.get("op") == "=" and len(n.get("args", [])) == 2:
            l = strip_wrappers(n["args"][0])
            if l is not None and l.get("k") == "opcall" and l.get("op") == "[]" and arg_var(l["args"][0]) is not None and arg_var(l["args"][0]).get("d") in ids:
                out.append(e)
    return out


def is_absent_value(v):
    """`std::nullopt` / `{}` / a default-constructed optional: the answer 'no such key'"""
    if v is None:
        return True
    if any(x.get("k") in ("gvar", "gref") and x.get("n") == "std::nullopt" for x in walk(v)):
        return True
    v0 = strip_casts(strip_wrappers(v))
    return v0.get("k") in ("zero",) or (v0.get("k") in ("ctor", "ilist") and not [a for a in (v0.get("args") or v0.get("vals") or []) if not a.get("def")])


def lambda_function(f, arg):
    """the Function of a lambda passed as an argument (inline or through a local), None when its body is not in the facts (a generic lambda is a
    template: only its instantiation inside the algorithm has a body, and that lies outside the extracted sources)"""
    a = strip_casts(strip_wrappers(arg))
    while a is not None and a.get("k") == "ctor" and len(a.get("args", [])) == 1:
        a = strip_casts(strip_wrappers(a["args"][0]))
    if a is not None and a.get("k") == "var":
        for e in f.stmts():
            if e.node.get("k") == "decl":
                for v in e.node["vars"]:
                    if v["d"] == a.get("d") and v.get("init") is not None:
                        a = strip_casts(strip_wrappers(v["init"]))
    if a is None or a.get("k") != "lambda":
        return None
    for (ln, lf) in f.lambdas:
        if lf.name == a.get("fn") and lf.ok:
            return lf
    return None


def r2_size(fb, r, f):
    """size = |kv| − |{entries of the expiry map with deadline <= now}|: the subtrahend is a counter incremented only on the `expiry <= now` side of a
    loop over the expiry map, or the result of std::count_if over the whole expiry map with exactly that predicate"""
    clock = clock_ids(fb, f)

    def is_now(x):
        v = arg_var(x)
        return is_clock_call(x) or (v is not None and v.get("d") in clock)

    def eleaf(n):
        for (op, l, rr) in common.cmp_both(n):
            l0 = strip_casts(strip_wrappers(l))
            if l0.get("k") == "member" and l0.get("n") == EXP and is_now(rr):
                return {"<=": Not(A("elive")), ">": A("elive")}.get(op)
        return None
    rets = common.returns(f)
    subs = []
    def is_kv_size(x):
        x = through_const_local(f, x.node.get("v") or {}) if hasattr(x, "node") else through_const_local(f, x)
        return x is not None and x.get("k") == "mcall" and last(x.get("callee", "")) == "size" and field_of(x.get("obj")) == KVFLD
    for x in rets:
        v = strip_casts(strip_wrappers(x.node.get("v") or {}))
        if v.get("k") == "bin" and v.get("op") == "-" and is_kv_size(v["lhs"]):
            subs.append(arg_var(v["rhs"]))
    r.instance()
    if len(subs) != 1 or subs[0] is None:
        if all(is_kv_size(x) for x in rets):
            r.fail(f, None, "size: result", "size() does not return |kv| minus the expired count")
            return
        raise AnalysisBroken("size(): the result is not of the form `_kv.size() - <count of expired entries>` (or it is computed elsewhere): no verdict")
    cd = subs[0].get("d")
    init = next((v.get("init") for e in f.stmts() if e.node.get("k") == "decl" for v in e.node["vars"] if v["d"] == cd), None)
    i0 = strip_casts(strip_wrappers(init)) if init is not None else None
    if i0 is not None and i0.get("k") == "call" and i0.get("callee") == "std::count_if":
        a = i0["args"]
        whole = len(a) == 3 and all(strip_casts(x).get("k") == "mcall" and field_of(strip_casts(x).get("obj")) == EXPF for x in a[:2]) and \
            last(strip_casts(a[0])["callee"]) in ("begin", "cbegin") and last(strip_casts(a[1])["callee"]) in ("end", "cend")
        lf = lambda_function(f, a[2]) if len(a) == 3 else None
        if lf is None:
            raise AnalysisBroken("size(): the expired count comes from std::count_if with a predicate whose body is not in the facts (generic lambda): which entries it counts cannot be judged")
        from ..predabs import translate, total
        ok = whole
        for ret in common.returns(lf):
            def lleaf(n, lf=lf):
                for (op, l, rr) in common.cmp_both(n):
                    l0 = strip_casts(strip_wrappers(l))
                    rv = arg_var(rr)
                    if l0.get("k") == "member" and l0.get("n") == EXP and (is_clock_call(rr) or (rv is not None and any(c.get("n") == rv.get("n") and c.get("d") in clock for c in (lf.lambda_node.get("caps") or [])))):
                        return {"<=": Not(A("elive")), ">": A("elive")}.get(op)
                return None
            fm = total(translate(ret.node.get("v") or {}, lleaf))
            ok = ok and fm is not None and Vocab(["elive"]).mask(fm) == Vocab(["elive"]).mask(Not(A("elive")))
        r.expect(ok and bool(common.returns(lf)), f, f.elem_for(i0), "size: expired count", "size() does not count exactly the entries with expiry <= now as expired",
                 okdesc="size: count_if over _expiry with predicate `expiry <= now`")
    else:
        incs = [e for e in f.stmts() if e.node.get("k") == "un" and "++" in e.node["op"] and strip_wrappers(e.node["v"]).get("d") == cd]
        incs += [e for e in f.stmts() if e.node.get("k") == "bin" and e.node.get("op") == "+=" and strip_wrappers(e.node["lhs"]).get("d") == cd]
        pa2 = PredAbs(f, Vocab(["elive"]), eleaf,
                      lambda e: [("havoc", "elive")] if e.kind == "stmt" and e.node.get("k") == "decl" and any(v["n"].startswith("__begin") or "*__begin" in show(v.get("init") or {}) for v in e.node["vars"]) else None, track_bools=True)
        r.expect(len(incs) == 1 and pa2.entails(incs[0], Not(A("elive"))), f, incs[0] if incs else None, "size: expired count", "size() does not count exactly the entries with expiry <= now as expired",
                 okdesc="size: ++expired only when expiry <= now")
    r.instance()
    r.expect(all(any(y.get("k") == "var" and y.get("d") == cd for y in walk(x.node)) or (is_kv_size(x) and pa_entails_empty(f, x)) for x in rets), f, None, "size: result", "size() does not return |kv| minus the expired count",
             okdesc="size: _kv.size() - expired (or _kv.size() when no expiry entries exist)")


def r2(ctx, r):
    fb = ctx.fb()
    refused = []
    for name in READ_APIS:
        f = kvf(ctx, name)
        r.instance()
        r.expect(_now_ok(f), f, None, "%s: now" % name, "%s compares expiry with something other than an unmodified system_clock::now()" % name, okdesc="%s: now = system_clock::now()" % name)
        if name == "size":
            try:
                r2_size(fb, r, f)
            except AnalysisBroken as ex:      # a refusal for one API must not hide a verdict on the others
                refused.append(str(ex))
            continue
        ef = ExpiryFacts(fb, f)
        live = Or(Not(A("hasexp")), A("live"))
        # report sites, by what they do: (element, expression that must be true for the key to be reported | None, goal, description)
        reports = []
        if name == "get":
            # every return that carries a value: out of the cache entry (CacheEntry::value) → the cached deadline was checked; anything else → the store's
            for ret in common.returns(f):
                v = ret.node.get("v")
                if is_absent_value(v):
                    continue
                if arg_var(v) is not None:      # `return out;` with the answer assembled in a local: which paths carry a value is not visible at the return
                    refused.append("get: returns the local `%s`, a shape this rule does not follow" % arg_var(v).get("n"))
                    continue
                if any(x.get("k") == "member" and x.get("n") == KV + "::CacheEntry::value" for x in walk(v)):
                    reports.append((ret, None, And(A("chit"), A("clive")), "cache hit"))
                else:
                    reports.append((ret, None, live, "value"))
        elif name in ("getBatch", "keys", "keysWithPrefix"):
            # whatever is added to the container the function returns
            res = returned_locals(f)
            reports = [(e, None, live, show(e.node)[:48]) for e in additions_to(f, res)]
        elif name == "exists":
            # `return true`, and `return <condition>` on the paths where the condition holds
            for ret in common.returns(f):
                v = ret.node.get("v")
                if v is None or const_value(v) == 0:
                    continue
                reports.append((ret, None if const_value(v) == 1 else v, live, "return true" if const_value(v) == 1 else "return %s (true)" % show(v)[:40]))
        elif name == "ttl":
            reports = [(ret, None, And(A("hasexp"), A("live")), "remaining") for ret in common.returns(f) if not is_absent_value(ret.node.get("v"))]
        if not reports:
            # the result is produced somewhere this rule does not look (e.g. inside a helper): no verdict, and never a pass
            refused.append("%s no longer has a recognisable 'key present' result in its own body" % name)
        for (e, cond, goal, what) in reports:
            r.instance()
            if not ef.entails_when(e, cond, True, goal) and any(search(f, o, lambda x, e=e: x is e, eh=False) is not None for o in ef.opaque):
                # the expiry test may sit in a helper of a shape this rule does not summarise (it returns an iterator, an optional, …): a refusal, not a verdict
                refused.append("%s: `%s` is reached after a call of %s, which reads the expiry map but is not a predicate this rule can summarise" % (name, what, ", ".join(sorted({last(o.node.get("callee", "?")) for o in ef.opaque}))))
                continue
            r.expect(ef.entails_when(e, cond, True, goal), f, e, "%s reports an expired key" % name, "KVStore::%s reaches `%s` on a path where the key's expiry was not compared with now on the not-expired side "
                     "(known: %s): a key past its deadline but not yet evicted is observable" % (name, what, ",".join(ef.pa.describe(e)) or "nothing"), okdesc="%s: %s only when not expired" % (name, what))
    # closed set: the public const-behaving methods that read _kv (a method that changes _kv itself or through a helper of the store is a writer)
    readers = set()
    for f in fb.methods_of(KV):
        if f.ok and f.access == "public" and any(n.get("k") == "member" and n["n"] == KV + "::_kv" for n in f.nodes.values()):
            if not any(common.field_writes(g, KV + "::_kv") for g in kv_methods_reached(fb, f)):
                readers.add(last(f.name))
    r.instance()
    r.expect(readers <= set(READ_APIS) | {"expireAt", "persist"}, KV, None, "new read API", "public methods %s read _kv but are not in the checked set of read APIs" % sorted(readers - set(READ_APIS) - {"expireAt", "persist"}),
             okdesc="read APIs = %s" % sorted(readers))
    if refused:
        raise AnalysisBroken("; ".join(refused))


def pa_entails_empty(f, ret):
    # `if (_expiry.empty()) return _kv.size();`
    for b in f.blocks.values():
        c, st, sf = common.branch(b)
        if c is not None and c.get("k") == "mcall" and last(c.get("callee", "")) == "empty" and field_of(c.get("obj")) == EXPF and st is not None and search(f, ("block", st), lambda x: x is ret, eh=False) is not None:
            return True
    return False


def witness_where(f, w):
    """(element to point at, text of the last decision) for a block-path witness: the `return` the path ends in if there is one, else
    the last branch it took"""
    ret, cond = None, None
    for (bid, i0, i1) in reversed(w or []):
        b = f.blocks[bid]
        if ret is None:
            for e in b.elems[i0:]:
                if e.kind == "stmt" and e.node.get("k") == "ret":
                    ret = e
        if cond is None and b.cond is not None and len(b.succs) == 2 and (bid, i0, i1) != (w or [None])[-1]:
            cond = b
        if ret is not None and cond is not None:
            break
    txt_ = ""
    if cond is not None:
        nxt = None
        for j, (bid, i0, i1) in enumerate(w):
            if bid == cond.id and j + 1 < len(w):
                nxt = w[j + 1][0]
        side = "" if nxt is None else (" holds" if cond.succs[0] == nxt else " does not hold")
        txt_ = "`%s`%s" % (show(cond.cond)[:90], side)
    return (ret if ret is not None else (cond.elems[-1] if cond is not None and cond.elems else None)), txt_


def plain_write_key(fb, f, name, stores):
    """(declaration id of the variable K that indexes the store `_kv[K] = v`, the declaration element of K when it is a loop variable — none
    when it is a parameter —, the clear/hasexp abstraction of f for K)"""
    kds = set()
    for s_ in stores:
        ix = strip_wrappers(s_.node["args"][0])
        kv = arg_var(ix["args"][1]) if ix.get("k") == "opcall" and len(ix.get("args", [])) == 2 else None
        kds.add(kv.get("d") if kv is not None else None)
    if len(kds) != 1 or None in kds:
        raise AnalysisBroken("%s: the key of the store into _kv is not one plain variable" % name)
    kd = kds.pop()
    decl = []
    if not any(p.get("d") == kd for p in f.params):
        decl = [e for e in f.stmts() if e.node.get("k") == "decl" and any(v.get("d") == kd or any(b_.get("d") == kd for b_ in v.get("bindings", [])) for v in e.node["vars"])]
        if len(decl) != 1:
            raise AnalysisBroken("%s: the declaration of the key variable of the store into _kv is not recognised" % name)
    return kd, decl, expiry_clear_abs(fb, f, kd, reset_at=decl)


def timer_cancel_sites(fb, f, kd, depth=0):
    """elements of f that cancel the armed timer of the key in variable kd: cancelTimerLocked(K), or a call of a helper of the store that
    hands K to cancelTimerLocked before each of its own removals of K's expiry entry"""
    out = []
    for e in f.stmts():
        g = kv_callee(fb, e.node)
        if g is None:
            continue
        for i, a in enumerate(e.node["args"]):
            av = arg_var(a)
            if av is None or av.get("d") != kd:
                continue
            if g.name == KV + "::cancelTimerLocked":
                out.append(e)
            elif depth < 3:
                pd = g.params[i]["d"]
                cl, cs = expiry_clear_sites(fb, g, pd, depth + 1), timer_cancel_sites(fb, g, pd, depth + 1)
                if cl and cs and all(any(elem_dominates(g, c, x) for c in cs) for x in cl):
                    out.append(e)
    return out


def plain_write_always_clears(fb, r, f, name, stores, kd, decl, pa):
    """Map semantics of the plain write: once set(k, v) / setBatch({k: v, …}) has returned normally, ttl(k) is none — on EVERY path, not
    only on the one that stores.  The dominance clause (erase before the store) is satisfied by a shortcut that leaves before the
    store ('the bytes are identical, nothing to write'): nothing is stored without the erase, yet the call reports success while the
    key keeps its deadline, its timer and its cached expiry.  Decided here, by one and the same obligation for both forms (siblings
    must agree): every normal return of the single-key form carries 'the expiry entry of the key parameter was removed and not put
    back' or 'no entry was found for it'; every way out of an iteration of the batch loop carries it for that iteration's key; and
    the batch form cannot return without having been through that loop unless the batch is empty.  Removal through a helper of the
    store counts when the helper removes on all of its own normal paths (expiry_clear_sites)."""
    r.instance()
    if not decl:
        ok = pa.exit_entails(EXPIRY_GONE)
        w = None
        if not ok:
            sites = {id(e) for e in expiry_clear_sites(fb, f, kd)}
            w = search(f, ("entry",), "exit", stop=lambda x: id(x) in sites, eh=False)
        where, why = witness_where(f, w)
        r.expect(ok, f, where, "%s: returns with the expiry in place" % name, "the plain %s can return normally without having removed the key's expiry entry (path taken when %s): the call reports success, but a key that "
                 "carried a deadline (set with TTL, expireAt) keeps it — ttl() still answers, the key disappears from every read path when the old deadline passes, and it is dropped at compaction and reopen — although "
                 "a plain write makes the key permanent (as the batch form does)" % (name, why or "?"), witness=witness_str(f, w), okdesc="%s: every normal return is behind _expiry.erase(key) (or no entry found)" % name)
        return
    # batch form: K is the variable of a loop over the batch
    loops = []
    for h in loop_heads(f):
        body, backs = natural_loop(f, h)
        if all(s_.block.id in body for s_ in stores) and backs:
            loops.append((len(body), h, body, backs))
    if len(decl) != 1 or not loops:
        raise AnalysisBroken("%s: the loop that applies the batch is not recognised" % name)
    _, head, body, backs = min(loops, key=lambda t: t[0])
    bad = None
    for bid in sorted(body):
        b = f.blocks[bid]
        st = pa.flow.at_block_end(b)
        if st is None or b is head:
            continue
        for si, s in enumerate(b.succs):
            if s is None or (s in body and not (bid in backs and s == head.id)):
                continue
            if s not in body and search(f, ("block", s), "exit", eh=False) is None:
                continue        # leaves the loop by throwing
            st2 = pa._edge(st, b, si)
            if st2 is not None and not pa.v.entails(st2, EXPIRY_GONE):
                bad = b
    w = None
    if bad is not None:
        sites = {id(e) for e in expiry_clear_sites(fb, f, kd)}
        w = search(f, decl[0], lambda x: x.block is bad and x.idx == len(bad.elems) - 1, stop=lambda x: id(x) in sites, eh=False)
    where, why = witness_where(f, (w or []) + [(head.id, 0, None)])
    r.expect(bad is None, f, where, "%s: an entry of the batch keeps its expiry" % name, "an iteration of the loop in which the plain %s applies the batch can end without having removed that key's expiry entry (path taken "
             "when %s): the call reports success, but a key that carried a deadline keeps it although a plain write makes it permanent" % (name, why or "?"), witness=witness_str(f, w),
             okdesc="%s: every iteration of the apply loop passes _expiry.erase(key)" % name)
    r.instance()

    def empty_batch_edge(b, si):
        c, st, sf = common.branch(b)
        c = strip_casts(c) if c is not None else None
        if c is not None and c.get("k") == "mcall" and last(c.get("callee", "")) == "empty" and arg_var(c.get("obj")) is not None and any(p.get("d") == arg_var(c["obj"]).get("d") for p in f.params):
            return b.succs[si] != st
        return True
    w = search(f, ("entry",), "exit", stop=lambda x: x.block is head, eh=False, edge_ok=empty_batch_edge)
    where, why = witness_where(f, w)
    r.expect(w is None, f, where, "%s: returns without applying the batch" % name, "the plain %s can return normally for a non-empty batch without running the loop that stores the values and clears their expiries "
             "(path taken when %s)" % (name, why or "?"), witness=witness_str(f, w), okdesc="%s: only an empty batch returns before the apply loop" % name)


def r12(ctx, r):
    """a plain write that reports success has removed the key's expiry — on every path, in both forms (plain_write_always_clears)"""
    fb = ctx.fb()
    for (name, np) in (("set", 2), ("setBatch", 1)):
        f = kvf(ctx, name, np)
        stores = [e for e in f.stmts() if e.node.get("k") == "opcall" and e.node.get("op") == "=" and (access_path(e.node["args"][0]) or ("", ""))[-2:] == (KV + "::_kv", "[]") and not e.catch_id]
        if not stores:
            raise AnalysisBroken("%s/%d: no store into _kv" % (name, np))
        kd, decl, pa = plain_write_key(fb, f, name, stores)
        plain_write_always_clears(fb, r, f, name, stores, kd, decl, pa)


def r3(ctx, r):
    fb, la = ctx.fb(), ctx.locks()
    # plain writes
    for (name, np) in (("set", 2), ("setBatch", 1)):
        f = kvf(ctx, name, np)
        stores = [e for e in f.stmts() if e.node.get("k") == "opcall" and e.node.get("op") == "=" and (access_path(e.node["args"][0]) or ("", ""))[-2:] == (KV + "::_kv", "[]")]
        ucs = [e for e in f.stmts() if e.node.get("k") == "mcall" and e.node.get("callee") == KV + "::updateCache"]
        if not stores:
            raise AnalysisBroken("%s/%d: no store into _kv" % (name, np))
        if not fb.funcs(KV + "::cancelTimerLocked", KVF):
            raise AnalysisBroken("KVStore::cancelTimerLocked (the timer cancel the rule is anchored on) no longer exists")
        # the key K of the store by dataflow (the variable that indexes `_kv[K] = v`); 'expiry entry of K removed' and 'timer of K cancelled' are
        # recognised inline or through a helper of the store that does it on all of its paths (expiry_clear_sites / timer_cancel_sites)
        kd, decl, pa = plain_write_key(fb, f, name, stores)
        cans = timer_cancel_sites(fb, f, kd)
        for s_ in stores:
            if s_.catch_id:
                continue
            r.instance()
            ok = pa.entails(s_, EXPIRY_GONE) and any(elem_dominates(f, x, s_) for x in cans)
            r.expect(ok, f, s_, "%s: expiry survives overwrite" % name, "a plain %s stores the value without first cancelling the key's timer and erasing its expiry entry: the overwritten key still "
                     "expires at the old deadline" % name, okdesc="%s: cancel + _expiry.erase before _kv[key] = value" % name)
            r.instance()
            ok = any(elem_dominates(f, s_, u) and "kNoExpiry()" in show(u.node) for u in ucs)
            r.expect(ok, f, s_, "%s: cache expiry" % name, "a plain %s caches the value with an expiry other than 'none'" % name, okdesc="%s: updateCache(…, kNoExpiry())" % name)
    # TTL writes
    for (name, np) in (("set", 3), ("setBatch", 2)):
        f = kvf(ctx, name, np)
        stores = [e for e in f.stmts() if e.node.get("k") == "opcall" and e.node.get("op") == "=" and (access_path(e.node["args"][0]) or ("", ""))[-2:] == (KV + "::_expiry", "[]") and not e.catch_id]
        ucs = [e for e in f.stmts() if e.node.get("k") == "mcall" and e.node.get("callee") == KV + "::updateCache"]
        logs = [e for e in f.stmts() if e.node.get("k") == "mcall" and e.node.get("callee") == KV + "::writeLogEntry"]
        arms = [e for e in f.stmts() if e.node.get("k") == "mcall" and e.node.get("callee") == KV + "::armTimerLocked"]
        r.instance()
        if not stores:
            r.fail(f, None, "%s(ttl): no expiry stored" % name, "the TTL form of %s no longer records an expiry entry" % name)
            continue
        ev = None
        m_ = [x for x in walk(stores[0].node["args"][1]) if x.get("k") == "var" and "time_point" in x.get("t", "")]
        ev = m_[0]["n"] if m_ else None
        r.expect(ev is not None, f, stores[0], "%s(ttl): expiry value" % name, "the stored expiry is not a time point variable", okdesc="%s(ttl): _expiry[key] = {%s, id}" % (name, ev))
        if ev is None:
            continue
        # expiry = system_clock::now() + ttl
        init = None
        for e in f.stmts():
            if e.node.get("k") == "decl":
                for v in e.node["vars"]:
                    if v["n"] == ev:
                        init = show(strip_wrappers(v.get("init") or {})).replace(" ", "")
        r.instance()
        r.expect(init in ("system_clock::now()+ttl",), f, None, "%s(ttl): deadline" % name, "the deadline is `%s`, not system_clock::now() + ttl" % init, okdesc="%s(ttl): expiry = now() + ttl" % name)
        for (lst, what, pat) in ((ucs, "cache", ev), (logs, "log record", "KVStore::toEpochMs(%s)" % ev), (arms, "timer", ev)):
            r.instance()
            good = [e for e in lst if not e.catch_id and pat in txt(e.node)]
            r.expect(bool(good), f, None, "%s(ttl): %s uses another expiry" % (name, what), "the %s of a TTL write does not carry the expiry that is stored in memory (`%s`): after a restart or a cache hit the key "
                     "lives to a different deadline" % (what, pat), okdesc="%s(ttl): %s carries %s" % (name, what, pat))
    for name, expect in (("expireAt", "when"), ("persist", None)):
        f = kvf(ctx, name)
        # 'the cached entry of the key is dropped': `_cache.erase(key)` written out, or a call of a helper of the store that erases its key parameter from the cache
        # on all of its paths (invalidateCache) — the key is the method's string parameter
        kps = [p_ for p_ in f.params if "basic_string" in p_.get("t", "")]
        if len(kps) != 1:
            raise AnalysisBroken("%s: key parameter not recognised" % name)
        inv = clear_sites(fb, f, KV + "::_cache", kps[0]["d"])
        chg = [e for (e, n, k) in common.field_writes(f, KV + "::_expiry")]
        r.instance()
        r.expect(inv and chg and all(any(search(f, c, lambda x, i=i: x is i, eh=False) is not None or elem_dominates(f, i, c) for i in inv) for c in chg) and
                 search(f, chg[0], "exit", stop=lambda x: x in inv or (x.kind == "stmt" and x.node.get("k") == "throw"), eh=False) is None, f, None, "%s: cache not invalidated" % name,
                 "%s changes the key's expiry but leaves the cached entry (with the old expiry) in place" % name, okdesc="%s: invalidateCache on every path" % name)
        logs = [e for e in f.stmts() if e.node.get("k") == "mcall" and e.node.get("callee") == KV + "::writeLogEntry"]
        r.instance()
        pat = "KVStore::toEpochMs(%s)" % expect if expect else "NO_EXPIRY_SENTINEL"
        r.expect(len(logs) == 1 and pat in txt(logs[0].node) and "'X'" in show(logs[0].node), f, logs[0] if logs else None, "%s: log record" % name, "%s does not journal an 'X' record carrying %s" % (name, pat),
                 okdesc="%s: writeLogEntry('X', key, …, %s)" % (name, pat))


def r4(ctx, r):
    fb = ctx.fb()
    ld = kvf(ctx, "load")
    r.instance()
    r.expect(_now_ok(ld), ld, None, "load: now", "load() does not use an unmodified system_clock::now()", okdesc="load: now = system_clock::now()")
    # replay is a fold over the history: no decision inside the replay loops depends on the clock.  The replay loops are the loops that apply
    # records to the maps (their bodies write _kv / _expiry), in load() itself or in the private helpers it is split into (loadSnapshot(),
    # replayLog(), …); the sweep that applies expiry afterwards is not one of them.
    SWEEP = KV + "::dropExpiredAfterReplay"
    family = [g for g in kv_methods_reached(fb, ld, stop=(SWEEP,)) if g.kind != "lambda"]
    replay_loops = []
    for g in family:
        wr = [e for fld in (KV + "::_kv", KV + "::_expiry") for (e, n, k) in common.field_writes(g, fld)]
        for h in loop_heads(g):
            body, backs = natural_loop(g, h)
            if backs and any(e.block.id in body for e in wr):
                replay_loops.append((g, h, body))
    if len(replay_loops) < 2:
        raise AnalysisBroken("load(): %d replay loops recognised" % len(replay_loops))

    def reads_clock(h_):
        return any(is_clock_call(n) for x in kv_methods_reached(fb, h_) for n in x.nodes.values())
    nclock = 0
    for (g, lb, body) in replay_loops:
        clock = clock_ids(fb, g)
        for bid in body:
            b = g.blocks[bid]
            if b.cond is None or not b.elems:
                continue
            if any((x.get("k") == "var" and x.get("d") in clock) or is_clock_call(x) or (kv_callee(fb, x) is not None and reads_clock(kv_callee(fb, x))) for x in walk(b.cond)):
                nclock += 1
                r.instance()
                r.fail(g, b.elems[-1], "replay decision depends on the clock", "inside the replay loop `%s` decides by the current time: a record that looks expired may be followed by one that clears or extends "
                       "the expiry (persist / expireAt), so keys are lost across a restart — expiry must be applied once, after the whole history" % show(b.cond)[:60])
    r.instance()
    r.expect(nclock == 0, ld, None, "clock in replay", "replay loops consult the clock", okdesc="replay loops are clock-independent")
    sweeps = [e for e in ld.stmts() if e.node.get("k") == "mcall" and e.node.get("callee") == SWEEP]
    if not sweeps and any(e.node.get("k") == "mcall" and e.node.get("callee") == SWEEP for g in family for e in g.stmts()):
        raise AnalysisBroken("load(): the post-replay sweep is called from a helper of load(), a shape this rule does not follow")
    r.instance()
    ok = bool(sweeps)
    if ok:
        # every normal exit of load passes a sweep with the clock reading, and nothing is replayed after a sweep: neither a replay loop of load()
        # itself nor a call of a helper that contains one can be reached from it
        w = search(ld, ("entry",), "exit", stop=lambda x: x in sweeps or (x.kind == "stmt" and x.node.get("k") == "throw"), eh=False)
        lclock = clock_ids(fb, ld)
        ok = w is None and all(arg_var(s_.node["args"][0]) is not None and arg_var(s_.node["args"][0]).get("d") in lclock for s_ in sweeps)
        has_loop = {g.sig for (g, lb, body) in replay_loops}
        replays = [e for (g, lb, body) in replay_loops if g is ld for e in lb.elems]
        replays += [e for e in ld.stmts() if kv_callee(fb, e.node) is not None and any(x.sig in has_loop for x in kv_methods_reached(fb, kv_callee(fb, e.node), stop=(SWEEP,)))]
        for s_ in sweeps:
            if search(ld, s_, lambda x: x in replays, eh=False) is not None:
                ok = False
    r.expect(ok, ld, None, "no expiry sweep after replay", "load() can finish without dropping the keys that are still expired after the whole history was applied (or sweeps before the log was replayed)",
             okdesc="dropExpiredAfterReplay(now) on every exit, after the replay")
    sw = fb.funcs(KV + "::dropExpiredAfterReplay", KVF)
    if sw:
        f = sw[0]
        pa = ExpiryFacts(fb, f).pa
        ers = common.member_calls_on(f, KV + "::_kv", ("erase",)) + common.member_calls_on(f, KV + "::_expiry", ("erase",))
        r.instance(len(ers))
        for e in ers:
            r.expect(pa.entails(e, Not(A("live"))), f, e, "sweep side", "the post-replay sweep erases an entry that was not seen to have expiry <= now", okdesc="sweep erases only expiry <= now")
        if len(ers) < 2:
            r.fail(f, None, "sweep incomplete", "the sweep does not erase from both _kv and _expiry")
    # persisted values are absolute: toEpochMs of the stored time point, everywhere
    nlog = 0
    for f in fb.methods_of(KV):
        if not f.ok:
            continue
        for e in f.stmts():
            if e.node.get("k") == "mcall" and e.node.get("callee") == KV + "::writeLogEntry" and len([a for a in e.node["args"] if not a.get("def")]) == 4:
                nlog += 1
                a = txt(strip_wrappers(e.node["args"][3]))
                r.instance()
                r.expect(a.startswith("KVStore::toEpochMs(") or a.endswith("NO_EXPIRY_SENTINEL"), f, e, "relative expiry persisted", "%s journals `%s` as expiry: only toEpochMs(<absolute time point>) survives a restart unchanged" % (short(f.name), a),
                         okdesc="%s journals %s" % (short(f.name), a))
    if nlog < 4:
        raise AnalysisBroken("only %d expiry-carrying log writes" % nlog)
    cl = kvf(ctx, "compactLocked")
    pa = ExpiryFacts(fb, cl).pa       # a lookup in _expiry (inline or inside a predicate helper of the store) starts the facts afresh for the next key
    surv = [e for e in cl.stmts() if e.node.get("k") == "mcall" and last(e.node["callee"]) == "push_back" and (e.node.get("obj") or {}).get("n") == "survivors"]
    drop = [e for e in cl.stmts() if e.node.get("k") == "mcall" and last(e.node["callee"]) == "push_back" and (e.node.get("obj") or {}).get("n") == "dropped"]
    r.instance(2)
    r.expect(surv and all(pa.entails(e, Or(Not(A("hasexp")), A("live"))) for e in surv), cl, surv[0] if surv else None, "compaction keeps expired", "compaction keeps a key that was not seen to be unexpired",
             okdesc="survivors: no expiry or expiry > now")
    r.expect(drop and all(pa.entails(e, And(A("hasexp"), Not(A("live")))) for e in drop), cl, drop[0] if drop else None, "compaction drops live", "compaction drops a key that was not seen to be expired",
             okdesc="dropped: expiry <= now")
    # what the snapshot stores per key: the argument handed to writeKeyValue — in compactLocked() or in the helper the snapshot block was moved into — is a local that
    # only ever holds toEpochMs(<the entry's ExpiryEntry::expiry>) or the no-expiry sentinel (initialiser, conditional expression, later assignments alike)
    g, wk, site = snapshot_writer(fb, cl)
    r.instance()
    ok = wk is not None
    if ok:
        a = arg_var(wk.node["args"][2])
        vals = []
        if a is not None:
            for n in g.nodes.values():
                if n.get("k") == "decl":
                    vals += [v["init"] for v in n["vars"] if v["d"] == a.get("d") and v.get("init") is not None]
                elif n.get("k") in ("bin", "opcall") and n.get("op") == "=":
                    l = arg_var(n.get("lhs") or n["args"][0])
                    if l is not None and l.get("d") == a.get("d"):
                        vals.append(n.get("rhs") or n["args"][1])

        def kind(v):
            v = strip_casts(strip_wrappers(v))
            if v.get("k") == "cond":
                ks = {kind(v["t"]), kind(v["f"])}
                return "both" if ks == {"abs", "none"} else (ks.pop() if len(ks) == 1 else "other")
            if v.get("k") in ("call", "mcall") and v.get("callee") == KV + "::toEpochMs" and any(x.get("k") == "member" and x.get("n") == EXP for x in walk(v)):
                return "abs"
            if v.get("k") in ("gvar", "gref", "member") and last(v.get("n", "")) == "NO_EXPIRY_SENTINEL":
                return "none"
            return "other"
        ks = {kind(v) for v in vals}
        ok = bool(vals) and "other" not in ks and ("both" in ks or {"abs", "none"} <= ks)
    r.expect(ok, g if wk is not None else cl, wk, "snapshot expiry", "the snapshot does not store toEpochMs(expiry) (or the no-expiry sentinel) per key", okdesc="snapshot: toEpochMs(expiry) | sentinel")


def snapshot_writer(fb, cl):
    """(function, writeKeyValue call element, call element in compactLocked that leads there | None): the place where compaction writes the per-key records — in
    compactLocked() itself or in a helper of the store it calls directly (`writeTempSnapshotLocked(survivors)`)"""
    found = []
    for g in kv_methods_reached(fb, cl):
        if g.kind == "lambda":
            continue
        for e in g.stmts():
            if e.node.get("k") == "mcall" and e.node.get("callee") == KV + "::writeKeyValue":
                found.append((g, e))
    if len(found) != 1:
        return cl, None, None
    g, wk = found[0]
    if g is cl:
        return g, wk, None
    sites = [e for e in cl.stmts() if kv_callee(fb, e.node) is g]
    if len(sites) != 1:
        raise AnalysisBroken("compactLocked(): the snapshot records are written in %s, which compactLocked() does not call directly exactly once" % short(g.name))
    return g, wk, sites[0]


def r5(ctx, r):
    fb = ctx.fb()
    f = kvf(ctx, "evictionCallback")
    vocab = Vocab(["found", "validid", "sameid", "live"])

    # locals by what they hold, not by their names: the captured generation (`= *idHolder`), the clock reading (`= system_clock::now()`)
    holder = [p_["n"] for p_ in f.params if "TimerId" in p_["t"] or "shared_ptr" in p_["t"]]
    captured, clock = set(), set()
    for e in f.stmts():
        if e.node.get("k") == "decl":
            for dv in e.node["vars"]:
                i = dv.get("init")
                if i is None:
                    continue
                if any(x.get("k") == "var" and x.get("n") in holder for x in walk(i)):
                    captured.add(dv["d"])
                if any(x.get("k") == "call" and x.get("callee") == "std::chrono::system_clock::now" for x in walk(i)) and strip_casts(strip_wrappers(i)).get("k") == "call":
                    clock.add(dv["d"])

    def is_captured(x):
        x = strip_casts(x)
        return x.get("k") == "var" and x.get("d") in captured

    def is_now(x):
        x = strip_casts(strip_wrappers(x))
        return (x.get("k") == "var" and x.get("d") in clock) or (x.get("k") == "call" and x.get("callee") == "std::chrono::system_clock::now")

    def leaf(n):
        cp = common.cmp_parts(n)
        if cp:
            op, l, rr = cp
            lt, rt = show(strip_casts(l)), show(strip_casts(rr))
            if "_expiry.end()" in rt and op in ("==", "!="):
                return Not(A("found")) if op == "==" else A("found")
            if is_captured(l) and "InvalidTimerId" in rt and op in ("==", "!="):
                return Not(A("validid")) if op == "==" else A("validid")
            if lt.endswith("timerId") and is_captured(rr) and op in ("==", "!="):
                return A("sameid") if op == "==" else Not(A("sameid"))
            if lt.endswith("expiry") and is_now(rr):
                return {">": A("live"), "<=": Not(A("live")), ">=": None, "<": None}.get(op)
        return None

    store_locks = set()
    store_lock_names = {v["n"] for e in f.stmts() if e.node.get("k") == "decl" for v in e.node["vars"]
                        if LOCK_TYPES.match(v["t"]) and any(x.get("k") == "member" and x["n"] == M for x in walk(v.get("init") or {}))}

    def eff(e):
        # what was learnt under one hold of the store mutex is stale under the next: a set-with-TTL / expireAt can land in between
        if e.kind == "stmt" and e.node.get("k") == "decl":
            for v in e.node["vars"]:
                if LOCK_TYPES.match(v["t"]) and any(x.get("k") == "member" and x["n"] == M for x in walk(v.get("init") or {})):
                    store_locks.add(v["d"])
                    return [("havoc_all", ["found", "validid", "sameid", "live"])]
        if e.kind == "dtor" and LOCK_TYPES.match(e.raw.get("t", "")) and (e.raw.get("d") in store_locks or e.raw.get("n") in store_lock_names):
            return [("havoc_all", ["found", "validid", "sameid", "live"])]
        if e.kind == "stmt" and e.node.get("k") == "mcall" and e.node.get("callee", "").startswith(("std::unique_lock::unlock", "std::shared_lock::unlock", "std::unique_lock::lock")):
            return [("havoc_all", ["found", "validid", "sameid", "live"])]
        return None
    pa = PredAbs(f, vocab, leaf, eff, track_bools=True)
    # the removals of the evicted key from the three maps: inline erases, or calls of a helper of the store that erases its key parameter on all of
    # its paths (`forgetKeyLocked(key)`); the key is the callback's string parameter
    kps = [p_ for p_ in f.params if "basic_string" in p_.get("t", "")]
    if len(kps) != 1:
        raise AnalysisBroken("evictionCallback: key parameter not recognised")
    ers, per_field = [], {}
    for fld in (KV + "::_kv", KV + "::_expiry", KV + "::_cache"):
        per_field[fld] = clear_sites(fb, f, fld, kps[0]["d"])
        ers += [e for e in per_field[fld] if not any(e is x for x in ers)]
    if not all(per_field.values()):
        r.fail(f, None, "eviction incomplete", "evictionCallback does not erase the key from values, expiry map and cache")
    for e in ers:
        r.instance()
        r.expect(pa.entails(e, And(A("found"), A("validid"), A("sameid"), Not(A("live")))), f, e, "eviction unguarded",
                 "evictionCallback erases on a path where the entry's timer id was not seen equal to the captured id (generation guard) or its expiry was not seen <= now (known: %s): "
                 "a timer left over from before a re-set of the same key deletes the new value" % ",".join(pa.describe(e)), okdesc="evict only when same generation and expiry <= now")
    r.instance()
    r.expect(_now_ok(f), f, None, "eviction clock", "evictionCallback does not use an unmodified system_clock::now()", okdesc="eviction: now = system_clock::now()")
    # captured id is read under the lock
    r.instance()
    la = ctx.locks()
    rd = [e for e in f.stmts() if e.node.get("k") == "decl" and any(v["d"] in captured for v in e.node["vars"])]
    r.expect(rd and all(la.holds(f, x, M) for x in rd), f, rd[0] if rd else None, "captured id read unlocked", "the captured timer id is read before _mutex is taken (races its publication in armTimerLocked)",
             okdesc="capturedId read under _mutex")
    # never reschedule
    r.instance()
    bad = [(g, e) for g in fb.in_file(KVF) if g.ok for e in g.stmts() if e.node.get("k") == "mcall" and e.node.get("callee") == "iora::core::TimingWheel::reschedule"]
    r.expect(not bad, bad[0][0] if bad else KV, bad[0][1] if bad else None, "reschedule used", "KVStore calls TimingWheel::reschedule, which keeps the timer id and defeats the generation guard",
             okdesc="KVStore never calls TimingWheel::reschedule")
    # arm: id published into the holder under the caller's lock, closure carries key copy + holder
    arm = kvf(ctx, "armTimerLocked")
    r.instance()
    pub = [e for e in arm.stmts() if e.node.get("k") in ("bin", "opcall") and e.node.get("op") == "=" and "idHolder" in show(e.node.get("lhs") or e.node["args"][0])]
    sch = [e for e in arm.stmts() if e.node.get("k") == "mcall" and e.node.get("callee") == "iora::core::TimingWheel::schedule"]
    r.expect(pub and sch and elem_dominates(arm, sch[0], pub[0]) and M in {m for (m, md, h) in la.entry(arm)}, arm, None, "id publication", "armTimerLocked does not publish the new timer id into the holder while _mutex is held",
             okdesc="armTimerLocked: *idHolder = id under _mutex")


def r6(ctx, r):
    cl = kvf(ctx, "compactLocked")
    fb = ctx.fb()
    g, wk, site = snapshot_writer(fb, cl)
    r.instance()
    # the write loop iterates `survivors`: in compactLocked() itself, or — when the snapshot block is a helper — over the parameter that compactLocked() binds to `survivors`
    ok = wk is not None
    if ok:
        rng = [arg_var(v["init"]) for e in g.stmts() if e.node.get("k") == "decl" for v in e.node["vars"] if v["n"].startswith("__range") and v.get("init") is not None]
        if g is cl:
            src = [x.get("n") for x in rng if x is not None]
        else:
            src = []
            for x in rng:
                for i, p_ in enumerate(g.params):
                    if x is not None and p_.get("d") == x.get("d") and arg_var(site.node["args"][i]) is not None:
                        src.append(arg_var(site.node["args"][i]).get("n"))
        kv_ = arg_var(wk.node["args"][1])
        loopvar = kv_ is not None and any(e.node.get("k") == "decl" and any(v.get("d") == kv_.get("d") and "__begin" in show(v.get("init") or {}) for v in e.node["vars"]) for e in g.stmts())
        ok = "survivors" in src and loopvar
    r.expect(ok, cl, wk if g is cl else site, "snapshot source", "the snapshot is not written from the survivor list", okdesc="snapshot written from `survivors`")
    ren = [e for e in cl.stmts() if e.node.get("k") == "call" and e.node.get("callee") == "std::filesystem::rename"]
    ers = common.member_calls_on(cl, KV + "::_kv", ("erase",)) + common.member_calls_on(cl, KV + "::_expiry", ("erase",))
    r.instance()
    r.expect(ren and ers and all(search(cl, ("entry",), lambda x, e=e: x is e, stop=lambda x: x in ren, eh=False) is None for e in ers), cl, None, "pruned before rename", "dropped keys leave memory before the snapshot is in place",
             okdesc="memory pruned after rename")
    r.instance()
    dr = [show(strip_wrappers(v["init"])) for e in cl.stmts() if e.node.get("k") == "decl" for v in e.node["vars"] if v["n"].startswith("__range") and v.get("init") is not None]
    r.expect(dr.count("dropped") >= 1, cl, None, "prune source", "the in-memory pruning does not iterate the dropped list", okdesc="pruning iterates `dropped`")


def r7(ctx, r):
    """journal record layout: the writer emits a field exactly when the replay decoder expects it (both decide by the op code)"""
    fb = ctx.fb()
    wl = kvf(ctx, "writeLogEntry")
    common.require_names(wl, ["op", "key", "value", "buffer"])
    # the decoder: load() itself, or the helper load() hands the log replay to (the function reached from load() that dispatches on the op code)
    cands = []
    for g in kv_methods_reached(fb, kvf(ctx, "load")):
        try:
            common.require_names(g, ["op", "ptr", "end"])
            cands.append(g)
        except AnalysisBroken:
            pass
    if len(cands) != 1:
        common.require_names(kvf(ctx, "load"), ["op", "ptr", "end"])
        raise AnalysisBroken("load(): %d functions reached from load() look like the journal decoder" % len(cands))
    ld = cands[0]
    # writer: flags controlling the optional fields
    flags = {}
    for e in wl.stmts():
        if e.node.get("k") == "decl":
            for v in e.node["vars"]:
                if v["t"] in ("bool", "const bool") and v.get("init") is not None:
                    flags[v["n"]] = (e, v["init"])
    def ops_of(init):
        """set of op characters if init is a disjunction of `op == 'c'` tests, else None"""
        out = set()
        def rec(n):
            n = strip_casts(n)
            if n.get("k") == "bin" and n.get("op") == "||":
                return rec(n["lhs"]) and rec(n["rhs"])
            cp = common.cmp_parts(n)
            if cp and cp[0] == "==" and strip_casts(cp[1]).get("n") == "op" and const_value(cp[2]) is not None:
                out.add(chr(const_value(cp[2])))
                return True
            return False
        return out if rec(init) else None
    # which flag guards which field: the block guarded by the flag appends value bytes / the 8-byte expiry
    guards = {}
    for b in wl.blocks.values():
        c = strip_casts(b.cond) if b.cond is not None else None
        if c is not None and c.get("k") == "var" and c["n"] in flags:
            body = " ".join(show(x.node) for x in wl.blocks[b.succs[0]].elems if x.kind == "stmt")
            if "value" in body and "expiry" not in body.lower():
                guards["value"] = c["n"]
            elif "expiry" in body.lower() and "value" not in body:
                guards["expiry"] = c["n"]
    if set(guards) != {"value", "expiry"}:
        raise AnalysisBroken("writeLogEntry: optional-field guards not recognised (%s)" % guards)
    # reader: ops whose arm reads a 4-byte value length / an 8-byte expiry
    reader = {"value": set(), "expiry": set()}
    arms = {}
    for b in ld.blocks.values():
        cp = common.cmp_parts(b.cond) if b.cond is not None else None
        if cp and cp[0] == "==" and strip_casts(cp[1]).get("n") == "op" and const_value(cp[2]) is not None:
            arms[chr(const_value(cp[2]))] = _body(ld, b.succs[0], stop_at_conds_on="op")
        # the same dispatch spelled as `switch (op) { case 'S': … }`: one arm per case label
        if b.term and b.term.get("k") == "SwitchStmt" and b.cond is not None and strip_casts(b.cond).get("n") == "op":
            for si, sid in enumerate(b.succs):
                lab = b.edge_label(si)
                if sid is not None and isinstance(lab, tuple) and lab[0] == "case" and const_value(lab[1]) is not None:
                    others = {x for x in b.succs if x is not None and x != sid}
                    arms[chr(const_value(lab[1]))] = _body(ld, sid, stop_at_conds_on="op", stop_blocks=others)
    for opc, els in arms.items():
        t = " ".join(show(x.node) for x in els)
        if "memcpy(&valLen" in t or "valLen" in t:
            reader["value"].add(opc)
        if "memcpy(&expiryMs" in t or "expiryMs" in t:
            reader["expiry"].add(opc)
    if not reader["value"] or not reader["expiry"]:
        raise AnalysisBroken("load(): arms reading valLen / expiryMs not recognised (%s)" % reader)
    for fld in ("value", "expiry"):
        e, init = flags[guards[fld]]
        w_ops = ops_of(init)
        r.instance()
        r.expect(w_ops is not None and w_ops == reader[fld], wl, e, "journal layout: %s field" % fld, "writeLogEntry emits the %s field when `%s` (%s), while load() expects it exactly for the records with op in %s: a record written without the field "
                 "(e.g. an empty value) is mis-decoded or skipped at replay — the write is lost, or an older value resurfaces, after a restart" % (fld, show(init)[:60], "ops %s" % sorted(w_ops) if w_ops is not None else "not a function of the op code alone", sorted(reader[fld])),
                 okdesc="%s field: writer ops %s = reader ops %s" % (fld, sorted(w_ops) if w_ops else "?", sorted(reader[fld])))
    # every op the API journals has a replay arm (the last arm is the else)
    written = set()
    for f in fb.methods_of(KV):
        if not f.ok:
            continue
        for e in f.stmts():
            if e.node.get("k") == "mcall" and e.node.get("callee") == KV + "::writeLogEntry" and e.node.get("args"):
                cv = const_value(strip_casts(e.node["args"][0]))
                if cv is not None:
                    written.add(chr(cv))
    r.instance()
    r.expect(len(written) >= 4 and len(written - set(arms)) <= 1, ld, None, "journal ops", "the API journals the ops %s but load() has arms for %s" % (sorted(written), sorted(arms)), okdesc="ops journalled %s; replay arms %s + else" % (sorted(written), sorted(arms)))


def _body(f, bid, stop_at_conds_on=None, stop_blocks=()):
    out, seen, work = [], set(), [bid]
    while work:
        b = work.pop()
        if b is None or b in seen or len(seen) > 40 or b in stop_blocks:
            continue
        blk = f.blocks[b]
        if stop_at_conds_on and blk.cond is not None and common.cmp_parts(blk.cond) and strip_casts(common.cmp_parts(blk.cond)[1]).get("n") == stop_at_conds_on:
            continue
        seen.add(b)
        out.extend(x for x in blk.elems if x.kind == "stmt")
        # stay inside the arm: do not follow back edges to the loop head (blocks with a lower line than the arm start are skipped)
        for s_ in blk.succs:
            if s_ is not None and s_ not in seen:
                nxt = f.blocks[s_]
                l0 = next((x.line for x in blk.elems if x.line), 0)
                l1 = next((x.line for x in nxt.elems if x.line), 0)
                if l1 and l0 and l1 < l0:
                    continue
                work.append(s_)
    return out


def r8(ctx, r):
    """a key that leaves the value map leaves the expiry map in the same step"""
    fb, la = ctx.fb(), ctx.locks()
    n = 0
    for f in fb.methods_of(KV):
        if not f.ok:
            continue
        kv_er = common.member_calls_on(f, KV + "::_kv", ("erase", "clear"))
        ex_er = common.member_calls_on(f, KV + "::_expiry", ("erase", "clear"))
        for e in kv_er:
            n += 1
            r.instance()
            ok = any(x.block is e.block for x in ex_er) or any(elem_dominates(f, x, e) for x in ex_er) or (bool(ex_er) and search(f, e, "exit", stop=lambda y: y in ex_er, eh=False) is None)
            r.expect(ok, f, e, "expiry entry orphaned", "%s removes a key from the value map (`%s`) without removing its expiry entry in the same step: the orphaned entry outlives the key, is counted as an expired key by "
                     "size() once its old deadline passes (size() too small, can wrap), and applies the old deadline to a later re-creation of the key that bypasses the TTL path" % (short(f.name), show(e.node)[:40]),
                     okdesc="%s: _kv and _expiry erased together" % last(f.name))
    if n < 8:
        raise AnalysisBroken("only %d removals from _kv found (floor 8)" % n)



CSTR = {"strcmp", "strncmp", "strlen", "strcpy", "strncpy", "strcat", "strncat", "strstr", "strchr", "strrchr", "strcasecmp", "strncasecmp", "strdup", "strtok", "strspn", "strcspn", "strcoll", "sprintf", "sscanf"}


def r9(ctx, r):
    """'binary keys and values … returned byte-for-byte': keys, prefixes and values are arbitrary byte strings with embedded
    NULs.  Nothing in the store may look at them through a C-string function (it stops at the first 0x00), and the prefix test is
    a length-aware comparison of exactly prefix.size() bytes."""
    fb = ctx.fb()
    nfun = 0
    for f in fb.in_file(KVF):
        if not f.ok:
            continue
        nfun += 1
        for e in f.stmts():
            n = e.node
            if n.get("k") == "call" and last(n.get("callee", "")) in CSTR:
                r.instance()
                r.fail(f, e, "C-string function on store data", "%s calls %s(): keys, prefixes and values are binary — a C-string function stops at the first NUL byte, so keys that differ only after an embedded 0x00 "
                       "compare equal (a prefix scan returns, and a prefix remove deletes, keys outside the prefix) or values are cut" % (short(f.name), last(n["callee"])))
    if nfun < 20:
        raise AnalysisBroken("kvstore.hpp: only %d function bodies" % nfun)
    kp = kvf(ctx, "keysWithPrefix")
    tests = [b for b in kp.blocks.values() if b.cond is not None and any(x.get("k") == "mcall" and last(x.get("callee", "")) == "compare" for x in walk(b.cond))]
    r.instance()
    ok = False
    for b in tests:
        for x in walk(b.cond):
            if x.get("k") == "mcall" and last(x.get("callee", "")) == "compare" and len(x.get("args", [])) >= 3:
                # compare(0, P.size(), P) with P the prefix parameter; the length may have been hoisted into a local that is never assigned again
                a = x["args"]
                pd = {p_.get("d") for p_ in kp.params}
                ln = through_const_local(kp, a[1])
                ok = const_value(a[0]) == 0 and ln is not None and ln.get("k") == "mcall" and last(ln.get("callee", "")) in ("size", "length") and arg_var(ln.get("obj")) is not None and \
                    arg_var(ln["obj"]).get("d") in pd and arg_var(a[2]) is not None and arg_var(a[2]).get("d") == arg_var(ln["obj"]).get("d")
    pushes = [e for e in kp.stmts() if e.node.get("k") == "mcall" and last(e.node.get("callee", "")) in ("push_back", "emplace_back")]
    if not pushes:
        raise AnalysisBroken("keysWithPrefix: result collection not found")
    if not tests:
        # another spelling of the prefix test: refuse unless it is one of the other size-aware forms
        alt = any(x.get("k") in ("call", "mcall") and last(x.get("callee", "")) in ("starts_with", "equal", "memcmp", "mismatch") for b in kp.blocks.values() if b.cond is not None for x in walk(b.cond))
        if not alt:
            r.fail(kp, pushes[0], "prefix test", "keysWithPrefix no longer compares the first prefix.size() bytes of the key with the prefix in a length-aware way")
        else:
            raise AnalysisBroken("keysWithPrefix: prefix test in a form this rule does not evaluate")
    else:
        r.expect(ok, kp, pushes[0], "prefix test", "keysWithPrefix does not test `key.compare(0, prefix.size(), prefix) == 0`", okdesc="prefix test compares exactly prefix.size() bytes")


def r10(ctx, r):
    """A key whose deadline has passed is ABSENT for the reference map even while the eviction worker has not removed it yet.  The
    read paths hide it (R2); the mutators that act on an existing key only — persist, expireAt — must treat it as absent too, or
    they give it a new lease of life: the key reappears in every read path and survives compaction and reopen."""
    from ..finite import dominating_facts
    fb = ctx.fb()
    # helpers that decide 'expired' : bool methods of the store whose body compares an `expiry` with the system clock
    helpers = set()
    for g in fb.methods_of(KV):
        if not g.ok:
            continue
        txt_now = any(x.get("k") == "call" and x.get("callee") == "std::chrono::system_clock::now" for x in g.nodes.values())
        cmp_exp = any(common.cmp_parts(x) and any(y.get("k") == "member" and last(y["n"]) == "expiry" for y in walk(x)) for x in g.nodes.values() if x.get("k") in ("bin", "opcall"))
        rets_bool = any(e.node.get("k") == "ret" and (strip_casts(e.node.get("v") or {}).get("t") == "bool" or common.cmp_parts(strip_casts(e.node.get("v") or {}))) for e in g.stmts())
        if txt_now and cmp_exp and any(e.node.get("k") == "ret" and e.node.get("v") is not None for e in g.stmts()) and last(g.name) not in READ_APIS and len(list(g.stmts())) < 25 and not g.name.endswith(("persist", "expireAt")):
            helpers.add(g.name)
    for name in ("persist", "expireAt"):
        f = kvf(ctx, name)
        muts = [e for e in f.stmts() if e.node.get("k") == "mcall" and e.node.get("callee") == KV + "::writeLogEntry"]
        muts += common.member_calls_on(f, KV + "::_expiry", ("erase", "emplace", "insert", "insert_or_assign", "try_emplace"))
        muts += [e for e in f.stmts() if e.node.get("k") in ("opcall", "bin") and e.node.get("op") == "=" and any(x.get("k") == "member" and x["n"] == KV + "::_expiry" for x in walk(e.node["args"][0] if e.node["k"] == "opcall" else e.node["lhs"]))]
        if not muts:
            raise AnalysisBroken("%s: no mutation site found" % name)
        for e in muts:
            r.instance()
            ok = False
            for (c, t) in dominating_facts(f, e):
                c0 = strip_casts(c)
                if c0.get("k") == "mcall" and c0.get("callee") in helpers and not t:
                    ok = True
                co = common.cmp_oriented(c0, lambda x: any(y.get("k") == "call" and y.get("callee") == "std::chrono::system_clock::now" for y in walk(x)) or show(strip_casts(x)) == "now")
                if co and show(strip_casts(co[1])).endswith("expiry") and ((co[0] == ">" and t) or (co[0] == "<=" and not t)):
                    ok = True
            r.expect(ok, f, e, "%s revives an expired key" % name, "KVStore::%s reaches `%s` for a key that exists in _kv without having established that its stored deadline has not passed (no dominating `expiry > now` / "
                     "!isExpired(key)): for a key past its deadline that the eviction worker has not removed yet — hidden from every read path — this makes it permanent / gives it a new deadline, so it reappears in "
                     "get/exists/keys/size and survives compaction and reopen" % (name, show(e.node)[:50]), okdesc="%s: acts only on a key that is not expired" % name)


def r11(ctx, r):
    """'cache sizes smaller than the key set' includes 0: the read cache evicts with erase(begin()), which is undefined on an empty
    map.  Every begin()-erase / begin()-dereference in the store is behind a fact that makes the container non-empty."""
    from ..finite import dominating_facts
    fb = ctx.fb()
    n = 0
    for f in fb.in_file(KVF):
        if not f.ok:
            continue
        for e in f.stmts():
            nd = e.node
            if not (nd.get("k") == "mcall" and last(nd.get("callee", "")) == "erase" and nd.get("args")):
                continue
            a0 = strip_casts(strip_wrappers(nd["args"][0]))
            while a0 is not None and a0.get("k") in ("ctor", "cast") and a0.get("args"):
                a0 = strip_casts(strip_wrappers(a0["args"][0]))
            if not (a0 is not None and a0.get("k") == "mcall" and last(a0.get("callee", "")) in ("begin", "cbegin")):
                continue
            cont = field_of(nd.get("obj"))
            n += 1
            r.instance()
            facts = dominating_facts(f, e)
            ok = False
            limits = []
            for (c, t) in facts:
                c0 = strip_casts(c)
                if c0.get("k") == "mcall" and last(c0.get("callee", "")) == "empty" and field_of(c0.get("obj")) == cont and not t:
                    ok = True
                co = common.cmp_oriented(c0, lambda x: not any(y.get("k") == "mcall" and last(y.get("callee", "")) == "size" and field_of(y.get("obj")) == cont for y in walk(x)))
                if co and any(y.get("k") == "mcall" and last(y.get("callee", "")) == "size" and field_of(y.get("obj")) == cont for y in walk(co[1])):
                    # size() >= L / size() > L (true): non-empty when L > 0 resp. L >= 0
                    if t and co[0] == ">":
                        ok = True
                    if t and co[0] == ">=":
                        cv = const_value(co[2])
                        if cv is not None and cv > 0:
                            ok = True
                        else:
                            limits.append(show(strip_casts(co[2])))
            for L in limits:
                for (c, t) in facts:
                    co = common.cmp_oriented(strip_casts(c), lambda x: const_value(x) == 0)
                    if co and show(strip_casts(co[1])) == L and ((co[0] == "==" and not t) or (co[0] in (">", "!=") and t)):
                        ok = True
            r.expect(ok, f, e, "erase(begin()) on a possibly empty container", "%s evicts with %s.erase(%s.begin()) without a fact that makes it non-empty (known: %s): with a size limit of 0 the test `size() >= limit` holds "
                     "on the empty map and the erase dereferences end() — the first set/get crashes" % (short(f.name), last(cont or "?"), last(cont or "?"), "; ".join(("" if t else "!") + show(c)[:40] for c, t in facts[-3:]) or "nothing"),
                     okdesc="%s: begin()-erase on a non-empty container" % short(f.name))
    if n < 1:
        raise AnalysisBroken("no erase(begin()) site found in kvstore.hpp")


def run(ctx, ck):
    ck.run_rule("C12-R1", "lock table of the store; cache maintained only under the store mutex", "A1 guarded-by + lock order", lambda r: r1(ctx, r))
    ck.run_rule("C12-R2", "every read path applies the expiry backstop", "A5 predicate abstraction, closed set of read APIs", lambda r: r2(ctx, r))
    ck.run_rule("C12-R3", "plain write clears expiry; TTL write stores/caches/journals one and the same expiry", "A2 + dataflow shape", lambda r: r3(ctx, r))
    ck.run_rule("C12-R4", "expiry is absolute and persisted; replay is clock-independent with one final sweep", "A5 + A2", lambda r: r4(ctx, r))
    ck.run_rule("C12-R5", "eviction is generation-guarded", "A5", lambda r: r5(ctx, r))
    ck.run_rule("C12-R7", "journal record layout: writer and replay decide every optional field by the op code, identically", "A10 writer/reader table agreement", lambda r: r7(ctx, r))
    ck.run_rule("C12-R8", "a key leaves the value map and the expiry map together", "A2 pairing", lambda r: r8(ctx, r))
    ck.run_rule("C12-R9", "keys, prefixes and values are binary: no C-string function touches them; the prefix test is length-aware", "A10 closed set of forbidden callees + shape of the prefix test", lambda r: r9(ctx, r))
    ck.run_rule("C12-R10", "persist / expireAt treat an expired, not yet evicted key as absent", "A5 dominating facts; helper summaries (which callee decides 'expired')", lambda r: r10(ctx, r))
    ck.run_rule("C12-R11", "begin()-erase only on a container known non-empty (a size limit of 0 is a valid configuration)", "A5 dominating facts", lambda r: r11(ctx, r))
    ck.run_rule("C12-R6", "keys dropped at compaction never resurrect", "A2", lambda r: r6(ctx, r))
    ck.run_rule("C12-R12", "a plain write that reports success has removed the key's expiry on every path; set and setBatch agree", "A5 must-pass-through (exit / end-of-iteration states), helper summaries, A11 siblings", lambda r: r12(ctx, r))
