"""C18 — WebSocket framing round-trips and reassembles under any segmentation (DESIGN.md §2 C18)."""
from ..cfg import search, witness_str, dominated_by_edge, elem_dominates, dominators
from ..expr import show, walk, last, field_of, strip_wrappers, strip_casts, short, const_value, is_assign, assign_parts as _ap, strip_views
from ..facts import AnalysisBroken
from ..finite import dominating_facts, flatten_fact
from ..predabs import Vocab, PredAbs, A, Not, And, Or, T, F, translate, total, known_when, atoms_of
from ..rules import common
from ..window import Window, lin, form, show_form, guard_ops, TOP, is_top
from .c13 import arm_elems
from .c15 import asg, key_of, _reach_until_ret

TITLE = "WebSocket framing round-trips and reassembles under any segmentation"
# Every rule reads its functions through view() (below): a call to a function of the same class / file that is not in the frozen inventory is
# replaced by the callee's CFG with its parameters bound to the caller's arguments, so the verdict is about the code wherever it was moved to.
# R7 walks the call graph itself.  If some new function could NOT be spliced in (another class or object, a virtual, try blocks, lambdas) run()
# empties this table again and the inventory guard applies as usual.
_FOLLOWS = "reads the anchored functions with every function the rule tables have never seen spliced into its caller (view()): parameters bound, returns continued, destructors in place"
FOLLOWS_HELPERS = {}
TECHNIQUE = ('cursor-window abstract interpretation of the frame decoder with a symbolic peer length (wrap-aware: wide lengths only through subtraction-form tests); exact evaluation of the encoder (the header and '
             'masked-payload bytes the source denotes, for frame shapes around every threshold) against RFC 6455 and the decoder\'s tables; limit-test reachability for every network-fed buffer; must-lockset same-section '
             'rule for close-sent; dataflow of the validated/delivered message; exact predicate abstraction of the two reassembly functions (where the delivered opcode comes from) with a sibling table comparison; '
             'all of it over views of the anchored functions in which helpers the rule tables have never seen are spliced in')
WF = "iora::network::WebSocketFrame"
WS = "iora::network::WebSocketServer"
WC = "iora::network::WebSocketClient"
WFF, WSF, WCF = "iora/network/websocket_frame.hpp", "iora/network/websocket_server.hpp", "iora/network/websocket_client.hpp"
WSM = WS + "::_wsMutex"

EXPLANATION = (
    "Round-trip equality and reassembly under every segmentation quantify over all frames and cuts; decided statically are their structural "
    "necessary conditions. R1 frame decoder bounds: cursor-window abstract interpretation of WebSocketFrame::parse (cursor `pos`, limit "
    "data.size(), symbolic peer length payloadLen admitted only through the subtraction-form test `payloadLen > size - pos`): every byte "
    "read, big-endian read, memcpy, resize and advance is inside the bytes present, so a declared length up to 2^64-1 can neither wrap a "
    "position nor size an allocation beyond the input. R2 encoder and decoder tables agree: FIN/MASK/opcode/length masks, the 125/0xFFFF "
    "thresholds against the 126/127 codes, big-endian byte order of both extended lengths (BufferView::readU16BE/readU64BE index→shift "
    "maps against the encoder's push order), mask applied with i % 4 on both sides, consumed = pos. R3 every buffer that grows with "
    "network bytes (receive buffers, pre-upgrade buffer, fragment buffers) is tested against its limit on every path before the function "
    "returns, and the overflow reaction discards the state / ends the session. R4 no data frame after a close frame: on the server the "
    "closeSent test and the send are one _wsMutex section and every write of closeSent is under _wsMutex; the client's data senders test "
    "a close-sent flag that every CLOSE-emitting path sets. R5 protocol reactions: PING → PONG with the same payload, CLOSE echoed at "
    "most once, TEXT delivered only after isValidUtf8() on the reassembled message (the very bytes delivered), oversize → 1009, unknown "
    "opcode → 1002. R6 the parse loops consume exactly what parse() framed and put the remainder back in front of bytes that arrived "
    "meanwhile. R7 nothing on the data-callback path throws. R8 reassembly: in both handleDataFrame functions a message completed by a CONTINUATION frame "
    "while a fragmented message is in progress is delivered under the opcode recorded at its START frame (never the frame's own), a TEXT/BINARY frame under "
    "its own; `in progress` is never read off the emptiness of the reassembly buffer (empty start fragments are valid); server and client deliver for the "
    "same (opcode, FIN, in-progress) inputs under the same opcode and leave the same record. Roles (cursor, input view, buffers, frame parameter, flags) are "
    "derived from types and dataflow, not local names; calls to same-class functions that are not in the frozen inventory are spliced into the caller's CFG.")
NOT_DECIDED = ["reassembly equality for all fragmentations", "UTF-8 validator correctness against the Unicode tables", "incomplete vs protocol error are both nullopt (a malformed control frame parks the connection until the buffer cap)",
               "liveness of the peer after our close frame"]


def wf(ctx, name):
    fs = [f for f in ctx.fb().funcs(WF + "::" + name, WFF) if f.ok]
    if len(fs) != 1:
        raise AnalysisBroken("WebSocketFrame::%s: %d definitions" % (name, len(fs)))
    return view(ctx, fs[0])


def fnc(ctx, cls, name, file, nparams=None):
    fs = [f for f in ctx.fb().funcs(cls + "::" + name, file) if f.ok and (nparams is None or len(f.params) == nparams)]
    if len(fs) != 1:
        raise AnalysisBroken("%s::%s: %d definitions" % (short(cls), name, len(fs)))
    return view(ctx, fs[0])      # with the helpers the rule tables have never seen spliced in (the function itself when there are none)


def parse_roles(f):
    """(DATA, CUR, CONS): the names of parse()'s input view (the BufferView parameter), of its cursor (the local used as `DATA[cur++]`)
    and of its consumed out-parameter (the size_t& parameter) — derived from types and dataflow, so that a rename changes nothing"""
    dps = [p_ for p_ in f.params if "BufferView" in (p_.get("t") or "")]
    cps = [p_ for p_ in f.params if "&" in (p_.get("t") or "") and "long" in (p_.get("t") or "") and "const" not in (p_.get("t") or "")]
    if len(dps) != 1 or len(cps) != 1:
        raise AnalysisBroken("WebSocketFrame::parse: %d BufferView / %d size_t& parameters" % (len(dps), len(cps)))
    data = dps[0]["n"]
    curs = set()
    for x in f.nodes.values():
        if x.get("k") == "opcall" and x.get("op") == "[]" and key_of(x["args"][0]) == data:
            idx = strip_casts(x["args"][1])
            if idx.get("k") == "un" and "++" in idx.get("op", "") and strip_casts(idx["v"]).get("k") == "var":
                curs.add(strip_casts(idx["v"])["n"])
    if len(curs) != 1:
        raise AnalysisBroken("WebSocketFrame::parse: the cursor could not be identified (locals used as `%s[x++]`: %s)" % (data, sorted(curs)))
    return data, curs.pop(), cps[0]["n"]


def const_aliases(f):
    """{alias: source}: `const T a = (T)b;` with b a local/parameter of the same width that is not written after the declaration — a is
    another name for b (named locals are looked through, DESIGN 1.2)"""
    out = {}
    for e in f.stmts():
        if e.node.get("k") != "decl":
            continue
        for v in e.node["vars"]:
            i = strip_casts(v.get("init")) if v.get("init") is not None else None
            if i is None or i.get("k") != "var" or not (v.get("t") or "").startswith("const ") or "&" in (v.get("t") or ""):
                continue
            w = lambda t: 64 if "long" in t else 32 if "int" in t else 16 if "short" in t else 8 if "char" in t else 0
            if w(v["t"]) == 0 or w(v["t"]) < w(i.get("t") or ""):
                continue
            src_d = i.get("d")
            wr = lambda y: (is_assign(y.node) and strip_casts(_ap(y.node)[0]).get("k") == "var" and strip_casts(_ap(y.node)[0]).get("d") == src_d) or \
                (y.node.get("k") == "un" and ("++" in y.node.get("op", "") or "--" in y.node.get("op", "")) and strip_casts(y.node["v"]).get("k") == "var" and strip_casts(y.node["v"]).get("d") == src_d)
            if search(f, e, lambda y: y.kind == "stmt" and wr(y), eh=False) is None:
                out[v["n"]] = i["n"]
    # chains
    for a in list(out):
        seen = {a}
        while out[a] in out and out[a] not in seen:
            seen.add(out[a])
            out[a] = out[out[a]]
    return out


def r1(ctx, r):
    f = wf(ctx, "parse")
    DATA, CUR, CONS = parse_roles(f)
    SZ = DATA + ".size()"
    SIZES = {SZ}
    alias = const_aliases(f)
    canon = lambda fm: None if fm is None else form(fm[0], [alias.get(s_, s_) for s_ in fm[1]])
    L = lambda n: canon(lin(n))
    floor = 0
    for b in f.blocks.values():
        cp = common.cmp_parts(b.cond) if b.cond is not None else None
        if cp and show(strip_casts(cp[1])) == SZ and cp[0] == "<" and const_value(cp[2]) is not None:
            floor = max(floor, const_value(cp[2]))

    # lengths as wide as the cursor that come from the input: admitted only through the subtraction-form test
    wide = set()
    for e in f.stmts():
        a = asg(e.node)
        cands = []
        if a and key_of(a[0]):
            cands.append((strip_casts(a[0]), a[1]))
        if e.node.get("k") == "decl":
            cands += [({"n": v["n"], "t": v.get("t")}, v["init"]) for v in e.node["vars"] if v.get("init") is not None]
        for (lhs, rhs) in cands:
            if ("long" in (lhs.get("t") or "")) and any(t_ in show(rhs) for t_ in (DATA + ".read", DATA + "[")):
                wide.add(lhs["n"])

    # `const size_t available = size - pos; if (len > available)`: a snapshot of the window taken in the branching block with no cursor write
    # after it is the window itself — the condition is read with the local replaced by its initialiser
    from ..facts import _subst_vars
    snap = {}
    for b in f.blocks.values():
        if b.cond is None:
            continue
        tab = {}
        for e in b.elems:
            if e.kind != "stmt":
                continue
            n = e.node
            if n.get("k") == "decl":
                for v in n["vars"]:
                    i = strip_casts(v.get("init")) if v.get("init") is not None else None
                    if i is not None and (v.get("t") or "").startswith("const ") and i.get("k") == "bin" and i.get("op") == "-" and show(strip_casts(i["lhs"])) in SIZES and key_of(i["rhs"]) == CUR:
                        tab[v["d"]] = i
            elif (n.get("k") == "un" and key_of(n.get("v") or {}) == CUR and ("++" in n.get("op", "") or "--" in n.get("op", ""))) or (is_assign(n) and key_of(_ap(n)[0]) == CUR):
                tab = {}
        if tab and any(x.get("k") == "var" and x.get("d") in tab for x in walk(b.cond)):
            snap[id(b.cond)] = _subst_vars(b.cond, tab)

    def edge(c, truth):
        c = snap.get(id(c), c)

        def extra(x, t):
            cp = common.cmp_parts(strip_casts(x))
            if not cp:
                return None
            op, l, rr = cp
            if not t:
                op = {"<": ">=", ">=": "<", ">": "<=", "<=": ">", "==": "!=", "!=": "=="}[op]
            # X <= size - pos  (X a local length): avail >= X
            rs = strip_casts(rr)
            if op in ("<=", "<") and rs.get("k") == "bin" and rs.get("op") == "-" and show(strip_casts(rs["lhs"])) in SIZES and key_of(rs["rhs"]) == CUR and key_of(l):
                return [("atleast", form(1 if op == "<" else 0, (alias.get(key_of(l), key_of(l)),)))]
            ls = strip_casts(l)
            if op in (">=", ">") and ls.get("k") == "bin" and ls.get("op") == "-" and show(strip_casts(ls["lhs"])) in SIZES and key_of(ls["rhs"]) == CUR and key_of(rr):
                return [("atleast", form(1 if op == ">" else 0, (alias.get(key_of(rr), key_of(rr)),)))]
            return None
        return guard_ops(c, truth, CUR, SIZES, extra, canon, wide)

    kinds = set()

    def elem(e):
        if e.kind != "stmt":
            return None
        n = e.node
        k = n.get("k")
        ops = []
        if k == "decl":
            for v in n["vars"]:
                if v["n"] == CUR:
                    ops.append(("reset", form(floor) if const_value(strip_casts(v.get("init") or {})) == 0 else None))
                elif v["n"] not in alias:
                    ops.append(("kill", v["n"]))
        elif k == "un" and n.get("op") == "post++" and key_of(n["v"]) == CUR:
            ops.append(("adv", form(1), "%s[%s++]" % (DATA, CUR)))
            kinds.add("byte")
        elif k == "un" and n.get("op") in ("++", "pre++") and key_of(n["v"]) == CUR:
            ops.append(("adv", form(1), "++%s" % CUR))
        elif k == "bin" and n.get("op") == "+=" and key_of(n["lhs"]) == CUR:
            fm = L(n["rhs"])
            ops.append(("adv", fm, "%s += %s" % (CUR, show(n["rhs"]))) if fm is not None else ("need", TOP, "%s += %s" % (CUR, show(n["rhs"]))))
        elif k in ("bin", "opcall") and is_assign(n) and key_of(_ap(n)[0]) == CUR:
            ops.append(("need", TOP, "%s re-based" % CUR))
        elif k in ("bin", "opcall") and is_assign(n) and key_of(_ap(n)[0]):
            ops.append(("kill", key_of(_ap(n)[0])))
        elif k == "opcall" and n.get("op") == "[]" and key_of(n["args"][0]) == DATA:
            idx = strip_casts(n["args"][1])
            if not (idx.get("k") == "un" and idx.get("op") == "post++"):
                fm = L(idx)
                ops.append(("need", form(fm[0] + 1, [s for s in fm[1] if s != CUR]) if fm is not None and list(fm[1]).count(CUR) == 1 else TOP, "%s[%s]" % (DATA, show(idx))))
                kinds.add("byte")
        elif k == "mcall" and key_of(strip_views(n.get("obj"))) == DATA and last(n.get("callee", "")) in ("readU16BE", "readU16LE", "readU32BE", "readU32LE", "readU64BE", "readU64LE"):
            w = {"16": 2, "32": 4, "64": 8}[last(n["callee"])[5:7]]
            fm = L(n["args"][0])
            ops.append(("need", form(fm[0] + w, [s for s in fm[1] if s != CUR]) if fm is not None and list(fm[1]).count(CUR) == 1 else TOP, "%s.%s(%s)" % (DATA, last(n["callee"]), show(n["args"][0]))))
            kinds.add("u%d" % (8 * w))
        elif k == "call" and last(n.get("callee", "")) in ("memcpy", "memmove") and len(n["args"]) == 3:
            src = L(n["args"][1])
            ln = L(n["args"][2])
            if src is not None and DATA + ".data()" in src[1]:
                rest = form(src[0], [s for s in src[1] if s not in (CUR, DATA + ".data()")])
                ops.append(("need", form(rest[0] + ln[0], list(rest[1]) + list(ln[1])) if ln is not None and list(src[1]).count(CUR) == 1 else TOP, "memcpy(…, %s.data() + %s, %s)" % (DATA, CUR, show(n["args"][2]))))
                kinds.add("copy")
        elif k == "mcall" and last(n.get("callee", "")) in ("resize", "reserve", "assign") and field_of(n.get("obj") or {}) == WF + "::payload" and n.get("args"):
            ln = L(n["args"][0])
            ops.append(("need", ln if ln is not None else TOP, "payload.%s(%s) within the bytes present" % (last(n["callee"]), show(n["args"][0]))))
            kinds.add("alloc")
        return ops or None
    w = Window(f, edge, elem, init=None)
    nreq = len(w.checked) + len(w.violations)
    # the rule must see the header bytes, both extended lengths, the payload copy and its allocation (how many single reads there are
    # depends on spelling: four `data[pos++]` or one memcpy for the mask key)
    missing = {"byte", "u16", "u64", "copy", "alloc"} - kinds
    if missing or nreq < 8:
        raise AnalysisBroken("WebSocketFrame::parse: only %d reads/advances recognised, kinds missing: %s" % (nreq, sorted(missing)))
    r.instance(nreq)
    for (e, what) in w.checked:
        r.ok("parse: %s inside the input" % what)
    for (e, need, have, what) in w.violations:
        r.fail(f, e, "outside input: %s" % what.split(" within")[0], "WebSocketFrame::parse performs `%s`, which needs %s byte(s) after the cursor, but only %s known to be present on some path: a crafted header "
               "(e.g. a 64-bit length of 2^64-1) reads outside the buffer, wraps the position or sizes an allocation by a peer-chosen number (length_error/bad_alloc on the I/O thread)"
               % (what, show_form(need) if not is_top(need) else "a bound the analysis cannot establish", show_form(have)))
    # consumed = 0 before anything was parsed; on the success path consumed = the cursor behind the payload: either the cursor was advanced by
    # the copied length and consumed = cursor, or consumed = cursor + the copied length with no such advance
    cons = [e for e in f.stmts() if asg(e.node) and key_of(asg(e.node)[0]) == CONS]
    copies = [e for e in f.stmts() if e.node.get("k") == "call" and last(e.node.get("callee", "")) in ("memcpy", "memmove") and len(e.node["args"]) == 3 and field_of(strip_casts(e.node["args"][0]).get("obj") or {}) == WF + "::payload"]
    r.instance()
    okc = False
    if len(copies) == 1 and L(copies[0].node["args"][2]) is not None:
        plen = L(copies[0].node["args"][2])
        advs = [e for e in f.stmts() if e.node.get("k") == "bin" and e.node.get("op") == "+=" and key_of(e.node["lhs"]) == CUR and L(e.node["rhs"]) == plen]
        for e in cons:
            fm = L(asg(e.node)[1])
            if fm == form(0, (CUR,)) and len(advs) == 1 and elem_dominates(f, advs[0], e, eh=False):
                okc = True
            if fm == form(plen[0], list(plen[1]) + [CUR]) and not advs:
                okc = True
        okc = okc and any(const_value(strip_casts(asg(e.node)[1])) == 0 for e in cons)
    r.expect(okc, f, None, "consumed", "parse does not report consumed = the position behind the payload (and 0 before anything was parsed)", okdesc="consumed = 0 initially, = cursor behind the payload on success")
    # unmask loop index bounded by the payload size (payload.size(), or the very length the payload was resized to)
    allocs = [canon(lin(e.node["args"][0])) for e in f.stmts() if e.node.get("k") == "mcall" and last(e.node.get("callee", "")) == "resize" and field_of(e.node.get("obj") or {}) == WF + "::payload" and e.node.get("args")]

    def payload_bound(n):
        n = strip_casts(n)
        return (n.get("k") == "mcall" and last(n.get("callee", "")) == "size" and field_of(n.get("obj") or {}) == WF + "::payload") or (L(n) is not None and L(n) in allocs and L(n)[1])
    loopb = [b for b in f.blocks.values() if b.cond is not None and b.term.get("k") in ("ForStmt", "WhileStmt") and common.cmp_parts(b.cond) and common.cmp_parts(b.cond)[0] == "<" and payload_bound(common.cmp_parts(b.cond)[2])]
    r.instance()
    r.expect(len(loopb) == 1, f, None, "unmask loop", "the unmask loop is not bounded by payload.size()", okdesc="unmask loop i < payload.size()")


def be_map(f):
    """{byte index offset: shift} of a big-endian read"""
    out = {}
    rets = common.returns(f)
    if len(rets) != 1:
        return None
    for x in walk(rets[0].node):
        if x.get("k") == "bin" and x.get("op") == "<<":
            idx = [y for y in walk(x["lhs"]) if y.get("k") == "idx" or (y.get("k") == "opcall" and y.get("op") == "[]")]
            sh = const_value(strip_casts(x["rhs"]))
            if len(idx) == 1 and sh is not None:
                ie = idx[0].get("i") or idx[0].get("index") or (idx[0].get("args") or [None, None])[1]
                fm = lin(ie) if ie is not None else None
                if fm is not None:
                    out[fm[0]] = sh
    # the unshifted last byte
    for x in walk(rets[0].node):
        if x.get("k") == "idx" or (x.get("k") == "opcall" and x.get("op") == "[]"):
            ie = x.get("i") or x.get("index") or (x.get("args") or [None, None])[1]
            fm = lin(ie) if ie is not None else None
            if fm is not None and fm[0] not in out:
                out[fm[0]] = 0
    return out


def consts_in(n):
    return [const_value(x) for x in walk(n) if x.get("k") in ("int", "char") and const_value(x) is not None]


class EncoderRun:
    """Exact evaluation (A10, constant folding lifted to whole paths) of WebSocketFrame::serialize for ONE concrete frame shape: the CFG of the
    current source is walked with integer locals held as values (finite.compile_expr gives every expression its C++ width semantics), branch
    conditions are evaluated, and the bytes appended to the returned vector are collected — header bytes as integers, mask-key and payload bytes
    as symbols ('key', j) / ('pay', i) / ('xor', a, b).  Nothing of the program is executed; a statement outside this fragment makes the run refuse
    (NotPure).  What is decided is the byte sequence the source denotes, whatever the spelling (`byte1 |= 126` or `push_back(maskBit | 126)`,
    `i = 7…0, >> i*8` or `shift = 56…0 step 8`, four push_backs of the key or one insert, xor while appending or in place afterwards)."""

    def __init__(self, f, fin, mask, opc, n, header_only):
        from ..finite import compile_expr, NotPure
        self.f, self.N, self.NotPure, self.compile = f, n, NotPure, compile_expr
        bps = [p_ for p_ in f.params if (p_.get("t") or "") in ("bool", "const bool")]
        if len(bps) != 1:
            raise AnalysisBroken("WebSocketFrame::serialize: %d bool parameters" % len(bps))
        self.special = {"mask_d": bps[0]["d"], "fin": int(fin), "mask": int(mask), "opc": opc}
        self.env, self.types, self.out, self.outvars, self.cache = {}, {}, [], set(), {}
        self.header_only = header_only
        self.spliced = set(f.raw.get("_spliced") or [])
        self.done = False
        self._walk()

    # ---- expressions
    def subst(self, n):
        def tf(x):
            k = x.get("k")
            if k == "member" and (x.get("b") or {}).get("k") == "this":
                if x.get("n") == WF + "::opcode":
                    return {"k": "int", "cv": self.special["opc"], "t": "unsigned char"}
                if x.get("n") == WF + "::fin":
                    return {"k": "int", "cv": self.special["fin"], "t": "int"}
            if k == "var" and x.get("parm") is not None and x.get("d") == self.special["mask_d"]:
                return {"k": "int", "cv": self.special["mask"], "t": "int"}
            if k == "mcall" and last(x.get("callee", "")) == "size" and not x.get("args") and field_of(x.get("obj") or {}) == WF + "::payload" and access_this(x.get("obj")):
                return {"k": "int", "cv": self.N, "t": "unsigned long"}
            if k == "mcall" and last(x.get("callee", "")) == "size" and not x.get("args") and self.is_out(x.get("obj")) and not self.header_only:
                return {"k": "int", "cv": len(self.out), "t": "unsigned long"}
            return None
        return _copy_tree(n, tf)

    def ev(self, n):
        n2 = self.subst(n)
        names = sorted({x["n"] for x in walk(n2) if x.get("k") == "var"})
        for nm in names:
            if nm not in self.env:
                raise self.NotPure("`%s` has no known value" % nm)
        fn_ = self.compile(n2, names)[0]
        return fn_(*[self.env[nm] for nm in names])

    def ev_as(self, n, t):
        return self.ev({"k": "cast", "t": t, "v": n})

    def key_idx(self, n):
        n = strip_casts(n)
        b, i = (n.get("b"), n.get("i")) if n.get("k") == "idx" else ((n.get("args") or [None, None])[0], (n.get("args") or [None, None])[1]) if n.get("k") == "opcall" and n.get("op") == "[]" else (None, None)
        if b is not None and field_of(b) in (WF + "::maskKey", WF + "::payload") and access_this(b):
            return ("key" if field_of(b) == WF + "::maskKey" else "pay", self.ev(i))
        return None

    def sym(self, n):
        n = strip_casts(n)
        kx = self.key_idx(n)
        if kx is not None:
            return kx
        if n.get("k") == "bin" and n.get("op") == "^":
            a, b = self.sym(n["lhs"]), self.sym(n["rhs"])
            return ("xor",) + tuple(sorted([a, b], key=lambda t_: t_[0] != "pay"))
        raise self.NotPure("byte expression `%s`" % show(n)[:40])

    def emit(self, item):
        if not isinstance(item, int) and self.header_only:
            self.done = True
            return
        self.out.append(item)

    def is_out(self, n):
        n = strip_casts(n)
        return n is not None and n.get("k") == "var" and n.get("d") in self.outvars

    # ---- statements
    def exec_root(self, n):
        k = n.get("k")
        if k == "decl":
            for v in n["vars"]:
                t = (v.get("t") or "").replace("const ", "")
                if t.startswith("std::vector<unsigned char"):
                    self.outvars.add(v["d"])
                    continue
                self.types[v["n"]] = t
                self.env.pop(v["n"], None)
                if v.get("init") is not None:
                    try:
                        self.env[v["n"]] = self.ev_as(v["init"], t)
                    except self.NotPure:
                        pass
            return
        if k == "ret":
            if not self.is_out(strip_views(n.get("v"))):
                raise self.NotPure("returns something other than the output vector")
            self.done = True
            return
        if is_assign(n):
            lhs, op, rhs = _ap(n)
            l = strip_casts(lhs)
            if l.get("k") == "var" and l["n"] in self.types:
                val = rhs if op == "=" else {"k": "bin", "op": op[:-1], "lhs": lhs, "rhs": rhs}
                self.env[l["n"]] = self.ev_as(val, self.types[l["n"]])
                return
            # in-place masking: (out.data() + S)[i] ^= key[j]   /   out[S + i] ^= key[j]
            base, idx = (l.get("b"), l.get("i")) if l.get("k") == "idx" else ((l.get("args") or [None, None])[0], (l.get("args") or [None, None])[1]) if l.get("k") == "opcall" and l.get("op") == "[]" else (None, None)
            if base is not None and op == "^=":
                b = strip_casts(base)
                off = 0
                if b.get("k") == "bin" and b.get("op") == "+":
                    off, b = self.ev(b["rhs"]), strip_casts(b["lhs"])
                if (b.get("k") == "mcall" and last(b.get("callee", "")) == "data" and self.is_out(b.get("obj"))) or self.is_out(b):
                    pos = off + self.ev(idx)
                    if not 0 <= pos < len(self.out):
                        raise self.NotPure("in-place xor outside the bytes written")
                    self.out[pos] = ("xor",) + tuple(sorted([self.out[pos] if not isinstance(self.out[pos], int) else ("int", self.out[pos]), self.sym(rhs)], key=lambda t_: t_[0] != "pay"))
                    return
            raise self.NotPure("assignment to `%s`" % show(lhs)[:40])
        if k == "un" and ("++" in n.get("op", "") or "--" in n.get("op", "")):
            v = strip_casts(n["v"])
            if v.get("k") == "var" and v["n"] in self.env:
                self.env[v["n"]] = self.ev_as({"k": "bin", "op": "+" if "++" in n["op"] else "-", "lhs": v, "rhs": {"k": "int", "cv": 1}}, self.types[v["n"]])
                return
            raise self.NotPure("increment of `%s`" % show(v)[:30])
        if k == "mcall" and self.is_out(n.get("obj")):
            m = last(n.get("callee", ""))
            args = [a for a in n.get("args", []) if not a.get("def")]
            if m in ("reserve", "shrink_to_fit"):
                return
            if m in ("push_back", "emplace_back") and len(args) == 1:
                try:
                    self.emit(self.ev(args[0]) & 0xFF)
                except self.NotPure:
                    if self.header_only:
                        self.done = True
                        return
                    self.emit(self.sym(args[0]))
                return
            if m == "insert" and len(args) == 3:
                at, a, b = strip_iter(args[0]), strip_iter(args[1]), strip_iter(args[2])
                if not (at.get("k") == "mcall" and last(at.get("callee", "")) == "end" and self.is_out(at.get("obj"))):
                    raise self.NotPure("insert not at end()")
                if self.header_only:
                    self.done = True
                    return
                if a.get("k") == "mcall" and last(a["callee"]) == "begin" and b.get("k") == "mcall" and last(b["callee"]) == "end" and field_of(a.get("obj")) == WF + "::payload" and field_of(b.get("obj")) == WF + "::payload":
                    for i in range(self.N):
                        self.emit(("pay", i))
                    return
                if field_of(a) == WF + "::maskKey" and strip_casts(b).get("k") == "bin" and strip_casts(b).get("op") == "+" and field_of(strip_casts(b)["lhs"]) == WF + "::maskKey":
                    for j in range(self.ev(strip_casts(b)["rhs"])):
                        self.emit(("key", j))
                    return
            raise self.NotPure("`%s` on the output vector" % m)
        if k in ("call", "mcall") and n.get("id") in self.spliced:
            return        # the callee's body is part of this view
        if k in ("call", "mcall", "opcall", "ctor", "new", "throw"):
            raise self.NotPure("`%s`" % show(n)[:40])
        # anything else at statement level is a pure expression (a condition fragment)

    def _walk(self):
        f = self.f
        bid, steps = f.entry, 0
        while not self.done and bid != f.exit:
            steps += 1
            if steps > 4000:
                raise self.NotPure("no end within 4000 blocks")
            b = f.blocks[bid]
            for e in b.elems:
                if e.kind == "stmt" and "root" in e.raw:
                    self.exec_root(e.node)
                    if self.done:
                        return
            nxt = [s_ for s_ in b.succs if s_ is not None]
            if b.cond is not None and len(b.succs) == 2 and b.edge_label(0) is True:
                bid = b.succs[0] if self.ev(b.cond) else b.succs[1]
            elif len(nxt) == 1:
                bid = nxt[0]
            else:
                raise self.NotPure("block B%d: %d successors, no evaluable condition" % (bid, len(nxt)))
            if bid is None:
                raise self.NotPure("pruned edge taken")


def access_this(n):
    """the expression names a member of *this (not of another frame)"""
    from ..expr import access_path
    p_ = access_path(n)
    return bool(p_) and p_[0] == "this"


def header_bytes(f, DATA, CUR):
    """names of the locals that receive the successive header bytes `DATA[CUR++]`, in reading order"""
    ds = [(e, v["n"]) for e in f.stmts() if e.node.get("k") == "decl" for v in e.node["vars"] if v.get("init") is not None and strip_casts(v["init"]).get("k") == "opcall" and strip_casts(v["init"]).get("op") == "[]" and
          key_of(strip_casts(v["init"])["args"][0]) == DATA and strip_casts(strip_casts(v["init"])["args"][1]).get("k") == "un" and key_of(strip_casts(strip_casts(v["init"])["args"][1])["v"]) == CUR]
    allds = list(ds)
    ds = sorted(allds, key=lambda x: sum(1 for y in allds if y is not x and elem_dominates(f, y[0], x[0], eh=False)))
    return [n_ for (_e, n_) in ds]


def r2(ctx, r):
    fb = ctx.fb()
    p, s = wf(ctx, "parse"), wf(ctx, "serialize")
    DATA, CUR, _CONS = parse_roles(p)
    hb = header_bytes(p, DATA, CUR)
    if len(hb) < 2:
        raise AnalysisBroken("WebSocketFrame::parse: the two header bytes are not read into locals (`x = %s[%s++]` found %d times)" % (DATA, CUR, len(hb)))
    B0, B1 = hb[0], hb[1]
    # decoder masks
    dec = {}
    for e in p.stmts():
        n = e.node
        for x in walk(n):
            if x.get("k") == "bin" and x.get("op") == "&" and key_of(x["lhs"]) in (B0, B1) and const_value(strip_casts(x["rhs"])) is not None:
                dec.setdefault(key_of(x["lhs"]), set()).add(const_value(strip_casts(x["rhs"])))
    r.instance()
    r.expect(dec.get(B0, set()) >= {0x80, 0x0F} and dec.get(B1) == {0x80, 0x7F}, p, None, "decoder bit masks", "parse extracts FIN/opcode/MASK/length with masks %s (expected byte0 & 0x80, & 0x0F; byte1 & 0x80, & 0x7F)"
             % {("byte0" if k == B0 else "byte1"): sorted(hex(v) for v in vs) for k, vs in dec.items()}, okdesc="decoder masks: FIN 0x80, opcode 0x0F, MASK 0x80, length 0x7F")
    # the length variable: the local the 7-bit length (second header byte & 0x7F) is stored in
    lens = {key_of(a_[0]) for a_ in ([asg(e.node) for e in p.stmts() if asg(e.node)] + [({"k": "var", "n": v["n"]}, v["init"]) for e in p.stmts() if e.node.get("k") == "decl" for v in e.node["vars"] if v.get("init") is not None])
            if any(x.get("k") == "bin" and x.get("op") == "&" and key_of(x["lhs"]) == B1 and const_value(strip_casts(x["rhs"])) == 0x7F for x in walk(a_[1]))}
    lens.discard(None)
    if len(lens) != 1:
        raise AnalysisBroken("WebSocketFrame::parse: the local holding the 7-bit length could not be identified (%s)" % sorted(lens))
    LEN = lens.pop()
    codes = {}
    for b in p.blocks.values():
        cp = common.cmp_parts(b.cond) if b.cond is not None else None
        if cp and cp[0] == "==" and key_of(cp[1]) == LEN and const_value(cp[2]) is not None:
            arm = _reach_until_ret(p, b.succs[0])[:12]
            rd = [last(x.node["callee"]) for x in arm if x.kind == "stmt" and x.node.get("k") == "mcall" and last(x.node.get("callee", "")).startswith("readU") and asg(p.nodes.get(p.parent.get(x.node["id"])) or {}) and key_of(asg(p.nodes[p.parent[x.node["id"]]])[0]) == LEN]
            adv = [const_value(strip_casts(x.node["rhs"])) for x in arm if x.kind == "stmt" and x.node.get("k") == "bin" and x.node.get("op") == "+=" and key_of(x.node["lhs"]) == CUR]
            codes[const_value(cp[2])] = (rd[0] if rd else None, adv[0] if adv else None)
    r.instance()
    r.expect(codes == {126: ("readU16BE", 2), 127: ("readU64BE", 8)}, p, None, "decoder length codes", "parse maps the length codes to %s (RFC 6455: 126 → 16-bit big-endian, 127 → 64-bit big-endian)" % codes, okdesc="126 → readU16BE(+2), 127 → readU64BE(+8)")
    # big-endian readers
    for nm, width in (("readU16BE", 2), ("readU64BE", 8)):
        g = [x for x in fb.funcs("iora::core::BufferView::" + nm) if x.ok]
        r.instance()
        m = be_map(g[0]) if len(g) == 1 else None
        want = {k: 8 * (width - 1 - k) for k in range(width)}
        r.expect(m == want, g[0] if g else WF, None, "byte order: %s" % nm, "BufferView::%s combines bytes as %s (big-endian is %s)" % (nm, m, want), okdesc="%s is big-endian" % nm)
    # ---- encoder: exact evaluation of the bytes serialize() denotes, for frame shapes around every threshold
    from ..finite import NotPure

    def header(fin, mask, opc, n):
        return [(0x80 if fin else 0) | opc, (0x80 if mask else 0) | (n if n <= 125 else 126 if n <= 0xFFFF else 127)] + ([] if n <= 125 else list(n.to_bytes(2, "big")) if n <= 0xFFFF else list(n.to_bytes(8, "big")))
    bad = {"encoder thresholds": None, "64-bit length code": None, "16-bit length byte order": None, "64-bit length byte order": None, "encoder bit masks": None}
    try:
        for n in (0, 1, 125, 126, 127, 0x0102, 0xFFFF, 0x10000, 0x0102030405060708):
            for fin in (0, 1):
                for mask in (0, 1):
                    for opc in (0x1, 0xA):
                        got, want = EncoderRun(s, fin, mask, opc, n, True).out, header(fin, mask, opc, n)
                        if got == want:
                            continue
                        what = "payload of %d bytes, fin=%d, mask=%d, opcode=%d: header bytes %s, RFC 6455 requires %s" % (n, fin, mask, opc, [hex(x) for x in got[:12]], [hex(x) for x in want])
                        if len(got) < 2 or got[0] != want[0] or (got[1] & 0x80) != (want[1] & 0x80):
                            key = "encoder bit masks"
                        elif (got[1] & 0x7F) != (want[1] & 0x7F):
                            key = "64-bit length code" if (want[1] & 0x7F) == 127 and (got[1] & 0x7F) not in (126,) and len(got) == len(want) else "encoder thresholds"
                        else:
                            key = "16-bit length byte order" if len(want) == 4 else "64-bit length byte order" if len(want) == 10 else "encoder thresholds"
                        if bad[key] is None:
                            bad[key] = what
    except NotPure as ex:
        raise AnalysisBroken("WebSocketFrame::serialize: the header cannot be evaluated exactly (%s)" % ex)
    msgs = {"encoder thresholds": "serialize chooses the wrong length form", "64-bit length code": "serialize does not use code 127 for the 64-bit form", "16-bit length byte order": "the 16-bit extended length is not written most-significant byte first",
            "64-bit length byte order": "the 64-bit extended length is not written as eight bytes from shift 56 down to 0", "encoder bit masks": "serialize does not set FIN as 0x80 of byte 0 / MASK as 0x80 of byte 1 / the opcode in the low nibble"}
    for key in bad:
        r.instance()
        r.expect(bad[key] is None, s, None, key, "%s — %s: a frame this endpoint serialises does not parse back to an equal frame" % (msgs[key], bad[key]), okdesc="encoder header exact for 9 sizes × fin × mask × 2 opcodes: %s" % key)
    # opcode fits the low nibble
    en = fb.enums.get("iora::network::WsOpcode")
    r.instance()
    r.expect(en is not None and all(0 <= v["v"] <= 0x0F for v in en["values"]), WF, None, "opcode range", "a WsOpcode enumerator does not fit the 4-bit opcode field", okdesc="all opcodes <= 0x0F")
    # masking, decoder: maskKey[i % 4] applied to payload byte i
    mk = [y for x in p.stmts() for y in walk(x.node) if y.get("k") in ("idx", "opcall") and "maskKey[" in show(y) and "%" in show(y)]
    r.instance()
    r.expect(bool(mk) and all("% 4" in show(y) for y in mk), p, None, "mask index (decoder)", "the decoder does not apply the mask key with index i % 4", okdesc="decoder: maskKey[i % 4]")
    # masking, encoder: key bytes 0..3 follow the header, then payload byte i xor key byte i % 4 (exact evaluation of a 6-byte frame); unmasked: payload as is
    try:
        got = EncoderRun(s, 1, 1, 2, 6, False).out[2:]
        plain = EncoderRun(s, 1, 0, 2, 6, False).out[2:]
    except NotPure as ex:
        raise AnalysisBroken("WebSocketFrame::serialize: the masked payload cannot be evaluated exactly (%s)" % ex)
    r.instance()
    r.expect(got[4:] == [("xor", ("pay", i), ("key", i % 4)) for i in range(6)] and plain == [("pay", i) for i in range(6)], s, None, "mask index (encoder)", "the encoder does not write payload byte i xor mask-key byte i %% 4 (a masked 6-byte frame is written as %s; unmasked as %s)"
             % (got[4:], plain), okdesc="encoder: payload[i] ^ maskKey[i % 4]; unmasked payload verbatim")
    r.instance()
    r.expect(got[:4] == [("key", j) for j in range(4)], s, None, "mask key order (encoder)", "the encoder handles the mask key bytes in order %s" % [x[1] if isinstance(x, tuple) and x[0] == "key" else x for x in got[:4]], okdesc="encoder: key bytes 0,1,2,3")
    # key bytes read in the order 0..3: four single reads in that order, or one copy of 4 bytes from the cursor into maskKey
    ks = [const_value(strip_casts(y.get("i") or (y.get("args") or [None, None])[1])) for x in sorted(p.stmts(), key=lambda e: (e.line, e.idx)) if "root" in x.raw and asg(x.node) for y in [strip_casts(asg(x.node)[0])]
          if (y.get("k") == "idx" or (y.get("k") == "opcall" and y.get("op") == "[]")) and field_of(y.get("b") or (y.get("args") or [None])[0]) == WF + "::maskKey" and const_value(strip_casts(y.get("i") or (y.get("args") or [None, None])[1])) is not None]
    cp4 = [x for x in p.stmts() if x.node.get("k") == "call" and last(x.node.get("callee", "")) in ("memcpy", "memmove") and len(x.node["args"]) == 3 and field_of(x.node["args"][0]) == WF + "::maskKey" and
           show(strip_casts(x.node["args"][1])) == "%s.data() + %s" % (DATA, CUR) and const_value(x.node["args"][2]) == 4]
    r.instance()
    r.expect(ks == [0, 1, 2, 3] or (not ks and len(cp4) == 1), p, None, "mask key order (decoder)", "the decoder handles the mask key bytes in order %s" % ks, okdesc="decoder: key bytes 0,1,2,3")


def grow_sites(f, fields):
    """elements that grow/assign one of the buffers, given as qualified field names; reference locals bound to the field count as the field"""
    out = []
    for e in f.stmts():
        n = e.node
        if n.get("k") == "mcall" and last(n.get("callee", "")) in ("insert", "append", "push_back", "emplace_back", "resize") and alias_field(f, n.get("obj")) in fields:
            out.append(e)
        a = asg(n)
        if a and alias_field(f, a[0]) in fields and show(strip_views(a[1])) not in ("", ):
            rhs = strip_wrappers(strip_casts(a[1]))
            # assignments that shrink/replace with something bounded elsewhere are not growth: clear/move-out are separate calls
            if not (rhs.get("k") == "ctor" and not [x for x in rhs.get("args", []) if not x.get("def")]):
                out.append(e)
    return out


def shown(f, n, depth=0):
    """show(n) followed by the initialisers of the const locals it reads (`const size_t limit = _options.maxFrameSize; if (x > limit)` reads the
    configured maximum just as `if (x > _options.maxFrameSize)` does) — for rules that recognise a quantity by the declaration it comes from"""
    out = show(n)
    if depth < 2:
        for x in walk(n):
            if x.get("k") == "var" and x.get("parm") is None:
                _e, v = _decl_of(f, x.get("d"))
                if v is not None and (v.get("t") or "").startswith("const ") and v.get("init") is not None:
                    out += " «" + shown(f, v["init"], depth + 1) + "»"
    return out


def limit_blocks(f, limit_words):
    """blocks of the limit test: the comparison against the configured maximum and the other conjuncts on the same quantity"""
    core = [b for b in f.blocks.values() if b.cond is not None and common.cmp_parts(b.cond) and common.cmp_parts(b.cond)[0] in (">", ">=") and any(w in shown(f, b.cond) for w in limit_words)]
    qty = set()
    for b in core:
        for x in walk(common.cmp_parts(b.cond)[1]):
            if x.get("k") == "var":
                qty.add(x["n"])
    more = [b for b in f.blocks.values() if b.cond is not None and b not in core and common.cmp_parts(b.cond) and any(x.get("k") == "var" and x["n"] in qty for x in walk(b.cond))]
    # a bool local assigned from a limit comparison, tested later
    flags = set()
    for e in f.stmts():
        cands = []
        if e.node.get("k") == "decl":
            cands = [(v["n"], v["init"]) for v in e.node["vars"] if v.get("init") is not None]
        a = asg(e.node)
        if a and key_of(a[0]):
            cands.append((key_of(a[0]), a[1]))
        for (nme, rhs) in cands:
            if any(common.cmp_parts(x) and common.cmp_parts(x)[0] in (">", ">=") and any(w in shown(f, x) for w in limit_words) for x in walk(rhs)):
                flags.add(nme)
    fl = [b for b in f.blocks.values() if b.cond is not None and b not in core and b not in more and any(x.get("k") == "var" and x["n"] in flags for x in walk(b.cond))]
    return core + more + fl


def r3(ctx, r):
    specs = [
        # (function, buffers, what counts as the limit, label)
        (fnc(ctx, WS, "onUpgradedData", WSF), (WS + "::WsSessionState::buffer",), ("_maxFrameSize",), "server receive buffer"),
        (fnc(ctx, WS, "handleDataFrame", WSF), (WS + "::WsSessionState::fragmentBuffer",), ("_maxFrameSize",), "server fragment buffer"),
        (fnc(ctx, WC, "handleData", WCF), (WC + "::_buffer",), ("maxFrameSize", "kMax", "Max"), "client receive buffer"),
        (fnc(ctx, WC, "handleDataFrame", WCF), (WC + "::_fragmentBuffer",), ("maxFrameSize",), "client fragment buffer"),
    ]
    for (f, names, words, label) in specs:
        grows = grow_sites(f, names)
        lims = limit_blocks(f, words)
        if not grows:
            raise AnalysisBroken("%s: no growth site of %s found" % (last(f.name), names))
        for e in grows:
            r.instance()
            # transient: appended, moved out to a local and cleared inside the same block (critical section) — nothing persists
            objt = alias_field(f, e.node.get("obj") or (asg(e.node) or [{}])[0] or {})
            if e.node.get("k") == "mcall" and any(x.kind == "stmt" and x.node.get("k") == "mcall" and last(x.node.get("callee", "")) == "clear" and alias_field(f, x.node.get("obj") or {}) == objt for x in e.block.elems[e.idx + 1:]):
                r.ok("%s: `%s` is moved out and cleared in the same critical section" % (last(f.name), show(e.node)[:40]))
                continue
            # a growth of persistent state must be followed by a limit test before the function returns normally,
            # unless the element itself lies behind a limit test that already covers the new size
            w = search(f, e, "exit", stop=lambda x: any(x.block is b for b in lims), eh=False)
            behind = bool(lims) and search(f, ("entry",), lambda x, e=e: x is e, stop=lambda x: any(x.block is b for b in lims), eh=False) is None
            r.expect(w is None or behind, f, e, "unbounded buffer: %s" % label, "%s grows the %s (`%s`) and can return without the accumulated size having been compared with the configured maximum: a peer that keeps sending "
                     "(an endless header, endless CONTINUATION frames, a frame that never completes) makes the endpoint buffer without bound" % (short(f.name), label, show(e.node)[:60]), witness=witness_str(f, w),
                     okdesc="%s: `%s` followed by a limit test" % (last(f.name), show(e.node)[:40]))
    # the receive-buffer bound is applied to the UNPARSED REMAINDER (one incomplete frame), never to bytes that may still contain
    # complete frames: the compared quantity is `size - offset` taken after the parse loop
    for (f, label) in ((fnc(ctx, WS, "onUpgradedData", WSF), "server"), (fnc(ctx, WC, "handleData", WCF), "client")):
        pl = ParseLoop(f, label)
        ps = [pl.ps]
        cmps = []
        for e in f.stmts():
            if "root" not in e.raw:
                continue
            for x in walk(e.node):
                cp = common.cmp_parts(x)
                if cp and cp[0] in (">", ">=") and any(w_ in show(cp[2]) for w_ in ("_maxFrameSize", "maxFrameSize")) and "Upgrade" not in show(x):
                    cmps.append((e, x))
        for b_ in f.blocks.values():
            if b_.cond is not None:
                for x in walk(b_.cond):
                    cp = common.cmp_parts(x)
                    if cp and cp[0] in (">", ">=") and any(w_ in show(cp[2]) for w_ in ("_maxFrameSize", "maxFrameSize")) and "Upgrade" not in show(x) and not any(x is y for _, y in cmps):
                        cmps.append((b_.elems[-1] if b_.elems else None, x))
        r.instance()
        if not ps or not cmps:
            raise AnalysisBroken("%s: parse call / frame-size limit comparison not found" % last(f.name))
        ok, why, where = True, "", None
        for (e, x) in cmps:
            lhs = common.cmp_parts(x)[1]
            q = [y["n"] for y in walk(lhs) if y.get("k") == "var"]
            direct = [y for y in walk(lhs) if y.get("k") == "mcall" and last(y.get("callee", "")) == "size"]
            if direct:
                ok, why, where = False, "it compares `%s` — the size of the whole buffer" % show(lhs)[:50], e
                break
            qd = [(d, v) for d in f.stmts() if d.node.get("k") == "decl" for v in d.node["vars"] if q and v["n"] == q[0]]
            if len(qd) != 1 or qd[0][1].get("init") is None:
                raise AnalysisBroken("%s: the quantity compared with the frame-size limit (`%s`) is not a single initialised local" % (last(f.name), show(lhs)[:40]))
            i = strip_casts(qd[0][1]["init"])
            if pl.L is None:
                raise AnalysisBroken("%s: the parse loop's buffer and offset could not be identified from the parse() call" % last(f.name))
            if not (i.get("k") == "bin" and i.get("op") == "-" and show(strip_casts(i["lhs"])) == "%s.size()" % pl.L and strip_casts(i["rhs"]).get("k") == "var" and strip_casts(i["rhs"])["d"] == pl.off_d):
                ok, why, where = False, "`%s` is `%s`, not the size of the unparsed remainder (size() - offset)" % (q[0], show(i)[:50]), e
                break
            if search(f, qd[0][0], lambda y: y is ps[0], eh=False) is not None:
                ok, why, where = False, "`%s` is computed before the parse loop has consumed the complete frames" % q[0], e
                break
        r.expect(ok, f, where, "%s oversize bound on parsed bytes" % label, "%s compares the frame-size limit with a quantity that can include complete frames (%s): a valid stream whose frames "
                 "arrive coalesced in one read is closed with 1009 although every frame is within the limit — delivery depends on how the stream was cut into reads" % (last(f.name), why),
                 okdesc="%s: limit applied to the unparsed remainder after parsing" % label)
    # per-session state is released when the transport reports the connection closed (no CLOSE frame needed)
    fb = ctx.fb()
    HSrv, HSFile = "iora::network::HttpServer", "iora/network/http_server.hpp"
    starts = [g for g in fb.funcs(HSrv + "::start", HSFile) if g.ok]
    hook_calls, lam_fn = [], None
    for g in starts:
        for (ln, lf) in g.lambdas:
            par = g.nodes.get(g.parent.get(ln.get("id")))
            hops = 0
            while par is not None and par.get("k") not in ("mcall", "call") and hops < 6:
                par = g.nodes.get(g.parent.get(par.get("id")))
                hops += 1
            if par is not None and par.get("k") == "mcall" and last(par.get("callee", "")) == "onClose" and "Transport" in par.get("callee", "") and lf.ok:
                lam_fn = lf
                hook_calls = [e for e in lf.stmts() if e.node.get("k") == "mcall" and e.node.get("virt") and (e.node.get("callee") or "").startswith(HSrv + "::")]
    r.instance()
    if lam_fn is None:
        raise AnalysisBroken("HttpServer::start: transport onClose callback not found")
    overrides = [g for g in fb.methods_of(WS) if g.ok and hook_calls and last(g.name) == last(hook_calls[0].node["callee"])]
    known_r3 = _known_functions()
    okh = len(hook_calls) == 1 and len(overrides) == 1
    if okh:
        la = ctx.locks()
        ov = view(ctx, overrides[0])
        er = [e for e in ov.stmts() if e.node.get("k") == "mcall" and last(e.node.get("callee", "")) == "erase" and field_of(strip_casts(e.node.get("obj"))) == WS + "::_sessions"]
        okh = len(er) == 1 and la.holds(ov, er[0], WSM) and not la.mutexes(lam_fn, hook_calls[0])
    if not okh and known_r3 is not None:
        unk = sorted({e.node["callee"] for e in lam_fn.stmts() if e.node.get("k") in ("call", "mcall") and e.node.get("callee") and e.node["callee"] not in known_r3 and
                      any("/include/iora/" in g.file or "/src/" in g.file for g in fb.by_name.get(e.node["callee"], []))})
        if unk:
            raise AnalysisBroken("HttpServer::start: the transport onClose callback now runs through %s, which this rule does not follow" % ", ".join(short(u) for u in unk))
    r.expect(okh, lam_fn, hook_calls[0] if hook_calls else None, "session state kept after the connection closed", "when the transport reports an upgraded connection closed, nothing tells WebSocketServer: its per-session state "
             "(receive and fragment buffers, up to maxFrameSize each) stays forever and the application never sees onClose — a peer that connects, sends most of a large frame and drops the connection grows server memory without bound",
             okdesc="transport close → virtual hook (no lock held) → WebSocketServer erases _sessions[sid] under _wsMutex")
    # the overflow reaction ends the session / discards the state
    for (f, label) in ((fnc(ctx, WS, "handleDataFrame", WSF), "server fragment buffer"), (fnc(ctx, WC, "handleDataFrame", WCF), "client fragment buffer")):
        # the overflow flag is the bool local whose truth leads to the 1009 close (derived from the reaction, not named)
        flags = []
        react = [e for e in f.stmts() if e.node.get("k") == "mcall" and 1009 in [const_value(strip_casts(a)) for a in e.node.get("args", [])]]
        for b in f.blocks.values():
            c, st_, sf_ = common.branch(b) if b.cond is not None else (None, None, None)
            if c is not None and c.get("k") == "var" and "bool" in (c.get("t") or "") and st_ is not None and st_ != sf_ and c["n"] not in flags and \
                    any(dominated_by_edge(f, e, b, b.succs.index(st_), eh=False) for e in react):
                flags.append(c["n"])
        flag = flags[0] if len(flags) == 1 else None
        r.instance()
        if len(flags) > 1:
            raise AnalysisBroken("%s: %d bool locals lead to the 1009 close (%s)" % (last(f.name), len(flags), flags))
        term = [e for e in f.stmts() if (e.node.get("k") == "mcall" and last(e.node.get("callee", "")) in ("closeSession", "disconnect", "erase", "clear") and
                                         (last(e.node.get("callee", "")) in ("closeSession", "disconnect") or "_sessions" in show(e.node.get("obj") or {}) or "ragmentBuffer" in show(e.node.get("obj") or {})))]
        if not flags:
            # no flag: the reaction sits on the `limit exceeded` edge itself — every way from that edge to the exit ends the session
            core = [b for b in f.blocks.values() if b.cond is not None and common.cmp_parts(b.cond) and common.cmp_parts(b.cond)[0] in (">", ">=") and "axFrameSize" in shown(f, b.cond) and
                    b.edge_label(0) is True and b.succs[0] is not None]
            enders = [e for e in term if last(e.node.get("callee", "")) in ("closeSession", "disconnect")]
            okr = bool(core) and bool(react) and all(search(f, ("block", b.succs[0]), "exit", stop=lambda x: x in enders, eh=False) is None for b in core)
            r.expect(okr, f, react[0] if react else None, "overflow reaction: %s" % label, "after the %s exceeded its limit %s can return without ending the session (closeSession/disconnect)%s: the buffer is kept and "
                     "every further CONTINUATION frame grows it again — unbounded buffering for a peer that ignores the 1009 close" % (label, short(f.name), "" if core and react else " — no limit comparison / 1009 reaction found"),
                     okdesc="%s overflow → session ended (on the limit-exceeded edge)" % label)
            continue
        vocab = Vocab(["big", "done"])

        def leaf(n, flag=flag):
            if n.get("k") == "var" and n["n"] == flag:
                return A("big")
            return None

        def effects(e, flag=flag, term=term):
            if e in term and last(e.node.get("callee", "")) in ("closeSession", "disconnect"):
                return [("set", "done", True)]
            if e.kind != "stmt":
                return None
            a = asg(e.node)
            if a and key_of(a[0]) == flag:
                cv = const_value(strip_casts(a[1]))
                return [("set", "big", bool(cv))] if cv is not None else [("havoc", "big")]
            if e.node.get("k") == "decl":
                for v in e.node["vars"]:
                    if v["n"] == flag:
                        return [("set", "big", bool(const_value(strip_casts(v.get("init") or {}))))]
            return None
        pa = PredAbs(f, vocab, leaf, effects, init=Not(A("done")), eh=False)
        r.expect(pa.exit_entails(Or(Not(A("big")), A("done"))), f, None, "overflow reaction: %s" % label, "after the %s exceeded its limit %s returns without ending the session (closeSession/disconnect): the buffer is kept and "
                 "every further CONTINUATION frame grows it again — unbounded buffering for a peer that ignores the 1009 close" % (label, short(f.name)), okdesc="%s overflow → session ended" % label)


def r4(ctx, r):
    fb, la = ctx.fb(), ctx.locks()
    common.guarded_by(r, fb, la, WS + "::WsSessionState::closeSent", WSM, files=[WSF])
    common.guarded_by(r, fb, la, WS + "::_sessions", WSM, files=[WSF])
    r.floor(12, "guarded access sites")
    for nm in ("sendText", "sendBinary", "sendPing"):
        f = fnc(ctx, WS, nm, WSF)
        tests = [b for b in f.blocks.values() if b.cond is not None and "closeSent" in show(b.cond)]
        sends = [e for e in f.stmts() if e.node.get("k") == "mcall" and last(e.node.get("callee", "")) in ("sendRaw", "sendRawForSse", "sendAsync")]
        r.instance()
        ok = len(sends) == 1 and len(tests) >= 1
        if ok:
            te = tests[-1].elems[-1] if tests[-1].elems else None
            ok = te is not None and la.holds(f, sends[0], WSM) and la.holds(f, te, WSM) and search(f, te, lambda x: x is sends[0], stop=lambda x: not la.holds(f, x, WSM), eh=False) is not None and \
                search(f, te, lambda x: x is sends[0], eh=False, edge_ok=lambda b, si: True) is not None
            # no path from the test to the send leaves the critical section
            ok = ok and all(la.holds(f, x, WSM) for x in f.stmts() if search(f, te, lambda y, x=x: y is x, eh=False) is not None and search(f, x, lambda y: y is sends[0], eh=False) is not None)
            # the send is behind the `!closeSent` edge
            ok = ok and dominated_by_edge(f, sends[0], tests[-1], 1, eh=False)
        r.expect(ok, f, sends[0] if sends else None, "closeSent test and send not atomic: %s" % nm, "WebSocketServer::%s does not test closeSent and hand the frame to the transport inside one _wsMutex critical section: a CLOSE sent by another "
                 "thread between the test and the send is followed by this data frame on the wire" % nm, okdesc="%s: closeSent test + sendRaw in one _wsMutex section" % nm)
    # inbound CLOSE echo: flag set and echo sent in one section, guarded by !closeSent
    hf = fnc(ctx, WS, "handleFrame", WSF)
    sets = [e for e in hf.stmts() if asg(e.node) and show(strip_casts(asg(e.node)[0])).endswith("closeSent") and const_value(strip_casts(asg(e.node)[1])) == 1]
    r.instance()
    ok = len(sets) == 1
    if ok:
        gate = [b for b in hf.blocks.values() if b.cond is not None and "closeSent" in show(b.cond)]
        snd = [e for e in hf.stmts() if e.node.get("k") == "mcall" and last(e.node.get("callee", "")) == "sendRaw" and search(hf, sets[0], lambda x, e=e: x is e, stop=lambda x: not la.holds(hf, x, WSM), eh=False) is not None]
        ok = len(gate) == 1 and len(snd) == 1
        if ok:
            gc, gst, gsf = common.branch(gate[0])
            if gc is not None and gc.get("k") != "bin" and gsf is not None and gst != gsf:
                # a plain test of the flag: the set + send sit on its `not yet sent` side
                ok = dominated_by_edge(hf, sets[0], gate[0], gate[0].succs.index(gsf), eh=False)
            else:
                ok = dominated_by_edge(hf, sets[0], gate[0], 0, eh=False) and any(x.get("k") == "un" and x.get("op") == "!" and "closeSent" in show(x["v"]) for x in walk(gate[0].cond))
    r.expect(ok, hf, sets[0] if sets else None, "close echo", "the inbound-CLOSE echo does not set closeSent and send the echo inside one _wsMutex section guarded by !closeSent (a second CLOSE would be echoed again / a data frame could slip in between)",
             okdesc="CLOSE echo: !closeSent → set + send, one section")
    sc = fnc(ctx, WS, "sendClose", WSF)
    st = [e for e in sc.stmts() if asg(e.node) and show(strip_casts(asg(e.node)[0])).endswith("closeSent")]
    snd = [e for e in sc.stmts() if e.node.get("k") == "mcall" and last(e.node.get("callee", "")) == "sendRaw"]
    r.instance()
    r.expect(len(st) == 1 and len(snd) == 1 and la.holds(sc, st[0], WSM) and search(sc, snd[0], lambda x: x is st[0], eh=False) is None and search(sc, st[0], lambda x: x is snd[0], eh=False) is not None, sc, None, "sendClose order",
             "sendClose hands the CLOSE frame to the transport before closeSent is set under _wsMutex", okdesc="sendClose: flag set (under _wsMutex) before the CLOSE is sent")
    # client: every CLOSE-emitting path sets a close-sent flag that the data senders test
    closers = []
    known_ = _known_functions() or set()
    cg_ = ctx.cg()
    for f in fb.in_file(WCF):
        if not f.ok or not f.name.startswith(WC + "::"):
            continue
        if known_ and f.name not in known_ and f.kind != "lambda" and cg_.callers.get(f.name):
            continue        # a helper the rule tables have never seen: judged as part of each caller (view() splices it in)
        f = view(ctx, f)
        for e in f.stmts():
            if e.node.get("k") in ("call", "mcall") and last(e.node.get("callee", "")) == "makeClose":
                closers.append((f, e))
    if not closers:
        raise AnalysisBroken("WebSocketClient: no CLOSE-emitting site found")
    rec = fb.record(WC)
    flags = [x["n"] for x in (rec.get("fields") if rec else []) if "lose" in x["n"] and ("ent" in x["n"] or "ending" in x["n"]) and "choed" not in x["n"]]
    la_c = ctx.locks()

    def gate_of(f, depth=0):
        """(function, test block, send elem) where a close-sent flag is tested and the frame handed to the transport"""
        tb = [b for b in f.blocks.values() if b.cond is not None and any(fl in show(b.cond) for fl in flags)]
        snd = [e for e in f.stmts() if e.node.get("k") == "mcall" and last(e.node.get("callee", "")) in ("sendRawBytes", "sendAsync")]
        if tb and snd:
            return f, tb[-1], snd[0]
        if depth < 2:
            for e in f.stmts():
                c = e.node.get("callee") or ""
                if e.node.get("k") == "mcall" and c.startswith(WC + "::") and last(c) not in ("sendRawBytes",):
                    for g in fb.funcs(c, WCF):
                        if g.ok:
                            got = gate_of(g, depth + 1)
                            if got:
                                return got
        return None
    for nm in ("sendText", "sendBinary", "sendPing"):
        f = fnc(ctx, WC, nm, WCF)
        r.instance()
        got = gate_of(f) if flags else None
        ok = got is not None
        if ok:
            g, tb, snd = got
            mus = la_c.mutexes(g, snd)
            te = tb.elems[-1] if tb.elems else None
            ok = bool(mus) and te is not None and any(la_c.holds(g, te, m) and la_c.holds(g, snd, m) for m in mus) and (dominated_by_edge(g, snd, tb, 1, eh=False) or dominated_by_edge(g, snd, tb, 0, eh=False))
            # every direct hand-off in the sender itself goes through the gate
            direct = [e for e in f.stmts() if e.node.get("k") == "mcall" and last(e.node.get("callee", "")) in ("sendRawBytes", "sendAsync")] if g is not f else []
            ok = ok and not direct
        r.expect(ok, f, None, "client data frame after close: %s" % nm, "WebSocketClient::%s does not hand its frame to the transport inside a critical section that first tests a close-sent flag set by every CLOSE-emitting path "
                 "(flags found: %s): `c.sendClose(); c.%s(…)` puts a data frame on the wire after the CLOSE frame" % (nm, flags or "none", nm), okdesc="client %s: flag test + hand-off in one critical section" % nm)
    for (f, e) in closers:
        r.instance()
        sets = [x for x in f.stmts() if (asg(x.node) and any(fl in show(asg(x.node)[0]) for fl in flags)) or
                (x.node.get("k") == "mcall" and last(x.node.get("callee", "")) in ("store", "exchange") and any(fl in show(x.node.get("obj") or {}) for fl in flags))]
        snds = [x for x in f.stmts() if x.node.get("k") == "mcall" and last(x.node.get("callee", "")) in ("sendRawBytes", "sendAsync")]
        ok = bool(flags) and bool(sets) and bool(snds)
        if ok:
            ok = False
            for st in sets:
                for sd in snds:
                    ms = set(la_c.mutexes(f, st)) & set(la_c.mutexes(f, sd))
                    if ms and (search(f, st, lambda x, sd=sd: x is sd, stop=lambda x, m=list(ms)[0]: not la_c.holds(f, x, m), eh=False) is not None or
                               search(f, sd, lambda x, st=st: x is st, stop=lambda x, m=list(ms)[0]: not la_c.holds(f, x, m), eh=False) is not None):
                        ok = True
        r.expect(ok, f, e, "client CLOSE not recorded: %s" % last(f.name), "WebSocketClient::%s emits a CLOSE frame without setting the close-sent flag in the same critical section as the hand-off to the transport "
                 "(a data sender can pass its test between the two)" % last(f.name), okdesc="client %s: flag set + CLOSE hand-off in one critical section" % last(f.name))


def frame_param(f):
    """name of the function's WebSocketFrame parameter (the frame being handled) — derived from its type"""
    ps = [p_ for p_ in f.params if "WebSocketFrame" in (p_.get("t") or "")]
    if len(ps) != 1:
        raise AnalysisBroken("%s: %d WebSocketFrame parameters" % (short(f.name), len(ps)))
    return ps[0]["n"]


def delivered_source(f, cbname):
    """variable the delivered text is built from: `std::string text(X.begin(), X.end()); cb(…, text)`"""
    for e in f.stmts():
        n = e.node
        if n.get("k") == "opcall" and n.get("op") == "()" and cbname in show(n["args"][0]):
            arg = strip_views(n["args"][-1])
            if arg.get("k") == "var":
                for d in f.stmts():
                    if d.node.get("k") == "decl":
                        for v in d.node["vars"]:
                            if v["n"] == arg["n"] and v.get("init") is not None:
                                src = [x["n"] for x in walk(v["init"]) if x.get("k") == "var"]
                                if src:
                                    return e, src[0]
                return e, arg["n"]
    return None, None


def r5(ctx, r):
    for cls, file, label in ((WS, WSF, "server"), (WC, WCF, "client")):
        hf = fnc(ctx, cls, "handleFrame", file)
        sw = [b for b in hf.blocks.values() if b.term and b.term.get("k") == "SwitchStmt"]
        if len(sw) > 1:
            raise AnalysisBroken("%s handleFrame: %d switches" % (label, len(sw)))
        arms = {}
        if not sw:
            # the dispatch written as an if-chain over the frame's opcode (or a const local holding it): the arm of an enumerator is what is
            # reachable from the edge on which `opcode == E` holds (the false edge of `opcode != E`), up to the next return
            fpn = frame_param(hf)

            def is_opc(n):
                n = strip_casts(n)
                if n is None:
                    return False
                if n.get("k") == "var" and n.get("parm") is None:
                    _e, v = _decl_of(hf, n.get("d"))
                    return v is not None and (v.get("t") or "").startswith("const ") and v.get("init") is not None and is_opc(v["init"])
                return n.get("k") == "member" and n.get("n") == WF + "::opcode" and show(strip_casts(n.get("b"))) == fpn
            chain = []
            for b in hf.blocks.values():
                if b.cond is None or len(b.succs) != 2 or b.edge_label(0) is not True:
                    continue
                for (op, l, rr) in common.cmp_both(strip_casts(b.cond)):
                    e_ = strip_casts(rr)
                    if op in ("==", "!=") and is_opc(l) and e_ is not None and e_.get("k") == "enum" and e_["n"].startswith(OPC + "::"):
                        chain.append((b, last(e_["n"]), op))
                        break
            if not chain:
                raise AnalysisBroken("%s handleFrame: neither a switch nor an if-chain over the frame's opcode" % label)
            for (b, en, op) in chain:
                side = b.succs[0] if op == "==" else b.succs[1]
                if side is not None:
                    arms.setdefault(en, [])
                    arms[en] += [x for x in _reach_until_ret(hf, side) if x not in arms[en]]
            # no enumerator matches: follow only the non-matching edges
            seen, work, dflt = set(), [hf.entry], []
            cb = {b.id: (b.succs[1] if op == "==" else b.succs[0]) for (b, en, op) in chain}
            while work:
                bid = work.pop()
                if bid is None or bid in seen:
                    continue
                seen.add(bid)
                dflt += hf.blocks[bid].elems
                work += [cb[bid]] if bid in cb else list(hf.blocks[bid].succs)
            arms["default"] = dflt
            firsts = [b for (b, en, op) in chain if not any(o is not b and o.id in dominators(hf, False)[b.id] for (o, _en, _op) in chain)]
            sw = [firsts[0] if firsts else chain[0][0]]
        sw = sw[0]
        for si in range(len(sw.succs) if sw.term and sw.term.get("k") == "SwitchStmt" else 0):
            lab = sw.edge_label(si)
            if lab == "default":
                arms["default"] = arm_elems(hf, sw, si)[0]
            elif lab:
                for x in walk(lab[1]):
                    if x.get("k") == "enum":
                        arms[last(x["n"])] = arm_elems(hf, sw, si)[0]
        # the default arm is pruned from the CFG when every enumerator has a case (the value is still a raw cast of four bits)
        if "default" not in arms:
            for b in hf.blocks.values():
                if b.label and b.label.get("k") == "default":
                    arms["default"] = _reach_until_ret(hf, b.id)
        # fall-through labels
        for b in hf.blocks.values():
            for lb in (b.raw.get("labels") or []):
                if lb and lb.get("k") == "case" and lb.get("v"):
                    for x in walk(lb["v"]):
                        if x.get("k") == "enum" and last(x["n"]) not in arms:
                            arms[last(x["n"])] = _reach_until_ret(hf, b.id)
        # every frame reaches the opcode dispatch: 'control frames between fragments handled without disturbing reassembly, pings
        # answered' — nothing in front of the switch may turn a frame away because a fragmented message is in progress
        r.instance()
        wby = search(hf, ("entry",), "exit", stop=lambda x, sw=sw: x.block is sw, eh=False)
        if wby is not None:
            inits = {}
            for e in hf.stmts():
                if e.node.get("k") == "decl":
                    for dv in e.node["vars"]:
                        if dv.get("init") is not None:
                            inits.setdefault(dv["d"], []).append(dv["init"])
                a = asg(e.node) if e.kind == "stmt" else None
                if a and strip_casts(a[0]).get("k") == "var":
                    inits.setdefault(strip_casts(a[0]).get("d"), []).append(a[1])

            def frag_state(c, depth=0):
                for x in walk(c):
                    if x.get("k") == "member" and "ragment" in x["n"]:
                        return True
                    if x.get("k") == "var" and x.get("d") in inits and depth < 3 and any(frag_state(i, depth + 1) for i in inits[x["d"]]):
                        return True
                return False
            pre = [b for b in hf.blocks.values() if b.cond is not None and search(hf, ("block", b.id), lambda x, sw=sw: x.block is sw, eh=False) is not None and not (b is sw)]
            if any(frag_state(b.cond) for b in pre):
                r.fail(hf, None, "%s: frame turned away by fragment state" % label, "%s handleFrame can return before the opcode dispatch on a condition over the fragment-reassembly state (%s): a PING / PONG / CLOSE "
                       "arriving between the fragments of a message is not processed — no PONG is sent, the message in progress is lost or the connection is dropped" % (label, witness_str(hf, wby)))
            else:
                raise AnalysisBroken("%s handleFrame: a path bypasses the opcode switch on a condition this rule does not know (%s)" % (label, witness_str(hf, wby)))
        else:
            r.ok("%s: every frame reaches the opcode dispatch" % label)
        ping = arms.get("PING", [])
        mk = [e for e in ping if e.kind == "stmt" and e.node.get("k") in ("call", "mcall") and last(e.node.get("callee", "")) == "makePong"]
        snd = [e for e in ping if e.kind == "stmt" and e.node.get("k") == "mcall" and last(e.node.get("callee", "")) in ("sendRaw", "sendRawBytes")]
        r.instance()
        fp = frame_param(hf)
        r.expect(len(mk) == 1 and len(snd) == 1 and show(strip_views(mk[0].node["args"][0])) == fp + ".payload" and strip_casts(strip_views(mk[0].node["args"][0])["b"]).get("parm") is not None, hf, mk[0] if mk else None, "%s ping reaction" % label, "the %s does not answer a PING with a PONG carrying frame.payload" % label,
                 okdesc="%s: PING → PONG(frame.payload)" % label)
        if label == "client":
            r.instance()
            r.expect(any(e.kind == "stmt" and e.node.get("k") == "mcall" and last(e.node.get("callee", "")) == "serialize" and const_value(strip_casts(e.node["args"][0])) == 1 for e in ping), hf, None, "client pong unmasked", "the client's PONG is not masked",
                     okdesc="client PONG masked")
        # data opcodes reach handleDataFrame
        for op in ("TEXT", "BINARY", "CONTINUATION"):
            r.instance()
            r.expect(any(e.kind == "stmt" and e.node.get("k") == "mcall" and last(e.node.get("callee", "")) == "handleDataFrame" for e in arms.get(op, [])), hf, None, "%s %s dispatch" % (label, op), "the %s does not hand %s frames to handleDataFrame" % (label, op),
                     okdesc="%s: %s → handleDataFrame" % (label, op))
        # close echoed at most once
        cl = arms.get("CLOSE", [])
        echo = [e for e in cl if e.kind == "stmt" and e.node.get("k") in ("call", "mcall") and last(e.node.get("callee", "")) in ("makeClose", "sendClose")]
        r.instance()
        ok = len(echo) == 1
        if ok:
            facts = " ".join(show(c) + ("=T" if t else "=F") for c, t in dominating_facts(hf, echo[0]))
            ok = "closeSent=F" in facts.replace("!it->second.closeSent=T", "closeSent=F") or "_closeEchoed.exchange(true)" in facts or "!it->second.closeSent" in facts
        r.expect(ok, hf, echo[0] if echo else None, "%s close echo" % label, "the %s echoes an inbound CLOSE without a once-only guard" % label, okdesc="%s: CLOSE echoed once" % label)
        if label == "server":
            df = arms.get("default", [])
            r.instance()
            r.expect(any(e.kind == "stmt" and e.node.get("k") == "mcall" and last(e.node.get("callee", "")) == "sendClose" and const_value(strip_casts(e.node["args"][1])) == 1002 for e in df), hf, None, "unknown opcode", "an unknown opcode does not lead to close 1002",
                     okdesc="unknown opcode → 1002")
        # text is validated as UTF-8 on the reassembled message before delivery
        hd = fnc(ctx, cls, "handleDataFrame", file)
        cb, src = delivered_source(hd, "_onTextMessage")
        val = [e for e in hd.stmts() if e.node.get("k") in ("mcall", "call") and last(e.node.get("callee", "")) == "isValidUtf8"]
        r.instance()
        ok, why = False, "no isValidUtf8() call"
        if cb is not None and len(val) == 1:
            recv = strip_casts(val[0].node.get("obj")) if val[0].node.get("k") == "mcall" else None
            if recv is None:
                # the range form isValidUtf8(P.data(), P.size()): the validated bytes are those of the local P
                a_ = [strip_casts(x) for x in val[0].node.get("args", []) if not x.get("def")]
                why = "the validated range is `%s`" % ", ".join(show(x) for x in a_)
                ok = len(a_) == 2 and a_[0].get("k") == "mcall" and last(a_[0]["callee"]) == "data" and a_[1].get("k") == "mcall" and last(a_[1]["callee"]) == "size" and \
                    all(strip_casts(x.get("obj")).get("k") == "var" and strip_casts(x["obj"])["n"] == src and strip_casts(x["obj"]).get("parm") is None for x in a_)
                recv = {}
            else:
                why = "the validated object is `%s`" % show(recv)
            if recv.get("k") == "var":
                pdefs = [asg(x.node)[1] for x in hd.stmts() if asg(x.node) and show(strip_casts(asg(x.node)[0])) == recv["n"] + ".payload"]
                # either the validated frame holds a copy of the delivered local, or the delivered bytes are the validated frame's own payload
                # (filled from something other than the frame just received)
                ok = len(pdefs) == 1 and recv.get("parm") is None and (key_of(strip_views(pdefs[0])) == src or (recv["n"] == src and not any(x.get("k") == "var" and x.get("parm") is not None for x in walk(pdefs[0]))))
                why = "the validated frame `%s` %s" % (recv["n"], "is the frame just received (the last fragment), not the reassembled message `%s`" % src if recv.get("parm") is not None else "does not hold the reassembled message `%s`" % src)
            if ok:
                vb = val[0].block
                c, vst, vsf = common.branch(vb) if vb.cond is not None else (None, None, None)
                ok = c is not None and c is val[0].node and vst is not None and vst != vsf and dominated_by_edge(hd, cb, vb, vb.succs.index(vst), eh=False)
                why = "the callback is not behind the validation"
        r.expect(ok, hd, val[0] if val else cb, "%s text not validated" % label, "the %s delivers TEXT messages to the application without isValidUtf8() having accepted the reassembled message (%s): delivery then depends on where the sender "
                 "cut the fragments (a character split across fragments is rejected; invalid bytes in an earlier fragment are delivered)" % (label, why), okdesc="%s: isValidUtf8(reassembled message) before onTextMessage" % label)
        # oversize reaction
        big = [e for e in hd.stmts() if e.node.get("k") == "mcall" and last(e.node.get("callee", "")) in ("sendClose", "disconnect") and 1009 in [const_value(strip_casts(a)) for a in e.node.get("args", [])]]
        r.instance()
        r.expect(len(big) >= 1, hd, None, "%s oversize reaction" % label, "an oversize message does not lead to close 1009 in the %s" % label, okdesc="%s: oversize → 1009" % label)
        # fragments are joined in order: start assigns, continuation appends at the end
        names = ("fragmentBuffer", "_fragmentBuffer")
        fpd = frame_param(hd) + ".payload"
        st = [e for e in hd.stmts() if asg(e.node) and show(strip_casts(asg(e.node)[0])).endswith(names) and show(strip_views(asg(e.node)[1])) == fpd]
        ap = [e for e in hd.stmts() if e.node.get("k") == "mcall" and last(e.node.get("callee", "")) == "insert" and show(strip_casts(e.node.get("obj"))).endswith(names)]
        r.instance()
        ok = len(st) == 1 and len(ap) == 1 and ".end()" in show(ap[0].node["args"][0]) and any(x in show(ap[0].node["args"][0]) for x in names) and fpd + ".begin()" in show(ap[0].node["args"][1]) and fpd + ".end()" in show(ap[0].node["args"][2])
        r.expect(ok, hd, ap[0] if ap else None, "%s fragment order" % label, "fragments are not joined as start = payload, continuation appended at end()", okdesc="%s: start assigns, continuation appends at end()" % label)


def _decl_of(f, d):
    for e in f.stmts():
        if e.node.get("k") == "decl":
            for v in e.node["vars"]:
                if v["d"] == d:
                    return e, v
    return None, None


def strip_iter(n):
    """strip_views plus the iterator → const_iterator conversion libstdc++ inserts around `v.end()` handed to insert()"""
    while True:
        n = strip_views(n)
        if n is not None and n.get("k") == "ctor" and "__normal_iterator" in (n.get("cls") or "") and len([a for a in n.get("args", []) if not a.get("def")]) == 1:
            n = [a for a in n["args"] if not a.get("def")][0]
            continue
        return n


def alias_field(f, n, depth=0):
    """qualified field an expression names, looking through reference locals (`auto& buf = it->second.buffer; buf.insert(…)`)"""
    n = strip_wrappers(strip_casts(n)) if n is not None else None
    if n is None:
        return None
    if n.get("k") == "var" and depth < 3:
        _e, v = _decl_of(f, n.get("d"))
        if v is not None and "&" in (v.get("t") or "") and v.get("init") is not None:
            return alias_field(f, v["init"], depth + 1)
        return None
    return field_of(n)


class ParseLoop:
    """The roles in a receive function's parse loop, identified by dataflow from the one WebSocketFrame::parse call — not by local names:
    `cons` is the variable handed to parse() as its out-parameter, the view handed to it is {L.data() + off, L.size() - off} which names the
    local buffer L and the offset `off`, `frame` is the variable that receives parse()'s result, `field` is the member L was filled from."""

    def __init__(self, f, label):
        self.f = f
        ps = [e for e in f.stmts() if e.node.get("k") in ("call", "mcall") and last(e.node.get("callee", "")) == "parse" and "WebSocketFrame" in e.node.get("callee", "")]
        if len(ps) != 1 or len(ps[0].node.get("args", [])) != 2:
            raise AnalysisBroken("%s: %d calls of WebSocketFrame::parse" % (last(f.name), len(ps)))
        self.ps = ps[0]
        c = strip_views(self.ps.node["args"][1])
        if c is None or c.get("k") != "var":
            raise AnalysisBroken("%s: parse()'s consumed argument is not a local" % last(f.name))
        self.cons, self.cons_d = c["n"], c["d"]
        v = strip_views(self.ps.node["args"][0])
        if v is not None and v.get("k") == "var":
            _e, dv = _decl_of(f, v["d"])
            v = strip_casts(dv["init"]) if dv is not None and dv.get("init") is not None else None
        args = [a for a in ((v or {}).get("args") or (v or {}).get("vals") or []) if not a.get("def")]
        self.L = self.off = None
        if len(args) == 2:
            a0, a1 = strip_casts(args[0]), strip_casts(args[1])
            if a0.get("k") == "bin" and a0.get("op") == "+" and a1.get("k") == "bin" and a1.get("op") == "-":
                p0, o0, p1, o1 = strip_casts(a0["lhs"]), strip_casts(a0["rhs"]), strip_casts(a1["lhs"]), strip_casts(a1["rhs"])
                if p0.get("k") == "mcall" and last(p0["callee"]) == "data" and p1.get("k") == "mcall" and last(p1["callee"]) == "size" and o0.get("k") == "var" and o1.get("k") == "var" and o0["d"] == o1["d"] and \
                        strip_casts(p0["obj"]).get("k") == "var" and strip_casts(p1["obj"]).get("k") == "var" and strip_casts(p0["obj"])["d"] == strip_casts(p1["obj"])["d"]:
                    self.L, self.L_d, self.off, self.off_d = strip_casts(p0["obj"])["n"], strip_casts(p0["obj"])["d"], o0["n"], o0["d"]
        # the variable that receives the parsed frame
        self.frame = self.frame_d = None
        par = f.nodes.get(f.parent.get(self.ps.node["id"]))
        while par is not None and par.get("k") == "cast":
            par = f.nodes.get(f.parent.get(par["id"]))
        for e in f.stmts():
            if e.node.get("k") == "decl":
                for dv in e.node["vars"]:
                    if dv.get("init") is not None and strip_views(dv["init"]) is self.ps.node:
                        self.frame, self.frame_d = dv["n"], dv["d"]
        if self.frame is None and par is not None and asg(par) and strip_casts(asg(par)[0]).get("k") == "var":
            self.frame, self.frame_d = strip_casts(asg(par)[0])["n"], strip_casts(asg(par)[0])["d"]
        # the member the local buffer was filled from
        self.field = None
        if self.L is not None:
            srcs = set()
            for e in f.stmts():
                a = asg(e.node)
                if a and strip_casts(a[0]).get("k") == "var" and strip_casts(a[0])["d"] == self.L_d:
                    rv = strip_views(a[1])
                    # `L = std::exchange(member, {})` takes the member's content like `L = std::move(member); member.clear()`
                    if rv is not None and rv.get("k") == "call" and rv.get("callee") == "std::exchange" and rv.get("args"):
                        rv = rv["args"][0]
                    srcs.add(alias_field(f, rv))
                if e.node.get("k") == "mcall" and last(e.node.get("callee", "")) == "swap" and e.node.get("args"):
                    o_, a_ = strip_casts(e.node["obj"]), strip_casts(e.node["args"][0])
                    for x, y in ((o_, a_), (a_, o_)):
                        if x.get("k") == "var" and x.get("d") == self.L_d:
                            srcs.add(alias_field(f, y))
            _e, dv = _decl_of(f, self.L_d)
            if dv is not None and dv.get("init") is not None and alias_field(f, strip_views(dv["init"])):
                srcs.add(alias_field(f, strip_views(dv["init"])))
            srcs.discard(None)
            if len(srcs) == 1:
                self.field = srcs.pop()


def r6(ctx, r):
    for cls, file, fnm, label in ((WS, WSF, "onUpgradedData", "server"), (WC, WCF, "handleData", "client")):
        f = fnc(ctx, cls, fnm, file)
        pl = ParseLoop(f, label)
        if pl.L is None or pl.frame is None or pl.field is None:
            raise AnalysisBroken("%s: the parse loop's buffer / offset / frame variable / source member could not be identified from the parse() call (view {L.data() + off, L.size() - off})" % last(f.name))
        ps = [pl.ps]
        adv = [e for e in f.stmts() if e.node.get("k") == "bin" and e.node.get("op") == "+=" and strip_casts(e.node["lhs"]).get("k") == "var" and strip_casts(e.node["lhs"])["d"] == pl.off_d]
        r.instance()
        ok = len(adv) == 1 and strip_casts(adv[0].node["rhs"]).get("k") == "var" and strip_casts(adv[0].node["rhs"])["d"] == pl.cons_d and elem_dominates(f, ps[0], adv[0], eh=False)
        if ok:
            # consumed is reset for every call and nothing else writes offset
            others = [e for e in f.stmts() if (asg(e.node) and strip_casts(asg(e.node)[0]).get("k") == "var" and strip_casts(asg(e.node)[0])["d"] == pl.off_d) or
                      (e.node.get("k") == "un" and strip_casts(e.node.get("v") or {}).get("k") == "var" and strip_casts(e.node["v"])["d"] == pl.off_d and ("++" in e.node.get("op", "") or "--" in e.node.get("op", "")))]
            ok = not others
            # loop exits when parse returns nullopt
            def is_frame_test(c):
                c = strip_casts(c) if c is not None else None
                while c is not None and c.get("k") == "mcall" and last(c.get("callee", "")) in ("has_value", "operator bool"):
                    c = strip_casts(c.get("obj"))
                return c is not None and c.get("k") == "var" and c.get("d") == pl.frame_d
            fb_ = [b for b in f.blocks.values() if b.cond is not None and is_frame_test(common.branch(b)[0])]
            # (the side on which there is no frame never comes back to parse)
            ok = ok and len(fb_) == 1 and common.branch(fb_[0])[2] is not None
            if ok and search(f, ("block", common.branch(fb_[0])[2]), lambda x: x is ps[0], eh=False) is not None:
                # structurally the no-frame side returns to the loop head (`needMore = true;` with `while (!needMore && …)` for `break`): decide
                # with the bool locals as predicates whether parse() can be reached again once it has returned nullopt
                bl = {v["d"]: "b:%s" % v["n"] for e in f.stmts() if e.node.get("k") == "decl" for v in e.node["vars"] if (v.get("t") or "").replace("const ", "").strip() == "bool"}
                if len(bl) > 10:
                    raise AnalysisBroken("%s: %d bool locals — too many to decide whether the loop ends on nullopt" % (last(f.name), len(bl)))
                vocab = Vocab(["hf"] + sorted(set(bl.values())))

                def leaf(n):
                    if n.get("k") == "var" and n.get("d") in bl:
                        return A(bl[n["d"]])
                    return A("hf") if is_frame_test(n) else None

                def effects(e):
                    if e is ps[0]:
                        return [("havoc", "hf")]
                    if e.kind != "stmt":
                        return None
                    cands = [(v["d"], v.get("init")) for v in e.node["vars"]] if e.node.get("k") == "decl" else []
                    if is_assign(e.node) and strip_casts(_ap(e.node)[0]).get("k") == "var":
                        cands.append((strip_casts(_ap(e.node)[0])["d"], _ap(e.node)[2] if _ap(e.node)[1] == "=" else None))
                    ops = []
                    for d_, rhs in cands:
                        if d_ in bl:
                            cv = const_value(strip_casts(rhs)) if rhs is not None and strip_casts(rhs).get("k") in ("bool", "int") else None
                            ops.append(("set", bl[d_], bool(cv)) if cv is not None else ("havoc", bl[d_]))
                    return ops or None
                pa = PredAbs(f, vocab, leaf, effects, init=A("hf"), eh=False)
                ok = pa.entails(ps[0], A("hf"))
        r.expect(ok, f, adv[0] if adv else None, "%s consumption" % label, "the %s parse loop does not advance by exactly the `consumed` of the same parse() call over the view [offset, end), leaving on nullopt" % label,
                 okdesc="%s: view = [offset, end); offset += consumed; nullopt → leave" % label)
        # remainder put back in front of bytes that arrived meanwhile: the member ends up as L[off, end) ++ (what it holds now).  Two spellings:
        # (A) a temporary built from [L.begin() + off, L.end()), the member's content appended at its end(), the temporary moved into the member;
        # (B) [L.begin() + off, L.end()) inserted at the member's begin()
        lo, hi = "%s.begin() + %s" % (pl.L, pl.off), "%s.end()" % pl.L
        is_buf = lambda n: alias_field(f, n) == pl.field
        tmp = [(e, v) for e in f.stmts() if e.node.get("k") == "decl" for v in e.node["vars"] if v.get("init") is not None and strip_casts(v["init"]).get("k") == "ctor" and
               [show(strip_casts(a)) for a in strip_casts(v["init"]).get("args", []) if not a.get("def")] == [lo, hi]]
        okA = okB = False
        where = None
        if len(tmp) == 1:
            td = tmp[0][1]["d"]
            is_tmp = lambda n: strip_casts(n) is not None and strip_casts(n).get("k") == "var" and strip_casts(n)["d"] == td
            ins = [e for e in f.stmts() if e.node.get("k") == "mcall" and last(e.node.get("callee", "")) == "insert" and is_tmp(e.node.get("obj"))]
            back = [e for e in f.stmts() if asg(e.node) and is_tmp(strip_views(asg(e.node)[1])) and is_buf(asg(e.node)[0])]
            where = back[0] if back else None
            if len(ins) == 1 and len(back) == 1:
                a_ = [strip_iter(x) for x in ins[0].node["args"] if not x.get("def")]
                ends = lambda x, m: x is not None and x.get("k") == "mcall" and last(x.get("callee", "")) == m
                okA = len(a_) == 3 and ends(a_[0], "end") and is_tmp(a_[0].get("obj")) and ends(a_[1], "begin") and is_buf(a_[1].get("obj")) and ends(a_[2], "end") and is_buf(a_[2].get("obj")) and elem_dominates(f, ins[0], back[0], eh=False) and \
                    elem_dominates(f, tmp[0][0], ins[0], eh=False)
        pre = [e for e in f.stmts() if e.node.get("k") == "mcall" and last(e.node.get("callee", "")) == "insert" and is_buf(e.node.get("obj")) and search(f, ps[0], lambda y, e=e: y is e, eh=False) is not None]
        if len(pre) == 1 and not tmp:
            a_ = [strip_iter(x) for x in pre[0].node["args"] if not x.get("def")]
            where = pre[0]
            okB = len(a_) == 3 and a_[0].get("k") == "mcall" and last(a_[0].get("callee", "")) == "begin" and is_buf(a_[0].get("obj")) and show(a_[1]) == lo and show(a_[2]) == hi
        r.instance()
        r.expect(okA or okB, f, where, "%s remainder order" % label, "the unparsed remainder is not put back as [offset, end) followed by the bytes that arrived during parsing", okdesc="%s: buffer = remainder ++ newly arrived" % label)


def r7(ctx, r):
    fb = ctx.fb()
    roots = [(fnc(ctx, WS, "onUpgradedData", WSF), WSF, WS), (fnc(ctx, WC, "handleData", WCF), WCF, WC)]
    n = 0
    for (root, file, cls) in roots:
        seen, work = {}, [root]
        while work:
            f = work.pop()
            if id(f) in seen:
                continue
            seen[id(f)] = f
            for e in f.stmts():
                c = e.node.get("callee") or ""
                if e.node.get("k") in ("mcall", "call") and (c.startswith(cls + "::") or c.startswith(WF + "::") or c.startswith("iora::core::BufferView::")):
                    for g in fb.funcs(c):
                        if g.ok and id(g) not in seen and g.file.endswith((WSF, WCF, WFF, "buffer_view.hpp")):
                            work.append(g)
        for f in seen.values():
            n += 1
            for e in f.stmts():
                nn = e.node
                nm = last(nn.get("callee", "")) if nn.get("k") in ("call", "mcall") else None
                bad = None
                if nn.get("k") == "throw" and "root" in e.raw:
                    bad = "a throw expression"
                elif nn.get("k") == "mcall" and nm == "at" and (nn.get("callee") or "").startswith("std::"):
                    bad = "std::…::at()"
                elif nn.get("k") == "call" and nm in ("stoul", "stoull", "stoi", "stol", "stod") and (nn.get("callee") or "").startswith("std::"):
                    bad = "std::" + nm
                elif nn.get("k") == "mcall" and nm == "value" and "optional" in (nn.get("callee") or ""):
                    bad = "optional::value()"
                if bad:
                    r.instance()
                    covered = bool(e.try_id) and any(h == "..." or "std::exception" in h for h in f.trys.get(e.try_id, {}).get("handlers", []))
                    r.expect(covered, f, e, "throwing primitive on the I/O thread: %s" % bad, "%s (reached from %s, which runs on the transport's I/O thread) uses %s outside a try block" % (short(f.name), last(root.name), bad),
                             okdesc="%s: %s inside try" % (last(f.name), bad))
    r.instance(n)
    for _ in range(n):
        r.ok("function on the data-callback path without an unguarded throwing primitive")
    if n < 12:
        raise AnalysisBroken("only %d functions reachable from the WebSocket data callbacks (floor 12)" % n)


# ------------------------------------------------------------------ R8 reassembly: which opcode a completed message is delivered under

OPC = "iora::network::WsOpcode"
R8_IN = ("fT", "fB", "fC", "fin", "inprog")                 # the frame's opcode (exactly one), its FIN bit, `a message is in progress` (= an opcode is recorded)
R8_ST = ("x_rec", "x_own", "f_rec", "f_own")                # what the delivered-opcode local / the opcode-record field hold: the value recorded
                                                            # when the function was entered, the frame's own opcode, or (neither) a constant


def _is_opcode_t(n):
    return OPC in ((n or {}).get("t") or "")


class Reassembly:
    """Exact predicate abstraction (A5) of one handleDataFrame over a vocabulary that says where the opcode of the delivered message comes
    from.  Everything is identified by dataflow and declarations, not by local names: the frame is the WebSocketFrame parameter; the opcode
    record is the one WsOpcode field the function assigns; the reassembly buffer is the field frame.payload is assigned/appended to; the
    delivered opcode is the WsOpcode local the delivery dispatch compares with TEXT/BINARY.  Conditions over anything else (sizes, limits,
    the buffer's emptiness) are unknown to the abstraction, i.e. free: in particular an empty buffer says nothing about `in progress`."""

    def __init__(self, hd, label):
        self.f, self.label = hd, label
        f = hd
        fps = [p for p in f.params if "WebSocketFrame" in (p.get("t") or "")]
        if len(fps) != 1:
            raise AnalysisBroken("%s handleDataFrame: %d WebSocketFrame parameters" % (label, len(fps)))
        self.frame_d = fps[0]["d"]
        # the opcode record: WsOpcode-typed members (not of the frame) this function assigns
        recs = set()
        for e in f.stmts():
            a = asg(e.node)
            if a and strip_casts(a[0]).get("k") == "member" and _is_opcode_t(strip_casts(a[0])) and not self.is_own(a[0]):
                recs.add(field_of(a[0]))
            if e.node.get("k") == "call" and e.node.get("callee") == "std::exchange" and e.node.get("args") and strip_casts(e.node["args"][0]).get("k") == "member" and _is_opcode_t(strip_casts(e.node["args"][0])):
                recs.add(field_of(e.node["args"][0]))
        if len(recs) != 1:
            raise AnalysisBroken("%s handleDataFrame: %d opcode-record fields assigned here (%s) — the reassembly state is kept in a shape this rule does not model" % (label, len(recs), sorted(x or "?" for x in recs)))
        self.rec = recs.pop()
        # the reassembly buffer: the field the frame's payload is assigned / appended to
        bufs = set()
        for e in f.stmts():
            a = asg(e.node)
            if a and strip_casts(a[0]).get("k") == "member" and self.is_payload(strip_views(a[1])):
                bufs.add(field_of(a[0]))
            if e.node.get("k") == "mcall" and last(e.node.get("callee", "")) in ("insert", "append", "assign") and any(self.is_payload(y) for a_ in e.node.get("args", []) for y in walk(a_)):
                bufs.add(field_of(e.node.get("obj")))
        bufs.discard(None)
        bufs = {b for b in bufs if b != WF + "::payload"}
        if len(bufs) != 1:
            raise AnalysisBroken("%s handleDataFrame: %d reassembly buffers found (%s)" % (label, len(bufs), sorted(bufs)))
        self.buf = bufs.pop()
        # the delivery dispatch and the local it reads
        self.dispatch, xs = [], {}
        for b in f.blocks.values():
            c = None
            if b.term and b.term.get("k") == "SwitchStmt" and b.cond is not None:
                c = strip_casts(b.cond)
            elif b.cond is not None:
                for (op, l, rr) in common.cmp_both(strip_casts(b.cond)):
                    if op in ("==", "!=") and strip_casts(rr).get("k") == "enum" and strip_casts(rr)["n"] in (OPC + "::TEXT", OPC + "::BINARY"):
                        c = strip_casts(l)
            if c is not None and c.get("k") == "var" and _is_opcode_t(c) and c.get("parm") is None:
                self.dispatch.append(b)
                xs[c["d"]] = c["n"]
        if len(xs) != 1:
            raise AnalysisBroken("%s handleDataFrame: the delivery dispatch does not read one WsOpcode local (found %s) — a shape this rule does not model" % (label, sorted(xs.values())))
        self.x_d, self.x_name = list(xs.items())[0]
        cbs = [e for e in f.stmts() if e.node.get("k") == "opcall" and e.node.get("op") == "()" and (field_of(e.node["args"][0]) or "").endswith(("::_onTextMessage", "::_onBinaryMessage"))]
        if not any(search(f, ("block", b.id), lambda y, e=e: y is e, eh=False) is not None for b in self.dispatch for e in cbs) or len(cbs) < 2:
            raise AnalysisBroken("%s handleDataFrame: the message callbacks are not reached from the opcode dispatch" % label)
        # bool locals: single-definition ones whose initialiser is a formula over the vocabulary are substituted, the others are atoms
        self.subst, self.batoms = {}, {}
        decls = [(e, v) for e in sorted(f.stmts(), key=lambda e: (e.line, -e.block.id, e.idx)) if e.node.get("k") == "decl" for v in e.node["vars"] if (v.get("t") or "").replace("const ", "").strip() == "bool"]
        writes = {}
        for e in f.stmts():
            if is_assign(e.node) and strip_casts(_ap(e.node)[0]).get("k") == "var":
                writes.setdefault(strip_casts(_ap(e.node)[0])["d"], []).append(e)
        for (e, v) in decls:
            fm = total(translate(v["init"], self.leaf)) if v.get("init") is not None else None
            if fm is not None and v["d"] not in writes and strip_casts(v["init"]).get("k") != "bool":
                self.subst[v["d"]] = fm
            else:
                self.batoms[v["d"]] = "b:%s" % v["n"]
        atoms = list(R8_IN + R8_ST) + sorted(self.batoms.values())
        if len(atoms) > 12:
            raise AnalysisBroken("%s handleDataFrame: %d boolean locals besides the reassembly vocabulary — too many for the exact abstraction" % (label, len(self.batoms)))
        # nothing else may write the tracked objects: passing them by reference / taking their address is outside the model
        for e in f.stmts():
            n = e.node
            if n.get("k") in ("call", "mcall", "ctor") and not (n.get("k") == "call" and n.get("callee") == "std::exchange"):
                for a_ in n.get("args", []):
                    s_ = strip_casts(a_)
                    s_ = s_["v"] if s_ is not None and s_.get("k") == "un" and s_.get("op") == "&" else s_
                    if s_ is not None and ((s_.get("k") == "var" and s_.get("d") == self.x_d) or (s_.get("k") == "member" and _is_opcode_t(s_) and field_of(s_) == self.rec)):
                        raise AnalysisBroken("%s handleDataFrame: `%s` hands the delivered opcode / the opcode record to a callee (possibly by reference)" % (label, show(n)[:60]))
        self.vocab = Vocab(atoms)
        one = Or(And(A("fT"), Not(A("fB")), Not(A("fC"))), And(Not(A("fT")), A("fB"), Not(A("fC"))), And(Not(A("fT")), Not(A("fB")), A("fC")))
        init = And(one, A("f_rec"), Not(A("f_own")), Not(A("x_rec")), Not(A("x_own")))
        self.pa = PredAbs(f, self.vocab, self.leaf, self.effects, init=init, eh=False)

    def is_frame(self, n):
        n = strip_casts(n)
        return n is not None and n.get("k") == "var" and n.get("d") == self.frame_d

    def is_own(self, n):
        n = strip_casts(n)
        return n is not None and n.get("k") == "member" and n.get("n") == WF + "::opcode" and self.is_frame(n.get("b"))

    def is_payload(self, n):
        n = strip_casts(n)
        return n is not None and n.get("k") == "member" and n.get("n") == WF + "::payload" and self.is_frame(n.get("b"))

    def is_rec(self, n):
        n = strip_casts(n)
        return n is not None and n.get("k") == "member" and _is_opcode_t(n) and field_of(n) == self.rec

    def is_x(self, n):
        n = strip_casts(n)
        return n is not None and n.get("k") == "var" and n.get("d") == self.x_d

    def leaf(self, n):
        if n.get("k") == "var" and n.get("d") in self.subst:
            return self.subst[n["d"]]
        if n.get("k") == "var" and n.get("d") in self.batoms:
            return A(self.batoms[n["d"]])
        if n.get("k") == "member" and n.get("n") == WF + "::fin" and self.is_frame(n.get("b")):
            return A("fin")
        for (op, l, rr) in common.cmp_both(n):
            e_ = strip_casts(rr)
            if op not in ("==", "!=") or e_ is None or e_.get("k") != "enum" or not e_["n"].startswith(OPC + "::"):
                continue
            fm = None
            if self.is_own(l):
                fm = {"TEXT": A("fT"), "BINARY": A("fB"), "CONTINUATION": A("fC")}.get(last(e_["n"]), F)
            elif self.is_rec(l) and last(e_["n"]) == "CONTINUATION":
                # `no message in progress`, read off the record: its entry value is CONTINUATION iff nothing is in progress; after
                # `record = frame.opcode` it is the frame's; the only constant ever stored is CONTINUATION (checked in effects)
                fm = Or(And(A("f_rec"), Not(A("inprog"))), And(A("f_own"), A("fC")), And(Not(A("f_rec")), Not(A("f_own"))))
            if fm is not None:
                return fm if op == "==" else Not(fm)
        return None

    def source(self, n, e):
        """alternatives [(formula `holds the entry record`, formula `holds the frame's own opcode`)] of an opcode-valued expression; more than
        one when a conditional expression chooses on a condition outside the vocabulary (either value is then possible)"""
        n = strip_wrappers(strip_casts(n))
        if n is None:
            raise AnalysisBroken("%s handleDataFrame: opcode expression missing at line %d" % (self.label, e.line))
        if self.is_own(n):
            return [(F, T)]
        if self.is_rec(n):
            return [(A("f_rec"), A("f_own"))]
        if self.is_x(n):
            return [(A("x_rec"), A("x_own"))]
        if n.get("k") == "enum" and n["n"].startswith(OPC + "::"):
            return [(F, F)]
        if n.get("k") == "cond":
            c = total(translate(n["c"], self.leaf))
            ts, fs = self.source(n["t"], e), self.source(n["f"], e)
            if c is not None and len(ts) == 1 and len(fs) == 1:
                (tr, to), (fr, fo) = ts[0], fs[0]
                return [(Or(And(c, tr), And(Not(c), fr)), Or(And(c, to), And(Not(c), fo)))]
            return ts + fs
        raise AnalysisBroken("%s handleDataFrame: the opcode expression `%s` (line %d) is not the frame's opcode, the record, the delivered-opcode local or a constant" % (self.label, show(n)[:50], e.line))

    def _store(self, which, n, e):
        alts = self.source(n, e)
        s0 = strip_wrappers(strip_casts(n))
        if which == "f" and any(x.get("k") == "enum" and x["n"].startswith(OPC + "::") and last(x["n"]) != "CONTINUATION" for x in walk(s0)):
            raise AnalysisBroken("%s handleDataFrame: the opcode record is set to the constant in `%s` (the rule reads CONTINUATION as `nothing in progress`)" % (self.label, show(n)[:40]))
        if which == "x" and any(x.get("k") == "enum" and x["n"].startswith(OPC + "::") and last(x["n"]) != "CONTINUATION" for x in walk(s0)):
            raise AnalysisBroken("%s handleDataFrame: the delivered opcode is set to the constant in `%s` — a message type that comes from neither the frame nor the record" % (self.label, show(n)[:40]))
        ra, oa = which + "_rec", which + "_own"
        if alts == [(A(ra), A(oa))]:
            return []
        if any({ra, oa} & (atoms_of(r_) | atoms_of(o_)) for (r_, o_) in alts):
            raise AnalysisBroken("%s handleDataFrame: self-referential opcode assignment at line %d" % (self.label, e.line))
        if len(alts) == 1:
            return [("assign", ra, alts[0][0]), ("assign", oa, alts[0][1])]
        iff = lambda a_, fm: Or(And(A(a_), fm), And(Not(A(a_)), Not(fm)))
        return [("havoc", ra), ("havoc", oa), ("assume", Or(*[And(iff(ra, r_), iff(oa, o_)) for (r_, o_) in alts]))]

    def effects(self, e):
        if e.kind != "stmt":
            return None
        n = e.node
        ops = []
        if n.get("k") == "decl":
            for v in n["vars"]:
                if v["d"] == self.x_d:
                    ops += self._store("x", v["init"], e) if v.get("init") is not None else [("set", "x_rec", False), ("set", "x_own", False)]
                elif v["d"] in self.batoms:
                    ops += self._bool(self.batoms[v["d"]], v.get("init"))
            return ops
        if n.get("k") == "call" and n.get("callee") == "std::exchange" and len(n.get("args", [])) == 2 and self.is_rec(n["args"][0]):
            # the value of the call is the old record: an enclosing `x = std::exchange(record, v)` is evaluated AFTER this element in the
            # CFG, so the old record is parked in x here when x is the target (the only supported use)
            par = e.fn.nodes.get(e.fn.parent.get(n["id"]))
            while par is not None and par.get("k") == "cast":
                par = e.fn.nodes.get(e.fn.parent.get(par["id"]))
            if par is None or not asg(par) or not self.is_x(asg(par)[0]):
                raise AnalysisBroken("%s handleDataFrame: std::exchange on the opcode record whose value does not go to the delivered-opcode local" % self.label)
            return self._store("x", n["args"][0], e) + self._store("f", n["args"][1], e)
        a = asg(n)
        if a:
            if self.is_x(a[0]):
                r0 = strip_wrappers(strip_casts(a[1]))
                if r0.get("k") == "call" and r0.get("callee") == "std::exchange":
                    return []          # done at the call element
                return self._store("x", a[1], e)
            if self.is_rec(a[0]):
                return self._store("f", a[1], e)
            l = strip_casts(a[0])
            if l.get("k") == "var" and l.get("d") in self.batoms:
                return self._bool(self.batoms[l["d"]], a[1])
        elif is_assign(n):
            l = strip_casts(_ap(n)[0])
            if self.is_x(l) or self.is_rec(l):
                raise AnalysisBroken("%s handleDataFrame: compound assignment to an opcode" % self.label)
            if l.get("k") == "var" and l.get("d") in self.batoms:
                return [("havoc", self.batoms[l["d"]])]
        return None

    def _bool(self, atom, rhs):
        if rhs is None:
            return [("havoc", atom)]
        cv = const_value(strip_casts(rhs)) if strip_casts(rhs).get("k") in ("bool", "int") else None
        if cv is not None:
            return [("set", atom, bool(cv))]
        fm = translate(rhs, self.leaf)
        tf = total(fm)
        if tf is not None and atom not in atoms_of(tf):
            return [("assign", atom, tf)]
        return [("havoc", atom), ("assume", Or(Not(A(atom)), known_when(fm, True))), ("assume", Or(A(atom), known_when(fm, False)))] if fm is not None and atom not in atoms_of(known_when(fm, True)) | atoms_of(known_when(fm, False)) else [("havoc", atom)]

    # ---- results
    def at_dispatch(self):
        """abstract state (set of assignments) in which the delivery dispatch is entered: union over the dispatch blocks that are not
        themselves reached from another dispatch block"""
        st = 0
        firsts = [b for b in self.dispatch if not any(o is not b and search(self.f, ("block", o.id), lambda y, b=b: y.block is b, eh=False) is not None for o in self.dispatch)]
        for b in firsts:
            s_ = self.pa.flow.at_block_end(b)       # (the delivered opcode may be defined in the very block that branches on it)
            if s_:
                st |= s_
        return st, firsts

    def table(self):
        """{(opcode of the frame, fin, in progress): {(delivered under, record afterwards)}} — the inputs that reach delivery and what they deliver"""
        st, _ = self.at_dispatch()
        v = self.vocab
        out = {}
        for a in range(v.size):
            if not (st >> a) & 1:
                continue
            val = {nm: bool((a >> v.idx[nm]) & 1) for nm in R8_IN + R8_ST}
            op = "TEXT" if val["fT"] else "BINARY" if val["fB"] else "CONTINUATION"
            key = (op, "FIN" if val["fin"] else "no FIN", "message in progress" if val["inprog"] else "nothing in progress")
            # compared as VALUES: the entry record is the START frame's opcode while a message is in progress and CONTINUATION (none)
            # otherwise; every constant stored is CONTINUATION (checked where it is stored; the local's initialiser included)
            value = lambda r_, o_: ("the opcode recorded at START" if val["inprog"] else "CONTINUATION") if r_ else op if o_ else "CONTINUATION"
            out.setdefault(key, set()).add(("under " + value(val["x_rec"], val["x_own"]), "record afterwards: " + value(val["f_rec"], val["f_own"]).replace("CONTINUATION", "none")))
        return out


def _emptiness_tests(f, buf):
    """[(block, leaf)] branch conditions that test the emptiness of the field `buf`: empty(), size() compared with 0 / used as a truth value,
    begin() == end(), also through single-definition locals initialised with such an expression"""
    loc = {}
    for e in f.stmts():
        if e.node.get("k") == "decl":
            for v in e.node["vars"]:
                if v.get("init") is not None:
                    loc[v["d"]] = v["init"]

    def size_like(n, depth=0):
        n = strip_casts(n)
        if n is None:
            return False
        if n.get("k") == "mcall" and last(n.get("callee", "")) in ("size", "length") and field_of(n.get("obj")) == buf:
            return True
        if n.get("k") == "var" and n.get("d") in loc and depth < 3:
            i = strip_casts(loc[n["d"]])
            # `isStart ? 0 : buf.size()` is 0 for a start frame: compared with 0 it is `start or empty` — still an emptiness test
            return size_like(i, depth + 1) or (i.get("k") == "cond" and (size_like(i["t"], depth + 1) or size_like(i["f"], depth + 1)))
        return False

    def empt(n, depth=0):
        n = strip_casts(n)
        if n is None:
            return False
        if n.get("k") == "mcall" and last(n.get("callee", "")) == "empty" and field_of(n.get("obj")) == buf:
            return True
        if size_like(n):
            return True        # used as a truth value
        for (op, l, rr) in common.cmp_both(n):
            if size_like(l) and const_value(rr) in (0, 1) and (const_value(rr) == 0 or op in ("<", ">=")):
                return True
            if op in ("==", "!=") and all(x is not None and x.get("k") == "mcall" and field_of(x.get("obj")) == buf for x in (strip_casts(l), strip_casts(rr))) and {last(strip_casts(l)["callee"]), last(strip_casts(rr)["callee"])} == {"begin", "end"}:
                return True
        if n.get("k") == "var" and n.get("d") in loc and depth < 3 and "bool" in (n.get("t") or ""):
            return any(empt(x, depth + 1) for x in walk(loc[n["d"]]) if x.get("k") in ("mcall", "bin", "opcall", "var"))
        return False
    out = []
    for b in f.blocks.values():
        if b.cond is None or len([s for s in b.succs if s is not None]) != 2:
            continue
        leaves = [c for (c, _t) in flatten_fact(b.cond, True)]
        for x in walk(b.cond):
            if x.get("k") == "bin" and x.get("op") in ("&&", "||"):
                leaves += [c for side in (x["lhs"], x["rhs"]) for (c, _t) in flatten_fact(side, True)]
        for c in leaves:
            if empt(c):
                out.append((b, c))
                break
    return out


def r8(ctx, r):
    """'fragments joined in order … the server and the client deliver the same sequence of complete messages': a message is delivered under
    the opcode its START frame recorded.  Decided per endpoint by an exact predicate abstraction of handleDataFrame (class Reassembly), then
    the two endpoints' delivery tables are compared."""
    models = []
    for cls, file, label in ((WS, WSF, "server"), (WC, WCF, "client")):
        m = Reassembly(fnc(ctx, cls, "handleDataFrame", file), label)
        models.append(m)
        f, pa = m.f, m.pa
        st, firsts = m.at_dispatch()
        if not st:
            raise AnalysisBroken("%s handleDataFrame: the delivery dispatch is unreachable in the abstraction" % label)
        xdefs = [e for e in f.stmts() if (asg(e.node) and m.is_x(asg(e.node)[0])) or (e.node.get("k") == "decl" and any(v["d"] == m.x_d for v in e.node["vars"]))]

        def culprits(bad):
            """definitions of the delivered opcode after which `bad` is possible and that reach the dispatch without being overwritten"""
            out = []
            kinds = [k for k in (And(A("x_own"), Not(A("x_rec"))), And(Not(A("x_own")), Not(A("x_rec"))), A("x_rec")) if m.vocab.assume(st, And(bad, k))]
            for e in xdefs:
                s_ = pa.flow.after(e)
                # (the value the definition leaves — own / constant / record — must be one that arrives at the dispatch in a bad state)
                if s_ and any(m.vocab.assume(s_, And(bad, k)) for k in kinds) and any(search(f, e, lambda y, b=b: y.block is b, stop=lambda y, e=e: y in xdefs and y is not e, eh=False) is not None for b in firsts):
                    out.append(e)
            return out

        def guards(e):
            gs = [show(c)[:60] if t else "!(%s)" % show(c)[:60] for c, t in dominating_facts(f, e)]
            return ", ".join("`%s`" % g for g in gs[-4:]) or "none"
        # (i) a CONTINUATION frame that completes a message in progress delivers under the recorded opcode — never under its own
        r.instance()
        bad = And(A("fC"), A("inprog"), Not(A("x_rec")))
        if m.vocab.assume(st, bad):
            cs = culprits(bad) or [None]
            for e in cs:
                emp = [show(c)[:50] for (b, c) in _emptiness_tests(f, m.buf) if e is not None and (dominated_by_edge(f, e, b, 0, eh=False) or dominated_by_edge(f, e, b, 1, eh=False))]
                r.fail(f, e, "%s: continuation delivered under its own opcode" % label, "%s handleDataFrame can deliver a message completed by a CONTINUATION frame while a fragmented message is in progress under %s instead of the opcode "
                       "recorded at the START frame (%s): %s reaches the TEXT/BINARY dispatch for such a frame (guards on the way: %s)%s — the dispatch sees opcode CONTINUATION, no callback fires and the message is lost"
                       % (label, "the frame's own opcode" if e is not None and m.vocab.assume(pa.flow.after(e), And(bad, A("x_own"))) else "a value that is not the record", short(m.rec), "`%s`" % show(e.node)[:60] if e is not None else "a path",
                          guards(e) if e is not None else "?", ("; `%s` tests the reassembly buffer's emptiness, which does not mean `no message in progress`: the start fragments of a message may be empty" % emp[0]) if emp else ""))
        else:
            r.ok("%s: CONTINUATION + message in progress → delivered under the recorded opcode" % label)
        # a TEXT/BINARY frame delivers under its own opcode (directly or through the record it has just written)
        r.instance()
        bad2 = And(Not(A("fC")), Not(A("x_own")))
        if m.vocab.assume(st, bad2):
            for e in culprits(bad2) or [None]:
                r.fail(f, e, "%s: start frame not delivered under its own opcode" % label, "%s handleDataFrame can deliver a message whose last frame is a TEXT/BINARY frame under an opcode that is not that frame's (%s; guards: %s): "
                       "the START frame's opcode is not what gets recorded/delivered" % (label, "`%s`" % show(e.node)[:60] if e is not None else "a path", guards(e) if e is not None else "?"))
        else:
            r.ok("%s: TEXT/BINARY FIN → delivered under the frame's opcode" % label)
        # the opcode of a START frame that does not complete its message is recorded (else there is nothing to deliver the continuation under)
        r.instance()
        rdefs = [e for e in f.stmts() if asg(e.node) and m.is_rec(asg(e.node)[0]) and m.is_own(strip_wrappers(strip_casts(asg(e.node)[1])))]
        r.expect(any(pa.flow.before(e) and m.vocab.assume(pa.flow.before(e), And(Not(A("fC")), Not(A("fin")))) for e in rdefs), f, rdefs[0] if rdefs else None, "%s: START opcode not recorded" % label,
                 "%s handleDataFrame never stores the opcode of a TEXT/BINARY frame without FIN in %s: the CONTINUATION frames that follow have no recorded message type" % (label, short(m.rec)), okdesc="%s: record = frame.opcode for a START frame without FIN" % label)
        # only completed messages are delivered
        r.instance()
        r.expect(not m.vocab.assume(st, Not(A("fin"))), f, None, "%s: delivery without FIN" % label, "%s handleDataFrame reaches the message dispatch for a frame without FIN" % label, okdesc="%s: delivery only with FIN" % label)
        # (ii) `message in progress` is never read off the buffer's emptiness: no emptiness test of the reassembly buffer may decide anything
        # but clearing that buffer
        for (b, c) in _emptiness_tests(f, m.buf):
            r.instance()
            dep = []
            for e in f.stmts():
                if "root" not in e.raw or e.block is b:
                    continue
                n = e.node
                if n.get("k") == "mcall" and last(n.get("callee", "")) in ("clear", "shrink_to_fit") and field_of(n.get("obj")) == m.buf:
                    continue
                if not (is_assign(n) or n.get("k") in ("call", "mcall", "opcall", "ret", "decl")):
                    continue
                if dominated_by_edge(f, e, b, 0, eh=False) != dominated_by_edge(f, e, b, 1, eh=False):
                    dep.append(e)
            # a conditional expression `empty ? a : b`: the statement that receives its value depends on the test
            if b.term and b.term.get("k") in ("ConditionalOperator", "BinaryConditionalOperator"):
                for x in f.nodes.values():
                    if x.get("k") == "cond" and isinstance(x.get("c"), dict) and any(y is c or y.get("id") == c.get("id") for y in walk(x["c"])):
                        re_ = f.root_elem(x)
                        if re_ is not None and (is_assign(re_.node) or re_.node.get("k") in ("call", "mcall", "opcall", "ret", "decl")) and re_ not in dep:
                            dep.append(re_)
            r.expect(not dep, f, b.elems[-1] if b.elems else None, "%s: in-progress decided by buffer emptiness" % label, "%s handleDataFrame branches on `%s` — the emptiness of the reassembly buffer %s — and `%s` depends on the outcome: "
                     "an empty buffer does not mean that no fragmented message is in progress (RFC 6455 allows empty start fragments); only the recorded opcode says so" % (label, show(c)[:60], short(m.buf), show(dep[0].node)[:50] if dep else ""),
                     okdesc="%s: emptiness test guards nothing but clear()" % label)
    # (iii) server and client agree: same inputs reach delivery, under the same opcode source, leaving the same record
    ts, tc = models[0].table(), models[1].table()
    r.instance()
    if ts == tc:
        r.ok("server and client deliver for the same (opcode, FIN, in-progress) inputs under the same opcode source: %d input classes" % len(ts))
    else:
        diffs = []
        for k in sorted(set(ts) | set(tc)):
            if ts.get(k) != tc.get(k):
                dsc = lambda s_: "; or ".join("%s, %s" % x for x in sorted(s_)) if s_ else "does not deliver"
                diffs.append("%s: server %s — client %s" % (" / ".join(k), dsc(ts.get(k)), dsc(tc.get(k))))
        # reported at the endpoint that has a failure above, else at the client
        where = models[1]
        r.fail(where.f, None, "server and client reassembly disagree", "the two handleDataFrame implementations do not deliver the same messages for the same frames: %s" % " | ".join(diffs[:4]))


# ------------------------------------------------------------------ helper following: the view of a function with its new helpers spliced in
#
# The rules above were written against a frozen set of functions (iora_sa/inventory.json).  A call to a function of the same class that is
# NOT in that set is code that has been moved out of the function the rule reads (helper extraction).  view() returns the function with every
# such call replaced by the callee's CFG: the callee's blocks are copied with fresh node / declaration / block numbers, its parameters are
# replaced by the caller's argument expressions (so `pos += 2` on a `size_t& pos` parameter is an advance of the caller's cursor and
# `sendClose(sid, code, reason)` inside failSession(sid, 1009, …) is a sendClose with the constant 1009), its returns continue behind the call
# (a `return <bool constant>` of a callee that is the caller's branch condition goes straight to the matching successor), implicit destructors
# stay where they are (a lock taken in the helper is released where the helper ends).  Calls to functions the rules know stay calls.  Nothing is
# keyed on a name: the choice is `known to the rule tables or not`.  On the unchanged tree view(f) is f itself.

_INV, _VIEWS, _UNFOLLOWED = [], {}, []


def _known_functions():
    if not _INV:
        import json
        import os
        from .. import report
        try:
            _INV.append(set(json.load(open(report.INVENTORY)).get("functions", [])))
        except OSError:
            _INV.append(None)
    return _INV[0]


def _copy_tree(n, tf):
    if isinstance(n, list):
        return [_copy_tree(x, tf) for x in n]
    if not isinstance(n, dict):
        return n
    r_ = tf(n)
    if r_ is not None:
        return r_
    return {k: _copy_tree(v, tf) for k, v in n.items()}


def _inline_one(fb, cur, known, counter):
    """cur: Function; returns a new raw dict with one unknown same-class helper call spliced in, or None"""
    from ..access import classify
    from ..facts import Function
    raw = cur.raw
    for rb in raw["blocks"]:
        for i, el in enumerate(rb["elems"]):
            if "e" not in el or (el.get("k") and "e" not in el):
                continue
            n = cur.nodes.get(el["e"])
            if n is None or n.get("k") not in ("call", "mcall") or not n.get("callee"):
                continue
            cal = n["callee"]
            if n.get("virt"):
                if cal not in known and cal not in _UNFOLLOWED and any("/include/iora/" in g.file or "/src/" in g.file for g in fb.by_name.get(cal, [])):
                    _UNFOLLOWED.append(cal)     # a new virtual function: the dynamic target is not known here
                continue
            if cal in known or cal in (rb.get("inl") or []) or cal == cur.name or el["e"] in (raw.get("_spliced") or ()):
                continue
            defs = [g for g in fb.by_name.get(cal, []) if "/include/iora/" in g.file or "/src/" in g.file]
            if not defs:
                continue        # not a function of the library (std::…, OpenSSL, …)
            args = [a for a in n.get("args", [])]
            gs = [g for g in defs if g.ok and g.cls in (cur.cls, None) and g.file == cur.file and g.kind in ("method", "function") and len(g.params) == len(args)]
            if (n.get("k") == "mcall" and (n.get("obj") or {}).get("k") != "this") or len(gs) != 1 or gs[0].raw.get("trys") or any(x.get("k") == "lambda" for x in gs[0].nodes.values()):
                # an unknown function that cannot be spliced in (another object / class / file, overloads, try blocks, lambdas): the rules do
                # not follow it — recorded so that the inventory guard keeps applying (FOLLOWS_HELPERS is withdrawn in run())
                if cal not in _UNFOLLOWED:
                    _UNFOLLOWED.append(cal)
                continue
            g = gs[0]
            # a by-value parameter the callee writes is a separate object: substituting the caller's expression would be wrong
            pd = {p["d"]: j for j, p in enumerate(g.params)}
            def rebinds(x):
                par = g.nodes.get(g.parent.get(x.get("id")))
                while par is not None and par.get("k") == "cast":
                    x, par = par, g.nodes.get(g.parent.get(par.get("id")))
                if par is None:
                    return False
                if is_assign(par) and _ap(par)[0] is x:
                    return True
                return par.get("k") == "un" and (par.get("op") == "&" or "++" in par.get("op", "") or "--" in par.get("op", "")) and par.get("v") is x
            if any(x.get("k") == "var" and x.get("d") in pd and "&" not in (g.params[pd[x["d"]]].get("t") or "") and rebinds(x) for x in g.nodes.values()):
                if cal not in _UNFOLLOWED:
                    _UNFOLLOWED.append(cal)
                continue
            # a by-value parameter initialised by a copy of a caller's object reads as that object
            args = [strip_views(a) if (strip_casts(a).get("k") == "ctor" and strip_casts(a).get("copy") and "&" not in (g.params[j].get("t") or "")) else a for j, a in enumerate(args)]
            # ---- numbering
            mx = {"id": 0, "d": 0}

            def scan(x, top=True):
                if isinstance(x, list):
                    for y in x:
                        scan(y, top)
                elif isinstance(x, dict):
                    for k, v in x.items():
                        if k in ("id", "d") and isinstance(v, int) and not (top and k == "id"):
                            mx[k] = max(mx[k], v)
                        elif k in ("e", "cond", "fullcond") and isinstance(v, int):
                            mx["id"] = max(mx["id"], v)
                        else:
                            scan(v, False)
            for b_ in raw["blocks"]:
                for e_ in b_["elems"]:
                    scan(e_, False)
                scan(b_.get("label"), False)
                scan(b_.get("term"), False)
            scan(raw.get("params"), False)
            off_n, off_d, off_b = max(mx["id"], max(list(cur.nodes) + [0])) + 1, mx["d"] + 1, max(b_["id"] for b_ in raw["blocks"]) + 1
            gmax_n = max(list(g.nodes) + [0])
            fresh = [off_n + gmax_n + 1]
            idmap = {}

            def fresh_copy(t):
                def tf(x):
                    if "id" in x:
                        y = {k: _copy_tree(v, tf) for k, v in x.items() if k != "id"}
                        y["id"] = fresh[0]
                        fresh[0] += 1
                        return y
                    return None
                return _copy_tree(t, tf)

            def tf(x):
                if x.get("k") == "var" and x.get("parm") is not None and x.get("d") in pd:
                    c_ = fresh_copy(args[pd[x["d"]]])
                    if "id" in x and "id" in c_:
                        idmap[x["id"]] = c_["id"]
                    return c_
                y = {}
                for k, v in x.items():
                    if k == "id" and isinstance(v, int):
                        y[k] = v + off_n
                    elif k == "d" and isinstance(v, int):
                        y[k] = v + off_d
                    elif k == "k" and v == "ret" and "id" in x:
                        y[k] = "retv"        # the callee's return is not a return of the function the rule reads
                    else:
                        y[k] = _copy_tree(v, tf)
                return y
            gexit, gentry = g.raw["exit"] + off_b, g.raw["entry"] + off_b
            cont_id = off_b + max(b_["id"] for b_ in g.raw["blocks"]) + 1
            # is the call the caller's branch condition (possibly under `!`)?
            term = rb.get("term") or {}
            parity, cn = 0, cur.nodes.get(term.get("fullcond") if term.get("fullcond") is not None and term.get("k") == "IfStmt" else term.get("cond"))
            if cn is not None and term.get("k") == "IfStmt" and term.get("fullcond") is not None and cur.nodes.get(term["fullcond"]) is not None:
                cn = cur.nodes[term["fullcond"]]
            while cn is not None and cn.get("k") == "un" and cn.get("op") == "!" and isinstance(cn.get("v"), dict):
                parity, cn = parity ^ 1, cn["v"]
            is_cond = cn is not None and cn.get("id") == n.get("id") and len(rb["succs"]) == 2 and all(isinstance(s_, int) for s_ in rb["succs"])
            chain = list(rb.get("inl") or []) + [cal]
            gblocks, routed_all = [], True
            for gb in g.raw["blocks"]:
                nb = {"id": gb["id"] + off_b, "elems": [], "succs": [(s_ + off_b) if isinstance(s_, int) else s_ for s_ in gb["succs"]], "inl": chain}
                const_ret = None
                for ge in gb["elems"]:
                    if "e" in ge:
                        ne = {k: v for k, v in ge.items() if k not in ("e", "root")}
                        ne["e"] = idmap.get(ge["e"], ge["e"] + off_n)
                        if "root" in ge:
                            ne["root"] = _copy_tree(ge["root"], tf)
                            ne["e"] = idmap.get(ge["e"], ne["root"].get("id", ne["e"]))
                            if ge["root"].get("k") == "ret":
                                v_ = ge["root"].get("v")
                                const_ret = ("c", v_["cv"]) if isinstance(v_, dict) and v_.get("k") == "bool" and "cv" in v_ else \
                                    ("e", ne["root"]["v"].get("id")) if isinstance(v_, dict) and g.raw.get("ret") == "bool" and isinstance(ne["root"].get("v"), dict) and ne["root"]["v"].get("id") is not None else ("v", None)
                        if el.get("try") and not ne.get("try"):
                            ne["try"] = el["try"]
                        nb["elems"].append(ne)
                    else:
                        ne = dict(ge)
                        if isinstance(ne.get("d"), int):
                            ne["d"] += off_d
                        nb["elems"].append(ne)
                if "term" in gb:
                    t_ = dict(gb["term"])
                    for k in ("cond", "fullcond"):
                        if isinstance(t_.get(k), int):
                            t_[k] = idmap.get(t_[k], t_[k] + off_n)
                    nb["term"] = t_
                if "label" in gb and gb["label"] is not None:
                    nb["label"] = _copy_tree(gb["label"], tf)
                if gb.get("noreturn"):
                    nb["noreturn"] = gb["noreturn"]
                if const_ret is not None and gexit in nb["succs"]:
                    if is_cond and const_ret[0] == "c":
                        truth = bool(const_ret[1]) != bool(parity)
                        nb["succs"] = [rb["succs"][0] if truth else rb["succs"][1]]
                    elif is_cond and const_ret[0] == "e" and "term" not in nb:
                        # `return <condition>;` of a callee that is the caller's branch condition: the caller branches on that condition
                        nb["term"] = {"k": "IfStmt", "l": term.get("l", 0), "cond": const_ret[1]}
                        nb["succs"] = [rb["succs"][1], rb["succs"][0]] if parity else [rb["succs"][0], rb["succs"][1]]
                    else:
                        routed_all = False
                elif gexit in nb["succs"] and nb["id"] != gexit:
                    routed_all = False      # falls off the end of a void callee
                gblocks.append(nb)
            # (elements that referred to a substituted parameter node keep pointing at the copy; fix the ones emitted before the map was complete)
            for nb in gblocks:
                for ne in nb["elems"]:
                    if "e" in ne and "root" not in ne and (ne["e"] - off_n) in idmap:
                        ne["e"] = idmap[ne["e"] - off_n]
                if "term" in nb:
                    for k in ("cond", "fullcond"):
                        if isinstance(nb["term"].get(k), int) and (nb["term"][k] - off_n) in idmap:
                            nb["term"][k] = idmap[nb["term"][k] - off_n]
            new = {k: v for k, v in raw.items() if k != "blocks"}
            blocks = []
            for ob in raw["blocks"]:
                if ob is not rb:
                    blocks.append(ob)
                    continue
                head = {k: v for k, v in ob.items() if k not in ("elems", "succs", "term")}
                head["elems"] = ob["elems"][:i]
                head["succs"] = [gentry]
                blocks.append(head)
                if not (is_cond and routed_all):
                    cont = {"id": cont_id, "elems": ob["elems"][i:], "succs": list(ob["succs"]), "inl": ob.get("inl")}
                    if "term" in ob:
                        cont["term"] = ob["term"]
                    blocks.append(cont)
                    for nb in gblocks:
                        if nb["id"] == gexit:
                            nb["succs"] = [cont_id]
                else:
                    gblocks = [nb for nb in gblocks if nb["id"] != gexit]
            new["blocks"] = blocks + gblocks
            new["_spliced"] = list(raw.get("_spliced") or []) + [el["e"]]
            counter.append(cal)
            return new
    return None


def view(ctx, f):
    """f with the calls to same-class functions the rule tables have never seen spliced in (f itself when there are none)"""
    from ..facts import Function
    key = (ctx.config, f.sig)
    if key in _VIEWS:
        return _VIEWS[key]
    known = _known_functions()
    out = f
    if known is not None and f.ok:
        fb = ctx.fb()
        cur, done = f, []
        for _ in range(24):
            raw = _inline_one(fb, cur, known, done)
            if raw is None:
                break
            cur = Function(raw)
            if not cur.ok:
                raise AnalysisBroken("%s: splicing in %s produced no CFG" % (short(f.name), done[-1]))
        if done:
            cur.sig = f.sig + "#with:" + ",".join(last(x) for x in done)
            cur.lambdas = list(f.lambdas)
            cur.enclosing = f.enclosing
            cur.followed = done
            # entry lockset of the view = entry lockset of the function itself
            la = ctx.locks()
            la._entry[cur.sig] = la._entry.get(f.sig)
            out = cur
    _VIEWS[key] = out
    return out


def anchors(ctx, r):
    """The rules no longer identify anything through a local NAME: every role is derived from types and dataflow (the BufferView parameter, the
    local used as `data[x++]`, the out-parameter handed to parse(), the view {L.data() + off, L.size() - off}, the WebSocketFrame parameter, the
    WsOpcode field that is assigned, …).  This rule derives them once and shows them; a role that cannot be derived is a refusal (exit 2)."""
    p = wf(ctx, "parse")
    DATA, CUR, CONS = parse_roles(p)
    hb = header_bytes(p, DATA, CUR)
    r.instance()
    r.expect(len(hb) >= 2, p, None, "roles: parse", "header byte locals not found", okdesc="parse: input %s, cursor %s, consumed %s, header bytes %s" % (DATA, CUR, CONS, hb[:2]))
    for cls, file, fnm in ((WS, WSF, "onUpgradedData"), (WC, WCF, "handleData")):
        f = fnc(ctx, cls, fnm, file)
        pl = ParseLoop(f, fnm)
        r.instance()
        if pl.L is None or pl.frame is None or pl.field is None:
            raise AnalysisBroken("%s: the parse loop's buffer / offset / frame variable / source member could not be identified from the parse() call" % last(f.name))
        r.ok("%s: buffer %s (from %s), offset %s, consumed %s, frame %s" % (fnm, pl.L, short(pl.field), pl.off, pl.cons, pl.frame))
    for cls, file in ((WS, WSF), (WC, WCF)):
        for fnm in ("handleFrame", "handleDataFrame"):
            f = fnc(ctx, cls, fnm, file)
            r.instance()
            r.ok("%s::%s: frame parameter %s" % (last(cls), fnm, frame_param(f)))


# ------------------------------------------------------------------ R9: the UTF-8 validator is RFC 3629, decided exactly per sequence

def _rfc3629(c, b1):
    """is (lead byte c, second byte b1) the start of a well-formed sequence, all later bytes being continuation bytes (RFC 3629 section 4)"""
    cont = 0x80 <= b1 <= 0xBF
    if c <= 0x7F:
        return True
    if 0xC2 <= c <= 0xDF:
        return cont
    if c == 0xE0:
        return 0xA0 <= b1 <= 0xBF
    if c == 0xED:
        return 0x80 <= b1 <= 0x9F
    if 0xE1 <= c <= 0xEF:
        return cont
    if c == 0xF0:
        return 0x90 <= b1 <= 0xBF
    if 0xF1 <= c <= 0xF3:
        return cont
    if c == 0xF4:
        return 0x80 <= b1 <= 0x8F
    return False


def r9(ctx, r):
    """One iteration of the validator's loop is a function of the lead byte and the byte after it (later bytes only have to be continuation
    bytes): it is evaluated exactly for all 65536 pairs on the CFG — the conditions are pure integer expressions over the lead byte, the
    sequence length it selects, the inner counter and payload[pos + k] — and compared with the table of RFC 3629.  Length is assumed
    sufficient (the truncation test is taken as false) and bytes after the second as valid continuation bytes."""
    from ..finite import compile_expr, NotPure
    fb = ctx.fb()
    def _sub(x):
        """(buffer expression, index expression) of a subscript — operator[] of a container or the built-in one of a pointer"""
        x = strip_casts(x) if isinstance(x, dict) else None
        if x is not None and x.get("k") == "opcall" and x.get("op") == "[]" and len(x.get("args", [])) == 2:
            return strip_casts(x["args"][0]), strip_casts(x["args"][1])
        if x is not None and x.get("k") == "idx":
            return strip_casts(x["b"]), strip_casts(x["i"])
        return None
    fs = {}
    for f in fb.functions:
        if f.ok and last(f.name) == "isValidUtf8" and "websocket_frame.hpp" in f.file and any(_sub(x) for e in f.stmts() for x in walk(e.node)):
            fs[(f.file, f.line)] = f        # the definition that reads bytes; an overload that only forwards to it reads none
    if len(fs) != 1:
        raise AnalysisBroken("isValidUtf8: %d definitions that read bytes in websocket_frame.hpp" % len(fs))
    f = list(fs.values())[0]
    # roles by dataflow: the lead byte is the byte-typed local initialised from <buffer>[<pos>]; pos is the variable indexing it
    lead = None
    for e in f.stmts():
        if e.node.get("k") == "decl":
            for v in e.node["vars"]:
                i0 = strip_casts(v.get("init")) if isinstance(v.get("init"), dict) else None
                if _sub(i0) and _sub(i0)[1].get("k") == "var" \
                        and (v.get("t") or "").replace("std::", "") in ("unsigned char", "uint8_t", "const unsigned char", "const uint8_t"):
                    if lead is not None:
                        raise AnalysisBroken("isValidUtf8: more than one byte local read from the buffer")
                    lead = (e, v, show(_sub(i0)[0]), _sub(i0)[1]["d"])
    if lead is None:
        raise AnalysisBroken("isValidUtf8: no byte-typed local initialised from buffer[pos] found")
    le, lv, bufs, posd = lead
    ints = {}                     # d -> name of the other integer locals (sequence length, inner counter)
    for e in f.stmts():
        if e.node.get("k") == "decl":
            for v in e.node["vars"]:
                if v["d"] not in (lv["d"], posd) and isinstance(v.get("t"), str):
                    ints[v["d"]] = v["n"]
    names = [lv["n"]] + sorted(set(ints.values())) + ["__b"]

    def prep(n):
        """conditions with buffer[pos + k] replaced by the variable __b (its value is chosen by k at evaluation time); returns (node, k expression or None)"""
        ks = []

        def go(x):
            if isinstance(x, dict):
                x0 = x
                if _sub(x) and show(_sub(x)[0]) == bufs:
                    ix = _sub(x)[1]
                    if ix.get("k") == "bin" and ix.get("op") == "+" and strip_casts(ix["lhs"]).get("k") == "var" and strip_casts(ix["lhs"]).get("d") == posd:
                        ks.append(strip_casts(ix["rhs"]))
                        return {"k": "var", "n": "__b", "t": "unsigned char", "d": -1}
                    raise NotPure("buffer read at `%s`" % show(ix))
                return {kk: go(vv) for kk, vv in x0.items()}
            if isinstance(x, list):
                return [go(y) for y in x]
            return x
        m = go(n)
        if len(ks) > 1:
            raise NotPure("two buffer reads in one condition")
        return m, (ks[0] if ks else None)

    plans = {}
    try:
        for b in f.blocks.values():
            acts = []
            for e in b.elems:
                if e.kind != "stmt" or "root" not in e.raw or e.node is None:
                    continue
                n = e.node
                k = n.get("k")
                if b.cond is not None and (n is b.cond or n.get("id") == b.cond.get("id")):
                    continue
                if k == "ret":
                    acts.append(("ret", const_value(strip_casts(n.get("v") or {}))))
                elif k == "decl":
                    for v in n["vars"]:
                        if v["d"] in ints:
                            acts.append(("set", v["n"], compile_expr(strip_casts(v["init"]), names)[0] if isinstance(v.get("init"), dict) else (lambda *a: 0)))
                elif is_assign(n):
                    lhs, op, rhs = _ap(n)
                    l0 = strip_casts(lhs)
                    if l0.get("k") == "var" and l0.get("d") == posd:
                        acts.append(("next",))
                    elif l0.get("k") == "var" and l0.get("d") in ints and op == "=":
                        acts.append(("set", l0["n"], compile_expr(strip_casts(rhs), names)[0]))
                    else:
                        raise NotPure("assignment `%s`" % show(n)[:40])
                elif k == "un" and "++" in n.get("op", "") and strip_casts(n["v"]).get("k") == "var" and strip_casts(n["v"]).get("d") in ints:
                    nm = strip_casts(n["v"])["n"]
                    acts.append(("set", nm, eval("lambda *a: a[%d] + 1" % names.index(nm))))
                elif k in ("bin", "un", "opcall", "mcall", "var", "member", "cast"):
                    continue      # fragments of conditions
                else:
                    raise NotPure("statement kind %s" % k)
            cond = None
            if b.term and b.term.get("k") == "SwitchStmt" and b.cond is not None:
                m, kx = prep(strip_casts(b.cond))
                labs = []
                for si, sid in enumerate(b.succs):
                    if sid is None:
                        continue
                    lab = b.edge_label(si)
                    cvv = const_value(strip_casts(lab[1])) if isinstance(lab, tuple) else None
                    if isinstance(lab, tuple) and cvv is None:
                        raise NotPure("case label `%s`" % show(lab[1]))
                    labs.append((cvv, sid))
                cond = ("switch", compile_expr(m, names)[0], compile_expr(kx, names)[0] if kx is not None else None, labs)
            elif b.cond is not None and len([x for x in b.succs if x is not None]) == 2:
                c0 = strip_casts(b.cond)
                if any((x.get("k") == "mcall" and last(x.get("callee", "")) in ("size", "length")) or (x.get("k") == "var" and x.get("parm") is not None and "*" not in (x.get("t") or "*")) for x in walk(c0)):
                    mentions_lead_block = any(x.get("k") == "var" and x.get("d") in ints for x in walk(c0))
                    cond = ("size", mentions_lead_block)       # loop test `pos < size()` / truncation test `pos + len > size()`
                else:
                    m, kx = prep(c0)
                    cond = ("expr", compile_expr(m, names)[0], compile_expr(kx, names)[0] if kx is not None else None)
            plans[b.id] = (acts, cond, b.succs)
    except NotPure as ex:
        raise AnalysisBroken("isValidUtf8: outside the pure integer fragment the exact evaluation covers (%s)" % ex)
    start = le.block.id if hasattr(le, "block") else next(b.id for b in f.blocks.values() if le in b.elems)

    def run(c, b1):
        env = {nm: 0 for nm in names}
        env[lv["n"]] = c
        bid = start
        for _ in range(200):
            acts, cond, succs = plans[bid]
            for a in acts:
                vals = [env[nm] for nm in names]
                if a[0] == "ret":
                    return bool(a[1])
                if a[0] == "next":
                    return True
                env[a[1]] = a[2](*vals)
            if cond is None:
                nxt = [x for x in succs if x is not None]
                if len(nxt) != 1:
                    raise AnalysisBroken("isValidUtf8: block B%d has %d successors and no condition" % (bid, len(nxt)))
                bid = nxt[0]
            elif cond[0] == "switch":
                if cond[2] is not None:
                    kk = cond[2](*[env[nm] for nm in names])
                    env["__b"] = b1 if kk == 1 else 0x80
                v = cond[1](*[env[nm] for nm in names])
                hit = [sid for cvv, sid in cond[3] if cvv is not None and cvv == v] or [sid for cvv, sid in cond[3] if cvv is None]
                if len(hit) != 1:
                    raise AnalysisBroken("isValidUtf8: switch in B%d has %d edges for the value %d" % (bid, len(hit), v))
                bid = hit[0]
            elif cond[0] == "size":
                if not cond[1]:
                    raise AnalysisBroken("isValidUtf8: the loop test is reached again before the position is advanced")
                bid = succs[1]                        # enough bytes: the truncation test is false
            else:
                if cond[2] is not None:
                    kk = cond[2](*[env[nm] for nm in names])
                    env["__b"] = b1 if kk == 1 else 0x80
                bid = succs[0] if cond[1](*[env[nm] for nm in names]) else succs[1]
        raise AnalysisBroken("isValidUtf8: one iteration does not end within 200 steps")
    bad = []
    for c in range(256):
        for b1 in range(256):
            got = run(c, b1)
            if got != _rfc3629(c, b1):
                bad.append((c, b1, got))
    r.instance()
    r.expect(not bad, f, le, "UTF-8 table", "isValidUtf8 %s the sequence starting %s (and %d more of the 65536 lead/second-byte pairs differ from RFC 3629): text that is %s"
             % (("accepts" if bad[0][2] else "rejects") if bad else "", "0x%02X 0x%02X" % (bad[0][0], bad[0][1]) if bad else "", max(len(bad) - 1, 0),
                ("not UTF-8 is delivered" if bad[0][2] else "valid UTF-8 is refused with 1007") if bad else ""),
             okdesc="isValidUtf8: one loop iteration evaluated for all 65536 (lead, second byte) pairs = RFC 3629 table 3-7")


def run(ctx, ck):
    r0 = ck.run_rule("C18-R0", "the roles the rules speak about (input view, cursor, consumed, parse-loop buffer/offset, frame parameter) are derived from types and dataflow, not from local names", "role derivation", lambda r: anchors(ctx, r))
    if r0.broken:
        return
    ck.run_rule("C18-R1", "frame decoder stays inside the bytes present; peer length admitted only in subtraction form", "A7 cursor-window abstract interpretation with a symbolic length", lambda r: r1(ctx, r))
    ck.run_rule("C18-R2", "encoder and decoder tables agree (bit masks, length codes/thresholds, byte order, masking)", "A10 table extraction", lambda r: r2(ctx, r))
    ck.run_rule("C18-R3", "every buffer fed by the network is limit-tested before the function returns; overflow ends the session", "A8 + A5", lambda r: r3(ctx, r))
    ck.run_rule("C18-R4", "no data frame after a close frame", "A1 same-section + flag discipline", lambda r: r4(ctx, r))
    ck.run_rule("C18-R5", "protocol reactions: pong, single close echo, UTF-8 on the reassembled message, 1009/1002, fragment order", "A2 + dataflow", lambda r: r5(ctx, r))
    ck.run_rule("C18-R6", "parse loops consume exactly what was framed; remainder order", "A2", lambda r: r6(ctx, r))
    ck.run_rule("C18-R7", "nothing on the data-callback path throws", "A9", lambda r: r7(ctx, r))
    FOLLOWS_HELPERS.clear()
    FOLLOWS_HELPERS.update({"C18-R%d" % i: _FOLLOWS for i in (1, 2, 3, 4, 5, 6, 8)})
    FOLLOWS_HELPERS["C18-R7"] = "walks the call graph from the data callbacks itself: every function reached, known or new, is scanned for throwing primitives"
    ck.run_rule("C18-R8", "a completed message is delivered under the opcode its START frame recorded; `in progress` is never read off the buffer's emptiness; server and client agree", "A5 exact predicate abstraction + A11 sibling tables", lambda r: r8(ctx, r))
    ck.run_rule("C18-R9", "text checked as UTF-8: the validator accepts exactly the well-formed sequences of RFC 3629", "A6 exact finite-domain evaluation of one loop iteration (65536 lead/second-byte pairs) against the RFC table", lambda r: r9(ctx, r))
    if _UNFOLLOWED:
        FOLLOWS_HELPERS.clear()     # something new could not be followed: violations in code that runs through it are refusals (inventory guard)
        ck.extra["functions_not_followed"] = sorted(_UNFOLLOWED)[:20]
