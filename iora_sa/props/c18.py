"""C18 — WebSocket framing round-trips and reassembles under any segmentation (DESIGN.md §2 C18)."""
from ..cfg import search, witness_str, dominated_by_edge, elem_dominates
from ..expr import show, walk, last, field_of, strip_wrappers, strip_casts, short, const_value, is_assign, assign_parts as _ap, strip_views
from ..facts import AnalysisBroken
from ..finite import dominating_facts, flatten_fact
from ..predabs import Vocab, PredAbs, A, Not, And, Or, T, F
from ..rules import common
from ..window import Window, lin, form, show_form, guard_ops, TOP, is_top
from .c13 import arm_elems
from .c15 import asg, key_of, _reach_until_ret

TITLE = "WebSocket framing round-trips and reassembles under any segmentation"
TECHNIQUE = 'cursor-window abstract interpretation of the frame decoder with a symbolic peer length (wrap-aware: wide lengths only through subtraction-form tests); encoder/decoder table extraction; limit-test reachability for every network-fed buffer; must-lockset same-section rule for close-sent; dataflow of the validated/delivered message'
WF = "iora::network::WebSocketFrame"
WS = "iora::network::WebSocketServer"
WC = "iora::network::WebSocketClient"
WFF, WSF, WCF = "iora/network/websocket_frame.hpp", "iora/network/websocket_server.hpp", "iora/network/websocket_client.hpp"
WSM = WS + "::_wsMutex"

EXPLANATION = (
    "Round-trip equality and reassembly under every segmentation quantify over all frames and cuts; decided statically are their structural "
    "necessary conditions. R1 frame decoder bounds: cursor-window abstract interpretation of WebSocketFrame::parse (cursor `pos`, limit "
    "data.size(), symbolic peer length payloadLen admitted only through the subtraction-form test `payloadLen > size - pos`): every byte "
    "read, big-endian read, memcpy, resize and advance is inside the bytes present, so a declared length up to 2^64-1 can neither wrap a "
    "position nor size an allocation beyond the input. R2 encoder and decoder tables agree: FIN/MASK/opcode/length masks, the 125/0xFFFF "
    "thresholds against the 126/127 codes, big-endian byte order of both extended lengths (BufferView::readU16BE/readU64BE index→shift "
    "maps against the encoder's push order), mask applied with i % 4 on both sides, consumed = pos. R3 every buffer that grows with "
    "network bytes (receive buffers, pre-upgrade buffer, fragment buffers) is tested against its limit on every path before the function "
    "returns, and the overflow reaction discards the state / ends the session. R4 no data frame after a close frame: on the server the "
    "closeSent test and the send are one _wsMutex section and every write of closeSent is under _wsMutex; the client's data senders test "
    "a close-sent flag that every CLOSE-emitting path sets. R5 protocol reactions: PING → PONG with the same payload, CLOSE echoed at "
    "most once, TEXT delivered only after isValidUtf8() on the reassembled message (the very bytes delivered), oversize → 1009, unknown "
    "opcode → 1002. R6 the parse loops consume exactly what parse() framed and put the remainder back in front of bytes that arrived "
    "meanwhile. R7 nothing on the data-callback path throws.")
NOT_DECIDED = ["reassembly equality for all fragmentations", "UTF-8 validator correctness against the Unicode tables", "incomplete vs protocol error are both nullopt (a malformed control frame parks the connection until the buffer cap)",
               "liveness of the peer after our close frame"]


def wf(ctx, name):
    fs = [f for f in ctx.fb().funcs(WF + "::" + name, WFF) if f.ok]
    if len(fs) != 1:
        raise AnalysisBroken("WebSocketFrame::%s: %d definitions" % (name, len(fs)))
    return fs[0]


def fnc(ctx, cls, name, file, nparams=None):
    fs = [f for f in ctx.fb().funcs(cls + "::" + name, file) if f.ok and (nparams is None or len(f.params) == nparams)]
    if len(fs) != 1:
        raise AnalysisBroken("%s::%s: %d definitions" % (short(cls), name, len(fs)))
    return fs[0]


def r1(ctx, r):
    f = wf(ctx, "parse")
    CUR, SIZES = "pos", {"data.size()"}
    floor = 0
    for b in f.blocks.values():
        cp = common.cmp_parts(b.cond) if b.cond is not None else None
        if cp and show(strip_casts(cp[1])) == "data.size()" and cp[0] == "<" and const_value(cp[2]) is not None:
            floor = max(floor, const_value(cp[2]))

    # lengths as wide as the cursor that come from the input: admitted only through the subtraction-form test
    wide = set()
    for e in f.stmts():
        a = asg(e.node)
        cands = []
        if a and key_of(a[0]):
            cands.append((strip_casts(a[0]), a[1]))
        if e.node.get("k") == "decl":
            cands += [({"n": v["n"], "t": v.get("t")}, v["init"]) for v in e.node["vars"] if v.get("init") is not None]
        for (lhs, rhs) in cands:
            if ("long" in (lhs.get("t") or "")) and any(t_ in show(rhs) for t_ in ("data.read", "data[")):
                wide.add(lhs["n"])

    def edge(c, truth):
        def extra(x, t):
            cp = common.cmp_parts(strip_casts(x))
            if not cp:
                return None
            op, l, rr = cp
            if not t:
                op = {"<": ">=", ">=": "<", ">": "<=", "<=": ">", "==": "!=", "!=": "=="}[op]
            # X <= size - pos  (X a local length): avail >= X
            rs = strip_casts(rr)
            if op in ("<=", "<") and rs.get("k") == "bin" and rs.get("op") == "-" and show(strip_casts(rs["lhs"])) in SIZES and key_of(rs["rhs"]) == CUR and key_of(l):
                return [("atleast", form(1 if op == "<" else 0, (key_of(l),)))]
            ls = strip_casts(l)
            if op in (">=", ">") and ls.get("k") == "bin" and ls.get("op") == "-" and show(strip_casts(ls["lhs"])) in SIZES and key_of(ls["rhs"]) == CUR and key_of(rr):
                return [("atleast", form(1 if op == ">" else 0, (key_of(rr),)))]
            return None
        return guard_ops(c, truth, CUR, SIZES, extra, None, wide)

    def sym_of(n):
        n = strip_casts(n)
        return key_of(n)

    def elem(e):
        if e.kind != "stmt":
            return None
        n = e.node
        k = n.get("k")
        ops = []
        if k == "decl":
            for v in n["vars"]:
                if v["n"] == CUR:
                    ops.append(("reset", form(floor) if const_value(strip_casts(v.get("init") or {})) == 0 else None))
                else:
                    ops.append(("kill", v["n"]))
        elif k == "un" and n.get("op") == "post++" and key_of(n["v"]) == CUR:
            ops.append(("adv", form(1), "data[pos++]"))
        elif k == "un" and n.get("op") in ("++", "pre++") and key_of(n["v"]) == CUR:
            ops.append(("adv", form(1), "++pos"))
        elif k == "bin" and n.get("op") == "+=" and key_of(n["lhs"]) == CUR:
            fm = lin(n["rhs"])
            ops.append(("adv", fm, "pos += %s" % show(n["rhs"])) if fm is not None else ("need", TOP, "pos += %s" % show(n["rhs"])))
        elif k in ("bin", "opcall") and is_assign(n) and key_of(_ap(n)[0]) == CUR:
            ops.append(("need", TOP, "pos re-based"))
        elif k in ("bin", "opcall") and is_assign(n) and key_of(_ap(n)[0]):
            ops.append(("kill", key_of(_ap(n)[0])))
        elif k == "opcall" and n.get("op") == "[]" and key_of(n["args"][0]) == "data":
            idx = strip_casts(n["args"][1])
            if not (idx.get("k") == "un" and idx.get("op") == "post++"):
                fm = lin(idx)
                ops.append(("need", form(fm[0] + 1, [s for s in fm[1] if s != CUR]) if fm is not None and list(fm[1]).count(CUR) == 1 else TOP, "data[%s]" % show(idx)))
        elif k == "mcall" and key_of(n.get("obj")) == "data" and last(n.get("callee", "")) in ("readU16BE", "readU16LE", "readU32BE", "readU32LE", "readU64BE", "readU64LE"):
            w = {"16": 2, "32": 4, "64": 8}[last(n["callee"])[5:7]]
            fm = lin(n["args"][0])
            ops.append(("need", form(fm[0] + w, [s for s in fm[1] if s != CUR]) if fm is not None and list(fm[1]).count(CUR) == 1 else TOP, "data.%s(%s)" % (last(n["callee"]), show(n["args"][0]))))
        elif k == "call" and last(n.get("callee", "")) in ("memcpy", "memmove") and len(n["args"]) == 3:
            src = lin(n["args"][1])
            ln = lin(n["args"][2])
            if src is not None and "data.data()" in src[1]:
                rest = form(src[0], [s for s in src[1] if s not in (CUR, "data.data()")])
                ops.append(("need", form(rest[0] + ln[0], list(rest[1]) + list(ln[1])) if ln is not None and list(src[1]).count(CUR) == 1 else TOP, "memcpy(…, data.data() + pos, %s)" % show(n["args"][2])))
        elif k == "mcall" and last(n.get("callee", "")) in ("resize", "reserve", "assign") and "payload" in show(n.get("obj") or {}) and n.get("args"):
            ln = lin(n["args"][0])
            ops.append(("need", ln if ln is not None else TOP, "payload.%s(%s) within the bytes present" % (last(n["callee"]), show(n["args"][0]))))
        return ops or None
    w = Window(f, edge, elem, init=None)
    nreq = len(w.checked) + len(w.violations)
    if nreq < 11:
        raise AnalysisBroken("WebSocketFrame::parse: only %d reads/advances recognised (floor 11)" % nreq)
    r.instance(nreq)
    for (e, what) in w.checked:
        r.ok("parse: %s inside the input" % what)
    for (e, need, have, what) in w.violations:
        r.fail(f, e, "outside input: %s" % what.split(" within")[0], "WebSocketFrame::parse performs `%s`, which needs %s byte(s) after the cursor, but only %s known to be present on some path: a crafted header "
               "(e.g. a 64-bit length of 2^64-1) reads outside the buffer, wraps the position or sizes an allocation by a peer-chosen number (length_error/bad_alloc on the I/O thread)"
               % (what, show_form(need) if not is_top(need) else "a bound the analysis cannot establish", show_form(have)))
    # consumed = pos on the success path; 0 on nullopt paths
    cons = [e for e in f.stmts() if asg(e.node) and key_of(asg(e.node)[0]) == "consumed"]
    rets = common.returns(f)
    r.instance()
    okc = any(key_of(asg(e.node)[1]) == "pos" for e in cons) and any(const_value(strip_casts(asg(e.node)[1])) == 0 and e.block.id == [b for b in f.blocks.values() if f.entry in b.preds or b.id == f.entry][0].id or const_value(strip_casts(asg(e.node)[1])) == 0 for e in cons)
    r.expect(okc, f, None, "consumed", "parse does not report consumed = pos (and 0 before anything was parsed)", okdesc="consumed = 0 initially, = pos on success")
    # unmask loop index bounded by the payload size
    loopb = [b for b in f.blocks.values() if b.cond is not None and common.cmp_parts(b.cond) and common.cmp_parts(b.cond)[0] == "<" and "payload.size()" in show(common.cmp_parts(b.cond)[2])]
    r.instance()
    r.expect(len(loopb) == 1, f, None, "unmask loop", "the unmask loop is not bounded by payload.size()", okdesc="unmask loop i < payload.size()")


def be_map(f):
    """{byte index offset: shift} of a big-endian read"""
    out = {}
    rets = common.returns(f)
    if len(rets) != 1:
        return None
    for x in walk(rets[0].node):
        if x.get("k") == "bin" and x.get("op") == "<<":
            idx = [y for y in walk(x["lhs"]) if y.get("k") == "idx" or (y.get("k") == "opcall" and y.get("op") == "[]")]
            sh = const_value(strip_casts(x["rhs"]))
            if len(idx) == 1 and sh is not None:
                ie = idx[0].get("i") or idx[0].get("index") or (idx[0].get("args") or [None, None])[1]
                fm = lin(ie) if ie is not None else None
                if fm is not None:
                    out[fm[0]] = sh
    # the unshifted last byte
    for x in walk(rets[0].node):
        if x.get("k") == "idx" or (x.get("k") == "opcall" and x.get("op") == "[]"):
            ie = x.get("i") or x.get("index") or (x.get("args") or [None, None])[1]
            fm = lin(ie) if ie is not None else None
            if fm is not None and fm[0] not in out:
                out[fm[0]] = 0
    return out


def consts_in(n):
    return [const_value(x) for x in walk(n) if x.get("k") in ("int", "char") and const_value(x) is not None]


def r2(ctx, r):
    fb = ctx.fb()
    p, s = wf(ctx, "parse"), wf(ctx, "serialize")
    # decoder masks
    dec = {}
    for e in p.stmts():
        n = e.node
        for x in walk(n):
            if x.get("k") == "bin" and x.get("op") == "&" and key_of(x["lhs"]) in ("byte0", "byte1") and const_value(strip_casts(x["rhs"])) is not None:
                dec.setdefault(key_of(x["lhs"]), set()).add(const_value(strip_casts(x["rhs"])))
    r.instance()
    r.expect(dec.get("byte0", set()) >= {0x80, 0x0F} and dec.get("byte1") == {0x80, 0x7F}, p, None, "decoder bit masks", "parse extracts FIN/opcode/MASK/length with masks %s (expected byte0 & 0x80, & 0x0F; byte1 & 0x80, & 0x7F)"
             % {k: sorted(hex(v) for v in vs) for k, vs in dec.items()}, okdesc="decoder masks: FIN 0x80, opcode 0x0F, MASK 0x80, length 0x7F")
    codes = {}
    for b in p.blocks.values():
        cp = common.cmp_parts(b.cond) if b.cond is not None else None
        if cp and cp[0] == "==" and key_of(cp[1]) == "payloadLen" and const_value(cp[2]) is not None:
            arm = _reach_until_ret(p, b.succs[0])[:12]
            rd = [last(x.node["callee"]) for x in arm if x.kind == "stmt" and x.node.get("k") == "mcall" and last(x.node.get("callee", "")).startswith("readU")]
            adv = [const_value(strip_casts(x.node["rhs"])) for x in arm if x.kind == "stmt" and x.node.get("k") == "bin" and x.node.get("op") == "+=" and key_of(x.node["lhs"]) == "pos"]
            codes[const_value(cp[2])] = (rd[0] if rd else None, adv[0] if adv else None)
    r.instance()
    r.expect(codes == {126: ("readU16BE", 2), 127: ("readU64BE", 8)}, p, None, "decoder length codes", "parse maps the length codes to %s (RFC 6455: 126 → 16-bit big-endian, 127 → 64-bit big-endian)" % codes, okdesc="126 → readU16BE(+2), 127 → readU64BE(+8)")
    # big-endian readers
    for nm, width in (("readU16BE", 2), ("readU64BE", 8)):
        g = [x for x in fb.funcs("iora::core::BufferView::" + nm) if x.ok]
        r.instance()
        m = be_map(g[0]) if len(g) == 1 else None
        want = {k: 8 * (width - 1 - k) for k in range(width)}
        r.expect(m == want, g[0] if g else WF, None, "byte order: %s" % nm, "BufferView::%s combines bytes as %s (big-endian is %s)" % (nm, m, want), okdesc="%s is big-endian" % nm)
    # encoder thresholds and codes
    thr = {}
    size_alias = {v["n"] for x in s.stmts() if x.node.get("k") == "decl" for v in x.node["vars"] if v.get("init") is not None and show(strip_casts(v["init"])) in ("payload.size()", "this->payload.size()")}
    for b in s.blocks.values():
        cp = common.cmp_parts(b.cond) if b.cond is not None else None
        if cp and cp[0] in ("<=", "<") and ("payload.size()" in show(cp[1]) or key_of(cp[1]) in size_alias) and const_value(cp[2]) is not None:
            limit = const_value(cp[2]) - (1 if cp[0] == "<" else 0)
            arm = s.blocks[b.succs[0]].elems
            code = [const_value(strip_casts(x.node["rhs"])) for x in arm if x.kind == "stmt" and x.node.get("k") == "bin" and x.node.get("op") == "|=" and key_of(x.node["lhs"]) == "byte1" and const_value(strip_casts(x.node["rhs"])) is not None]
            pushes = [x for x in arm if x.kind == "stmt" and x.node.get("k") == "mcall" and last(x.node.get("callee", "")) == "push_back"]
            thr[limit] = (code[0] if code else None, len(pushes))
    if not thr:
        raise AnalysisBroken("serialize: no comparison of the payload size with a constant found (length-form selection has another shape)")
    r.instance()
    r.expect(set(thr) == {125, 0xFFFF} and thr.get(125, (1,))[0] is None and thr.get(0xFFFF, (None,))[0] == 126, s, None, "encoder thresholds", "serialize chooses the length form with thresholds/codes %s (expected <=125 inline, <=0xFFFF code 126, else 127)" % thr,
             okdesc="<=125 inline; <=0xFFFF → 126; else 127")
    c127 = [x for x in s.stmts() if x.node.get("k") == "bin" and x.node.get("op") == "|=" and key_of(x.node["lhs"]) == "byte1" and const_value(strip_casts(x.node["rhs"])) == 127]
    r.instance()
    r.expect(len(c127) == 1, s, None, "64-bit length code", "serialize does not use code 127 for the 64-bit form", okdesc="else-arm → 127")
    # encoder byte order: 16-bit arm pushes >>8 then >>0; 64-bit loop i = 7..0, >> (i*8)
    b16 = [b for b in s.blocks.values() if any(x.kind == "stmt" and x.node.get("k") == "bin" and x.node.get("op") == "|=" and const_value(strip_casts(x.node["rhs"])) == 126 for x in b.elems)]
    r.instance()
    ok = False
    if len(b16) == 1:
        sh = []
        for x in b16[0].elems:
            if x.kind == "stmt" and x.node.get("k") == "mcall" and last(x.node.get("callee", "")) == "push_back" and "root" in x.raw and ("payload.size()" in show(x.node) or any(y.get("k") == "var" and y["n"] in size_alias for y in walk(x.node))):
                sx = [const_value(strip_casts(y["rhs"])) for y in walk(x.node) if y.get("k") == "bin" and y.get("op") == ">>"]
                sh.append(sx[0] if sx else 0)
        ok = sh == [8, 0]
    r.expect(ok, s, None, "16-bit length byte order", "the 16-bit extended length is not written most-significant byte first", okdesc="16-bit length: >>8, then low byte")
    lp = [b for b in s.blocks.values() if b.cond is not None and b.term.get("k") == "ForStmt" and common.cmp_parts(b.cond) and common.cmp_parts(b.cond)[0] == ">=" and const_value(common.cmp_parts(b.cond)[2]) == 0]
    r.instance()
    ok = False
    if len(lp) == 1:
        iv = key_of(common.cmp_parts(lp[0].cond)[1])
        init = [v for x in s.stmts() if x.node.get("k") == "decl" for v in x.node["vars"] if v["n"] == iv and const_value(strip_casts(v.get("init") or {})) == 7]
        dec_ = [x for x in s.stmts() if x.node.get("k") == "un" and "--" in x.node.get("op", "") and key_of(x.node["v"]) == iv]
        body = [x for x in s.blocks[lp[0].succs[0]].elems if x.kind == "stmt" and x.node.get("k") == "mcall" and last(x.node.get("callee", "")) == "push_back"]
        shift_ok = bool(body) and any(y.get("k") == "bin" and y.get("op") == ">>" and strip_casts(y["rhs"]).get("k") == "bin" and strip_casts(y["rhs"]).get("op") == "*" and
                                      {key_of(strip_casts(y["rhs"])["lhs"]), const_value(strip_casts(strip_casts(y["rhs"])["rhs"]))} == {iv, 8} for y in walk(body[0].node))
        ok = bool(init) and len(dec_) == 1 and shift_ok
    r.expect(ok, s, None, "64-bit length byte order", "the 64-bit extended length is not written as eight bytes from shift 56 down to 0", okdesc="64-bit length: i = 7…0, >> (i*8)")
    # FIN / MASK bits on the encoder side
    fin = [x for x in s.stmts() if x.node.get("k") == "bin" and x.node.get("op") == "|=" and key_of(x.node["lhs"]) == "byte0"]
    msk = [v for x in s.stmts() if x.node.get("k") == "decl" for v in x.node["vars"] if v["n"] == "byte1"]
    r.instance()
    r.expect(len(fin) == 1 and const_value(strip_casts(fin[0].node["rhs"])) == 0x80 and msk and 0x80 in consts_in(msk[0]["init"]) and 0 in consts_in(msk[0]["init"]), s, None, "encoder bit masks",
             "serialize does not set FIN as 0x80 of byte 0 and MASK as 0x80 of byte 1", okdesc="encoder: FIN 0x80, MASK 0x80")
    # opcode fits the low nibble
    en = fb.enums.get("iora::network::WsOpcode")
    r.instance()
    r.expect(en is not None and all(0 <= v["v"] <= 0x0F for v in en["values"]), WF, None, "opcode range", "a WsOpcode enumerator does not fit the 4-bit opcode field", okdesc="all opcodes <= 0x0F")
    # masking index on both sides
    for f, what in ((p, "decoder"), (s, "encoder")):
        mk = [y for x in f.stmts() for y in walk(x.node) if y.get("k") in ("idx", "opcall") and "maskKey[" in show(y) and "%" in show(y)]
        r.instance()
        r.expect(bool(mk) and all("% 4" in show(y) for y in mk), f, None, "mask index (%s)" % what, "the %s does not apply the mask key with index i %% 4" % what, okdesc="%s: maskKey[i %% 4]" % what)
    # key bytes written/read in the same order 0..3
    for f, what in ((p, "decoder"), (s, "encoder")):
        ks = [const_value(strip_casts(y.get("i") or (y.get("args") or [None, None])[1])) for x in sorted(f.stmts(), key=lambda e: (e.line, e.idx)) if "root" in x.raw for y in walk(x.node)
              if (y.get("k") == "idx" or (y.get("k") == "opcall" and y.get("op") == "[]")) and show(y).startswith(("frame.maskKey[", "maskKey[")) and const_value(strip_casts(y.get("i") or (y.get("args") or [None, None])[1])) is not None]
        r.instance()
        r.expect(ks == [0, 1, 2, 3], f, None, "mask key order (%s)" % what, "the %s handles the mask key bytes in order %s" % (what, ks), okdesc="%s: key bytes 0,1,2,3" % what)


def grow_sites(f, names):
    """elements that grow/assign one of the named buffers (by trailing field/variable name)"""
    out = []
    for e in f.stmts():
        n = e.node
        if n.get("k") == "mcall" and last(n.get("callee", "")) in ("insert", "append", "push_back", "emplace_back", "resize") and any(show(strip_casts(n.get("obj") or {})).endswith(x) for x in names):
            out.append(e)
        a = asg(n)
        if a and any(show(strip_casts(a[0])).endswith(x) for x in names) and show(strip_views(a[1])) not in ("", ):
            rhs = strip_wrappers(strip_casts(a[1]))
            # assignments that shrink/replace with something bounded elsewhere are not growth: clear/move-out are separate calls
            if not (rhs.get("k") == "ctor" and not [x for x in rhs.get("args", []) if not x.get("def")]):
                out.append(e)
    return out


def limit_blocks(f, limit_words):
    """blocks of the limit test: the comparison against the configured maximum and the other conjuncts on the same quantity"""
    core = [b for b in f.blocks.values() if b.cond is not None and common.cmp_parts(b.cond) and common.cmp_parts(b.cond)[0] in (">", ">=") and any(w in show(b.cond) for w in limit_words)]
    qty = set()
    for b in core:
        for x in walk(common.cmp_parts(b.cond)[1]):
            if x.get("k") == "var":
                qty.add(x["n"])
    more = [b for b in f.blocks.values() if b.cond is not None and b not in core and common.cmp_parts(b.cond) and any(x.get("k") == "var" and x["n"] in qty for x in walk(b.cond))]
    # a bool local assigned from a limit comparison, tested later
    flags = set()
    for e in f.stmts():
        cands = []
        if e.node.get("k") == "decl":
            cands = [(v["n"], v["init"]) for v in e.node["vars"] if v.get("init") is not None]
        a = asg(e.node)
        if a and key_of(a[0]):
            cands.append((key_of(a[0]), a[1]))
        for (nme, rhs) in cands:
            if any(common.cmp_parts(x) and common.cmp_parts(x)[0] in (">", ">=") and any(w in show(x) for w in limit_words) for x in walk(rhs)):
                flags.add(nme)
    fl = [b for b in f.blocks.values() if b.cond is not None and b not in core and b not in more and any(x.get("k") == "var" and x["n"] in flags for x in walk(b.cond))]
    return core + more + fl


def r3(ctx, r):
    specs = [
        # (function, buffers, what counts as the limit, label)
        (fnc(ctx, WS, "onUpgradedData", WSF), (".buffer", "buf"), ("_maxFrameSize",), "server receive buffer"),
        (fnc(ctx, WS, "handleDataFrame", WSF), ("fragmentBuffer",), ("_maxFrameSize",), "server fragment buffer"),
        (fnc(ctx, WC, "handleData", WCF), ("_buffer",), ("maxFrameSize", "kMax", "Max"), "client receive buffer"),
        (fnc(ctx, WC, "handleDataFrame", WCF), ("_fragmentBuffer",), ("maxFrameSize",), "client fragment buffer"),
    ]
    for (f, names, words, label) in specs:
        grows = grow_sites(f, names)
        lims = limit_blocks(f, words)
        if not grows:
            raise AnalysisBroken("%s: no growth site of %s found" % (last(f.name), names))
        for e in grows:
            r.instance()
            # transient: appended, moved out to a local and cleared inside the same block (critical section) — nothing persists
            objt = show(strip_casts(e.node.get("obj") or (asg(e.node) or [{}])[0] or {}))
            if e.node.get("k") == "mcall" and any(x.kind == "stmt" and x.node.get("k") == "mcall" and last(x.node.get("callee", "")) == "clear" and show(strip_casts(x.node.get("obj") or {})) == objt for x in e.block.elems[e.idx + 1:]):
                r.ok("%s: `%s` is moved out and cleared in the same critical section" % (last(f.name), show(e.node)[:40]))
                continue
            # a growth of persistent state must be followed by a limit test before the function returns normally,
            # unless the element itself lies behind a limit test that already covers the new size
            w = search(f, e, "exit", stop=lambda x: any(x.block is b for b in lims), eh=False)
            behind = bool(lims) and search(f, ("entry",), lambda x, e=e: x is e, stop=lambda x: any(x.block is b for b in lims), eh=False) is None
            r.expect(w is None or behind, f, e, "unbounded buffer: %s" % label, "%s grows the %s (`%s`) and can return without the accumulated size having been compared with the configured maximum: a peer that keeps sending "
                     "(an endless header, endless CONTINUATION frames, a frame that never completes) makes the endpoint buffer without bound" % (short(f.name), label, show(e.node)[:60]), witness=witness_str(f, w),
                     okdesc="%s: `%s` followed by a limit test" % (last(f.name), show(e.node)[:40]))
    # the receive-buffer bound is applied to the UNPARSED REMAINDER (one incomplete frame), never to bytes that may still contain
    # complete frames: the compared quantity is `size - offset` taken after the parse loop
    for (f, label) in ((fnc(ctx, WS, "onUpgradedData", WSF), "server"), (fnc(ctx, WC, "handleData", WCF), "client")):
        ps = [e for e in f.stmts() if e.node.get("k") in ("call", "mcall") and last(e.node.get("callee", "")) == "parse" and "WebSocketFrame" in e.node.get("callee", "")]
        cmps = []
        for e in f.stmts():
            if "root" not in e.raw:
                continue
            for x in walk(e.node):
                cp = common.cmp_parts(x)
                if cp and cp[0] in (">", ">=") and any(w_ in show(cp[2]) for w_ in ("_maxFrameSize", "maxFrameSize")) and "Upgrade" not in show(x):
                    cmps.append((e, x))
        for b_ in f.blocks.values():
            if b_.cond is not None:
                for x in walk(b_.cond):
                    cp = common.cmp_parts(x)
                    if cp and cp[0] in (">", ">=") and any(w_ in show(cp[2]) for w_ in ("_maxFrameSize", "maxFrameSize")) and "Upgrade" not in show(x) and not any(x is y for _, y in cmps):
                        cmps.append((b_.elems[-1] if b_.elems else None, x))
        r.instance()
        if not ps or not cmps:
            raise AnalysisBroken("%s: parse call / frame-size limit comparison not found" % last(f.name))
        ok, why, where = True, "", None
        for (e, x) in cmps:
            lhs = common.cmp_parts(x)[1]
            q = [y["n"] for y in walk(lhs) if y.get("k") == "var"]
            direct = [y for y in walk(lhs) if y.get("k") == "mcall" and last(y.get("callee", "")) == "size"]
            if direct:
                ok, why, where = False, "it compares `%s` — the size of the whole buffer" % show(lhs)[:50], e
                break
            qd = [(d, v) for d in f.stmts() if d.node.get("k") == "decl" for v in d.node["vars"] if q and v["n"] == q[0]]
            if len(qd) != 1 or qd[0][1].get("init") is None:
                raise AnalysisBroken("%s: the quantity compared with the frame-size limit (`%s`) is not a single initialised local" % (last(f.name), show(lhs)[:40]))
            i = strip_casts(qd[0][1]["init"])
            if not (i.get("k") == "bin" and i.get("op") == "-" and "size()" in show(i["lhs"]) and key_of(i["rhs"]) == "offset"):
                ok, why, where = False, "`%s` is `%s`, not the size of the unparsed remainder (size() - offset)" % (q[0], show(i)[:50]), e
                break
            if search(f, qd[0][0], lambda y: y is ps[0], eh=False) is not None:
                ok, why, where = False, "`%s` is computed before the parse loop has consumed the complete frames" % q[0], e
                break
        r.expect(ok, f, where, "%s oversize bound on parsed bytes" % label, "%s compares the frame-size limit with a quantity that can include complete frames (%s): a valid stream whose frames "
                 "arrive coalesced in one read is closed with 1009 although every frame is within the limit — delivery depends on how the stream was cut into reads" % (last(f.name), why),
                 okdesc="%s: limit applied to the unparsed remainder after parsing" % label)
    # per-session state is released when the transport reports the connection closed (no CLOSE frame needed)
    fb = ctx.fb()
    HSrv, HSFile = "iora::network::HttpServer", "iora/network/http_server.hpp"
    starts = [g for g in fb.funcs(HSrv + "::start", HSFile) if g.ok]
    hook_calls, lam_fn = [], None
    for g in starts:
        for (ln, lf) in g.lambdas:
            par = g.nodes.get(g.parent.get(ln.get("id")))
            hops = 0
            while par is not None and par.get("k") not in ("mcall", "call") and hops < 6:
                par = g.nodes.get(g.parent.get(par.get("id")))
                hops += 1
            if par is not None and par.get("k") == "mcall" and last(par.get("callee", "")) == "onClose" and "Transport" in par.get("callee", "") and lf.ok:
                lam_fn = lf
                hook_calls = [e for e in lf.stmts() if e.node.get("k") == "mcall" and e.node.get("virt") and (e.node.get("callee") or "").startswith(HSrv + "::")]
    r.instance()
    if lam_fn is None:
        raise AnalysisBroken("HttpServer::start: transport onClose callback not found")
    overrides = [g for g in fb.methods_of(WS) if g.ok and hook_calls and last(g.name) == last(hook_calls[0].node["callee"])]
    okh = len(hook_calls) == 1 and len(overrides) == 1
    if okh:
        la = ctx.locks()
        ov = overrides[0]
        er = [e for e in ov.stmts() if e.node.get("k") == "mcall" and last(e.node.get("callee", "")) == "erase" and field_of(strip_casts(e.node.get("obj"))) == WS + "::_sessions"]
        okh = len(er) == 1 and la.holds(ov, er[0], WSM) and not la.mutexes(lam_fn, hook_calls[0])
    r.expect(okh, lam_fn, hook_calls[0] if hook_calls else None, "session state kept after the connection closed", "when the transport reports an upgraded connection closed, nothing tells WebSocketServer: its per-session state "
             "(receive and fragment buffers, up to maxFrameSize each) stays forever and the application never sees onClose — a peer that connects, sends most of a large frame and drops the connection grows server memory without bound",
             okdesc="transport close → virtual hook (no lock held) → WebSocketServer erases _sessions[sid] under _wsMutex")
    # the overflow reaction ends the session / discards the state
    for (f, label, flag) in ((fnc(ctx, WS, "handleDataFrame", WSF), "server fragment buffer", "tooLarge"), (fnc(ctx, WC, "handleDataFrame", WCF), "client fragment buffer", "tooLarge")):
        flags = [v for e in f.stmts() if e.node.get("k") == "decl" for v in e.node["vars"] if v["n"] == flag]
        r.instance()
        if not flags:
            r.fail(f, None, "overflow reaction: %s" % label, "%s has no overflow flag/reaction for the %s" % (short(f.name), label))
            continue
        term = [e for e in f.stmts() if (e.node.get("k") == "mcall" and last(e.node.get("callee", "")) in ("closeSession", "disconnect", "erase", "clear") and
                                         (last(e.node.get("callee", "")) in ("closeSession", "disconnect") or "_sessions" in show(e.node.get("obj") or {}) or "ragmentBuffer" in show(e.node.get("obj") or {})))]
        vocab = Vocab(["big", "done"])

        def leaf(n, flag=flag):
            if n.get("k") == "var" and n["n"] == flag:
                return A("big")
            return None

        def effects(e, flag=flag, term=term):
            if e in term and last(e.node.get("callee", "")) in ("closeSession", "disconnect"):
                return [("set", "done", True)]
            if e.kind != "stmt":
                return None
            a = asg(e.node)
            if a and key_of(a[0]) == flag:
                cv = const_value(strip_casts(a[1]))
                return [("set", "big", bool(cv))] if cv is not None else [("havoc", "big")]
            if e.node.get("k") == "decl":
                for v in e.node["vars"]:
                    if v["n"] == flag:
                        return [("set", "big", bool(const_value(strip_casts(v.get("init") or {}))))]
            return None
        pa = PredAbs(f, vocab, leaf, effects, init=Not(A("done")), eh=False)
        r.expect(pa.exit_entails(Or(Not(A("big")), A("done"))), f, None, "overflow reaction: %s" % label, "after the %s exceeded its limit %s returns without ending the session (closeSession/disconnect): the buffer is kept and "
                 "every further CONTINUATION frame grows it again — unbounded buffering for a peer that ignores the 1009 close" % (label, short(f.name)), okdesc="%s overflow → session ended" % label)


def r4(ctx, r):
    fb, la = ctx.fb(), ctx.locks()
    common.guarded_by(r, fb, la, WS + "::WsSessionState::closeSent", WSM, files=[WSF])
    common.guarded_by(r, fb, la, WS + "::_sessions", WSM, files=[WSF])
    r.floor(12, "guarded access sites")
    for nm in ("sendText", "sendBinary", "sendPing"):
        f = fnc(ctx, WS, nm, WSF)
        tests = [b for b in f.blocks.values() if b.cond is not None and "closeSent" in show(b.cond)]
        sends = [e for e in f.stmts() if e.node.get("k") == "mcall" and last(e.node.get("callee", "")) in ("sendRaw", "sendRawForSse", "sendAsync")]
        r.instance()
        ok = len(sends) == 1 and len(tests) >= 1
        if ok:
            te = tests[-1].elems[-1] if tests[-1].elems else None
            ok = te is not None and la.holds(f, sends[0], WSM) and la.holds(f, te, WSM) and search(f, te, lambda x: x is sends[0], stop=lambda x: not la.holds(f, x, WSM), eh=False) is not None and \
                search(f, te, lambda x: x is sends[0], eh=False, edge_ok=lambda b, si: True) is not None
            # no path from the test to the send leaves the critical section
            ok = ok and all(la.holds(f, x, WSM) for x in f.stmts() if search(f, te, lambda y, x=x: y is x, eh=False) is not None and search(f, x, lambda y: y is sends[0], eh=False) is not None)
            # the send is behind the `!closeSent` edge
            ok = ok and dominated_by_edge(f, sends[0], tests[-1], 1, eh=False)
        r.expect(ok, f, sends[0] if sends else None, "closeSent test and send not atomic: %s" % nm, "WebSocketServer::%s does not test closeSent and hand the frame to the transport inside one _wsMutex critical section: a CLOSE sent by another "
                 "thread between the test and the send is followed by this data frame on the wire" % nm, okdesc="%s: closeSent test + sendRaw in one _wsMutex section" % nm)
    # inbound CLOSE echo: flag set and echo sent in one section, guarded by !closeSent
    hf = fnc(ctx, WS, "handleFrame", WSF)
    sets = [e for e in hf.stmts() if asg(e.node) and show(strip_casts(asg(e.node)[0])).endswith("closeSent") and const_value(strip_casts(asg(e.node)[1])) == 1]
    r.instance()
    ok = len(sets) == 1
    if ok:
        gate = [b for b in hf.blocks.values() if b.cond is not None and "closeSent" in show(b.cond)]
        snd = [e for e in hf.stmts() if e.node.get("k") == "mcall" and last(e.node.get("callee", "")) == "sendRaw" and search(hf, sets[0], lambda x, e=e: x is e, stop=lambda x: not la.holds(hf, x, WSM), eh=False) is not None]
        ok = len(gate) == 1 and len(snd) == 1
        if ok:
            gc, gst, gsf = common.branch(gate[0])
            if gc is not None and gc.get("k") != "bin" and gsf is not None and gst != gsf:
                # a plain test of the flag: the set + send sit on its `not yet sent` side
                ok = dominated_by_edge(hf, sets[0], gate[0], gate[0].succs.index(gsf), eh=False)
            else:
                ok = dominated_by_edge(hf, sets[0], gate[0], 0, eh=False) and any(x.get("k") == "un" and x.get("op") == "!" and "closeSent" in show(x["v"]) for x in walk(gate[0].cond))
    r.expect(ok, hf, sets[0] if sets else None, "close echo", "the inbound-CLOSE echo does not set closeSent and send the echo inside one _wsMutex section guarded by !closeSent (a second CLOSE would be echoed again / a data frame could slip in between)",
             okdesc="CLOSE echo: !closeSent → set + send, one section")
    sc = fnc(ctx, WS, "sendClose", WSF)
    st = [e for e in sc.stmts() if asg(e.node) and show(strip_casts(asg(e.node)[0])).endswith("closeSent")]
    snd = [e for e in sc.stmts() if e.node.get("k") == "mcall" and last(e.node.get("callee", "")) == "sendRaw"]
    r.instance()
    r.expect(len(st) == 1 and len(snd) == 1 and la.holds(sc, st[0], WSM) and search(sc, snd[0], lambda x: x is st[0], eh=False) is None and search(sc, st[0], lambda x: x is snd[0], eh=False) is not None, sc, None, "sendClose order",
             "sendClose hands the CLOSE frame to the transport before closeSent is set under _wsMutex", okdesc="sendClose: flag set (under _wsMutex) before the CLOSE is sent")
    # client: every CLOSE-emitting path sets a close-sent flag that the data senders test
    closers = []
    for f in fb.in_file(WCF):
        if not f.ok or not f.name.startswith(WC + "::"):
            continue
        for e in f.stmts():
            if e.node.get("k") in ("call", "mcall") and last(e.node.get("callee", "")) == "makeClose":
                closers.append((f, e))
    if not closers:
        raise AnalysisBroken("WebSocketClient: no CLOSE-emitting site found")
    rec = fb.record(WC)
    flags = [x["n"] for x in (rec.get("fields") if rec else []) if "lose" in x["n"] and ("ent" in x["n"] or "ending" in x["n"]) and "choed" not in x["n"]]
    la_c = ctx.locks()

    def gate_of(f, depth=0):
        """(function, test block, send elem) where a close-sent flag is tested and the frame handed to the transport"""
        tb = [b for b in f.blocks.values() if b.cond is not None and any(fl in show(b.cond) for fl in flags)]
        snd = [e for e in f.stmts() if e.node.get("k") == "mcall" and last(e.node.get("callee", "")) in ("sendRawBytes", "sendAsync")]
        if tb and snd:
            return f, tb[-1], snd[0]
        if depth < 2:
            for e in f.stmts():
                c = e.node.get("callee") or ""
                if e.node.get("k") == "mcall" and c.startswith(WC + "::") and last(c) not in ("sendRawBytes",):
                    for g in fb.funcs(c, WCF):
                        if g.ok:
                            got = gate_of(g, depth + 1)
                            if got:
                                return got
        return None
    for nm in ("sendText", "sendBinary", "sendPing"):
        f = fnc(ctx, WC, nm, WCF)
        r.instance()
        got = gate_of(f) if flags else None
        ok = got is not None
        if ok:
            g, tb, snd = got
            mus = la_c.mutexes(g, snd)
            te = tb.elems[-1] if tb.elems else None
            ok = bool(mus) and te is not None and any(la_c.holds(g, te, m) and la_c.holds(g, snd, m) for m in mus) and (dominated_by_edge(g, snd, tb, 1, eh=False) or dominated_by_edge(g, snd, tb, 0, eh=False))
            # every direct hand-off in the sender itself goes through the gate
            direct = [e for e in f.stmts() if e.node.get("k") == "mcall" and last(e.node.get("callee", "")) in ("sendRawBytes", "sendAsync")] if g is not f else []
            ok = ok and not direct
        r.expect(ok, f, None, "client data frame after close: %s" % nm, "WebSocketClient::%s does not hand its frame to the transport inside a critical section that first tests a close-sent flag set by every CLOSE-emitting path "
                 "(flags found: %s): `c.sendClose(); c.%s(…)` puts a data frame on the wire after the CLOSE frame" % (nm, flags or "none", nm), okdesc="client %s: flag test + hand-off in one critical section" % nm)
    for (f, e) in closers:
        r.instance()
        sets = [x for x in f.stmts() if (asg(x.node) and any(fl in show(asg(x.node)[0]) for fl in flags)) or
                (x.node.get("k") == "mcall" and last(x.node.get("callee", "")) in ("store", "exchange") and any(fl in show(x.node.get("obj") or {}) for fl in flags))]
        snds = [x for x in f.stmts() if x.node.get("k") == "mcall" and last(x.node.get("callee", "")) in ("sendRawBytes", "sendAsync")]
        ok = bool(flags) and bool(sets) and bool(snds)
        if ok:
            ok = False
            for st in sets:
                for sd in snds:
                    ms = set(la_c.mutexes(f, st)) & set(la_c.mutexes(f, sd))
                    if ms and (search(f, st, lambda x, sd=sd: x is sd, stop=lambda x, m=list(ms)[0]: not la_c.holds(f, x, m), eh=False) is not None or
                               search(f, sd, lambda x, st=st: x is st, stop=lambda x, m=list(ms)[0]: not la_c.holds(f, x, m), eh=False) is not None):
                        ok = True
        r.expect(ok, f, e, "client CLOSE not recorded: %s" % last(f.name), "WebSocketClient::%s emits a CLOSE frame without setting the close-sent flag in the same critical section as the hand-off to the transport "
                 "(a data sender can pass its test between the two)" % last(f.name), okdesc="client %s: flag set + CLOSE hand-off in one critical section" % last(f.name))


def delivered_source(f, cbname):
    """variable the delivered text is built from: `std::string text(X.begin(), X.end()); cb(…, text)`"""
    for e in f.stmts():
        n = e.node
        if n.get("k") == "opcall" and n.get("op") == "()" and cbname in show(n["args"][0]):
            arg = strip_views(n["args"][-1])
            if arg.get("k") == "var":
                for d in f.stmts():
                    if d.node.get("k") == "decl":
                        for v in d.node["vars"]:
                            if v["n"] == arg["n"] and v.get("init") is not None:
                                src = [x["n"] for x in walk(v["init"]) if x.get("k") == "var"]
                                if src:
                                    return e, src[0]
                return e, arg["n"]
    return None, None


def r5(ctx, r):
    for cls, file, label in ((WS, WSF, "server"), (WC, WCF, "client")):
        hf = fnc(ctx, cls, "handleFrame", file)
        sw = [b for b in hf.blocks.values() if b.term and b.term.get("k") == "SwitchStmt"]
        if len(sw) != 1:
            raise AnalysisBroken("%s handleFrame: %d switches" % (label, len(sw)))
        sw = sw[0]
        arms = {}
        for si in range(len(sw.succs)):
            lab = sw.edge_label(si)
            if lab == "default":
                arms["default"] = arm_elems(hf, sw, si)[0]
            elif lab:
                for x in walk(lab[1]):
                    if x.get("k") == "enum":
                        arms[last(x["n"])] = arm_elems(hf, sw, si)[0]
        # the default arm is pruned from the CFG when every enumerator has a case (the value is still a raw cast of four bits)
        if "default" not in arms:
            for b in hf.blocks.values():
                if b.label and b.label.get("k") == "default":
                    arms["default"] = _reach_until_ret(hf, b.id)
        # fall-through labels
        for b in hf.blocks.values():
            for lb in (b.raw.get("labels") or []):
                if lb and lb.get("k") == "case" and lb.get("v"):
                    for x in walk(lb["v"]):
                        if x.get("k") == "enum" and last(x["n"]) not in arms:
                            arms[last(x["n"])] = _reach_until_ret(hf, b.id)
        # every frame reaches the opcode dispatch: 'control frames between fragments handled without disturbing reassembly, pings
        # answered' — nothing in front of the switch may turn a frame away because a fragmented message is in progress
        r.instance()
        wby = search(hf, ("entry",), "exit", stop=lambda x, sw=sw: x.block is sw, eh=False)
        if wby is not None:
            inits = {}
            for e in hf.stmts():
                if e.node.get("k") == "decl":
                    for dv in e.node["vars"]:
                        if dv.get("init") is not None:
                            inits.setdefault(dv["d"], []).append(dv["init"])
                a = asg(e.node) if e.kind == "stmt" else None
                if a and strip_casts(a[0]).get("k") == "var":
                    inits.setdefault(strip_casts(a[0]).get("d"), []).append(a[1])

            def frag_state(c, depth=0):
                for x in walk(c):
                    if x.get("k") == "member" and "ragment" in x["n"]:
                        return True
                    if x.get("k") == "var" and x.get("d") in inits and depth < 3 and any(frag_state(i, depth + 1) for i in inits[x["d"]]):
                        return True
                return False
            pre = [b for b in hf.blocks.values() if b.cond is not None and search(hf, ("block", b.id), lambda x, sw=sw: x.block is sw, eh=False) is not None and not (b is sw)]
            if any(frag_state(b.cond) for b in pre):
                r.fail(hf, None, "%s: frame turned away by fragment state" % label, "%s handleFrame can return before the opcode dispatch on a condition over the fragment-reassembly state (%s): a PING / PONG / CLOSE "
                       "arriving between the fragments of a message is not processed — no PONG is sent, the message in progress is lost or the connection is dropped" % (label, witness_str(hf, wby)))
            else:
                raise AnalysisBroken("%s handleFrame: a path bypasses the opcode switch on a condition this rule does not know (%s)" % (label, witness_str(hf, wby)))
        else:
            r.ok("%s: every frame reaches the opcode dispatch" % label)
        ping = arms.get("PING", [])
        mk = [e for e in ping if e.kind == "stmt" and e.node.get("k") in ("call", "mcall") and last(e.node.get("callee", "")) == "makePong"]
        snd = [e for e in ping if e.kind == "stmt" and e.node.get("k") == "mcall" and last(e.node.get("callee", "")) in ("sendRaw", "sendRawBytes")]
        r.instance()
        r.expect(len(mk) == 1 and len(snd) == 1 and show(strip_views(mk[0].node["args"][0])) == "frame.payload", hf, mk[0] if mk else None, "%s ping reaction" % label, "the %s does not answer a PING with a PONG carrying frame.payload" % label,
                 okdesc="%s: PING → PONG(frame.payload)" % label)
        if label == "client":
            r.instance()
            r.expect(any(e.kind == "stmt" and e.node.get("k") == "mcall" and last(e.node.get("callee", "")) == "serialize" and const_value(strip_casts(e.node["args"][0])) == 1 for e in ping), hf, None, "client pong unmasked", "the client's PONG is not masked",
                     okdesc="client PONG masked")
        # data opcodes reach handleDataFrame
        for op in ("TEXT", "BINARY", "CONTINUATION"):
            r.instance()
            r.expect(any(e.kind == "stmt" and e.node.get("k") == "mcall" and last(e.node.get("callee", "")) == "handleDataFrame" for e in arms.get(op, [])), hf, None, "%s %s dispatch" % (label, op), "the %s does not hand %s frames to handleDataFrame" % (label, op),
                     okdesc="%s: %s → handleDataFrame" % (label, op))
        # close echoed at most once
        cl = arms.get("CLOSE", [])
        echo = [e for e in cl if e.kind == "stmt" and e.node.get("k") in ("call", "mcall") and last(e.node.get("callee", "")) in ("makeClose", "sendClose")]
        r.instance()
        ok = len(echo) == 1
        if ok:
            facts = " ".join(show(c) + ("=T" if t else "=F") for c, t in dominating_facts(hf, echo[0]))
            ok = "closeSent=F" in facts.replace("!it->second.closeSent=T", "closeSent=F") or "_closeEchoed.exchange(true)" in facts or "!it->second.closeSent" in facts
        r.expect(ok, hf, echo[0] if echo else None, "%s close echo" % label, "the %s echoes an inbound CLOSE without a once-only guard" % label, okdesc="%s: CLOSE echoed once" % label)
        if label == "server":
            df = arms.get("default", [])
            r.instance()
            r.expect(any(e.kind == "stmt" and e.node.get("k") == "mcall" and last(e.node.get("callee", "")) == "sendClose" and const_value(strip_casts(e.node["args"][1])) == 1002 for e in df), hf, None, "unknown opcode", "an unknown opcode does not lead to close 1002",
                     okdesc="unknown opcode → 1002")
        # text is validated as UTF-8 on the reassembled message before delivery
        hd = fnc(ctx, cls, "handleDataFrame", file)
        cb, src = delivered_source(hd, "_onTextMessage")
        val = [e for e in hd.stmts() if e.node.get("k") == "mcall" and last(e.node.get("callee", "")) == "isValidUtf8"]
        r.instance()
        ok, why = False, "no isValidUtf8() call"
        if cb is not None and len(val) == 1:
            recv = strip_casts(val[0].node.get("obj"))
            why = "the validated object is `%s`" % show(recv)
            if recv.get("k") == "var":
                pdefs = [asg(x.node)[1] for x in hd.stmts() if asg(x.node) and show(strip_casts(asg(x.node)[0])) == recv["n"] + ".payload"]
                ok = len(pdefs) == 1 and key_of(strip_views(pdefs[0])) == src and recv.get("parm") is None
                why = "the validated frame `%s` %s" % (recv["n"], "is the frame just received (the last fragment), not the reassembled message `%s`" % src if recv.get("parm") is not None else "does not hold the reassembled message `%s`" % src)
            if ok:
                vb = val[0].block
                c, vst, vsf = common.branch(vb) if vb.cond is not None else (None, None, None)
                ok = c is not None and c is val[0].node and vst is not None and vst != vsf and dominated_by_edge(hd, cb, vb, vb.succs.index(vst), eh=False)
                why = "the callback is not behind the validation"
        r.expect(ok, hd, val[0] if val else cb, "%s text not validated" % label, "the %s delivers TEXT messages to the application without isValidUtf8() having accepted the reassembled message (%s): delivery then depends on where the sender "
                 "cut the fragments (a character split across fragments is rejected; invalid bytes in an earlier fragment are delivered)" % (label, why), okdesc="%s: isValidUtf8(reassembled message) before onTextMessage" % label)
        # oversize reaction
        big = [e for e in hd.stmts() if e.node.get("k") == "mcall" and last(e.node.get("callee", "")) in ("sendClose", "disconnect") and 1009 in [const_value(strip_casts(a)) for a in e.node.get("args", [])]]
        r.instance()
        r.expect(len(big) >= 1, hd, None, "%s oversize reaction" % label, "an oversize message does not lead to close 1009 in the %s" % label, okdesc="%s: oversize → 1009" % label)
        # fragments are joined in order: start assigns, continuation appends at the end
        names = ("fragmentBuffer", "_fragmentBuffer")
        st = [e for e in hd.stmts() if asg(e.node) and show(strip_casts(asg(e.node)[0])).endswith(names) and show(strip_views(asg(e.node)[1])) == "frame.payload"]
        ap = [e for e in hd.stmts() if e.node.get("k") == "mcall" and last(e.node.get("callee", "")) == "insert" and show(strip_casts(e.node.get("obj"))).endswith(names)]
        r.instance()
        ok = len(st) == 1 and len(ap) == 1 and ".end()" in show(ap[0].node["args"][0]) and any(x in show(ap[0].node["args"][0]) for x in names) and "frame.payload.begin()" in show(ap[0].node["args"][1]) and "frame.payload.end()" in show(ap[0].node["args"][2])
        r.expect(ok, hd, ap[0] if ap else None, "%s fragment order" % label, "fragments are not joined as start = payload, continuation appended at end()", okdesc="%s: start assigns, continuation appends at end()" % label)


def r6(ctx, r):
    for cls, file, fnm, label in ((WS, WSF, "onUpgradedData", "server"), (WC, WCF, "handleData", "client")):
        f = fnc(ctx, cls, fnm, file)
        ps = [e for e in f.stmts() if e.node.get("k") in ("call", "mcall") and last(e.node.get("callee", "")) == "parse" and "WebSocketFrame" in e.node.get("callee", "")]
        adv = [e for e in f.stmts() if e.node.get("k") == "bin" and e.node.get("op") == "+=" and key_of(e.node["lhs"]) == "offset"]
        r.instance()
        ok = len(ps) == 1 and len(adv) == 1 and key_of(adv[0].node["rhs"]) == "consumed" and key_of(ps[0].node["args"][1]) == "consumed" and elem_dominates(f, ps[0], adv[0], eh=False)
        if ok:
            # consumed is reset for every call and nothing else writes offset
            others = [e for e in f.stmts() if (asg(e.node) and key_of(asg(e.node)[0]) == "offset") or (e.node.get("k") == "un" and key_of(e.node.get("v") or {}) == "offset")]
            ok = not others
            # loop exits when parse returns nullopt
            fb_ = [b for b in f.blocks.values() if b.cond is not None and show(common.branch(b)[0] or {}).replace("(bool)", "") in ("frame", "frame.has_value()", "frame.operator bool()")]
            # (the side on which there is no frame never comes back to parse)
            ok = ok and len(fb_) == 1 and common.branch(fb_[0])[2] is not None and search(f, ("block", common.branch(fb_[0])[2]), lambda x: x is ps[0], eh=False) is None
            # the view starts at offset with the remaining size
            vw = [v for e in f.stmts() if e.node.get("k") == "decl" for v in e.node["vars"] if v["n"] == "view"]
            ok = ok and len(vw) == 1 and "localBuffer.data() + offset" in show(vw[0]["init"]) and "localBuffer.size() - offset" in show(vw[0]["init"])
        r.expect(ok, f, adv[0] if adv else None, "%s consumption" % label, "the %s parse loop does not advance by exactly the `consumed` of the same parse() call over the view [offset, end), leaving on nullopt" % label,
                 okdesc="%s: view = [offset, end); offset += consumed; nullopt → leave" % label)
        # remainder put back in front of bytes that arrived meanwhile
        rem = [v for e in f.stmts() if e.node.get("k") == "decl" for v in e.node["vars"] if v["n"] == "remainder"]
        ins = [e for e in f.stmts() if e.node.get("k") == "mcall" and last(e.node.get("callee", "")) == "insert" and key_of(e.node.get("obj")) == "remainder"]
        back = [e for e in f.stmts() if asg(e.node) and key_of(strip_views(asg(e.node)[1])) == "remainder"]
        r.instance()
        ok = len(rem) == 1 and len(ins) == 1 and len(back) == 1 and "localBuffer.begin() + offset" in show(rem[0]["init"]) and "localBuffer.end()" in show(rem[0]["init"]) and \
            "remainder.end()" in show(ins[0].node["args"][0]) and elem_dominates(f, ins[0], back[0], eh=False)
        r.expect(ok, f, back[0] if back else None, "%s remainder order" % label, "the unparsed remainder is not put back as [offset, end) followed by the bytes that arrived during parsing", okdesc="%s: buffer = remainder ++ newly arrived" % label)


def r7(ctx, r):
    fb = ctx.fb()
    roots = [(fnc(ctx, WS, "onUpgradedData", WSF), WSF, WS), (fnc(ctx, WC, "handleData", WCF), WCF, WC)]
    n = 0
    for (root, file, cls) in roots:
        seen, work = {}, [root]
        while work:
            f = work.pop()
            if id(f) in seen:
                continue
            seen[id(f)] = f
            for e in f.stmts():
                c = e.node.get("callee") or ""
                if e.node.get("k") in ("mcall", "call") and (c.startswith(cls + "::") or c.startswith(WF + "::") or c.startswith("iora::core::BufferView::")):
                    for g in fb.funcs(c):
                        if g.ok and id(g) not in seen and g.file.endswith((WSF, WCF, WFF, "buffer_view.hpp")):
                            work.append(g)
        for f in seen.values():
            n += 1
            for e in f.stmts():
                nn = e.node
                nm = last(nn.get("callee", "")) if nn.get("k") in ("call", "mcall") else None
                bad = None
                if nn.get("k") == "throw" and "root" in e.raw:
                    bad = "a throw expression"
                elif nn.get("k") == "mcall" and nm == "at" and (nn.get("callee") or "").startswith("std::"):
                    bad = "std::…::at()"
                elif nn.get("k") == "call" and nm in ("stoul", "stoull", "stoi", "stol", "stod") and (nn.get("callee") or "").startswith("std::"):
                    bad = "std::" + nm
                elif nn.get("k") == "mcall" and nm == "value" and "optional" in (nn.get("callee") or ""):
                    bad = "optional::value()"
                if bad:
                    r.instance()
                    covered = bool(e.try_id) and any(h == "..." or "std::exception" in h for h in f.trys.get(e.try_id, {}).get("handlers", []))
                    r.expect(covered, f, e, "throwing primitive on the I/O thread: %s" % bad, "%s (reached from %s, which runs on the transport's I/O thread) uses %s outside a try block" % (short(f.name), last(root.name), bad),
                             okdesc="%s: %s inside try" % (last(f.name), bad))
    r.instance(n)
    for _ in range(n):
        r.ok("function on the data-callback path without an unguarded throwing primitive")
    if n < 12:
        raise AnalysisBroken("only %d functions reachable from the WebSocket data callbacks (floor 12)" % n)


def anchors(ctx, r):
    tab = [(wf(ctx, "parse"), ["pos", "data", "byte0", "byte1", "consumed", "payloadLen"]), (wf(ctx, "serialize"), ["byte0", "byte1", "out"]),
           (fnc(ctx, WS, "onUpgradedData", WSF), ["localBuffer", "offset", "consumed", "view", "remainder"]), (fnc(ctx, WC, "handleData", WCF), ["localBuffer", "offset", "consumed", "view", "remainder"]),
           (fnc(ctx, WS, "handleDataFrame", WSF), ["tooLarge", "frame"]), (fnc(ctx, WC, "handleDataFrame", WCF), ["tooLarge", "frame"])]
    for f, names in tab:
        common.require_names(f, names)
        r.instance()
        r.ok("%s: %s" % (last(f.name), ", ".join(names)))


def run(ctx, ck):
    r0 = ck.run_rule("C18-R0", "the local names the rules are anchored on exist (a rename makes the analysis refuse — exit 2 — instead of raising a false alarm)", "anchor table", lambda r: anchors(ctx, r))
    if r0.broken:
        return
    ck.run_rule("C18-R1", "frame decoder stays inside the bytes present; peer length admitted only in subtraction form", "A7 cursor-window abstract interpretation with a symbolic length", lambda r: r1(ctx, r))
    ck.run_rule("C18-R2", "encoder and decoder tables agree (bit masks, length codes/thresholds, byte order, masking)", "A10 table extraction", lambda r: r2(ctx, r))
    ck.run_rule("C18-R3", "every buffer fed by the network is limit-tested before the function returns; overflow ends the session", "A8 + A5", lambda r: r3(ctx, r))
    ck.run_rule("C18-R4", "no data frame after a close frame", "A1 same-section + flag discipline", lambda r: r4(ctx, r))
    ck.run_rule("C18-R5", "protocol reactions: pong, single close echo, UTF-8 on the reassembled message, 1009/1002, fragment order", "A2 + dataflow", lambda r: r5(ctx, r))
    ck.run_rule("C18-R6", "parse loops consume exactly what was framed; remainder order", "A2", lambda r: r6(ctx, r))
    ck.run_rule("C18-R7", "nothing on the data-callback path throws", "A9", lambda r: r7(ctx, r))
