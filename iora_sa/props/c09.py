"""C09 — Every accepted task runs exactly once before pool shutdown completes (DESIGN.md §2 C09)."""
from .. import access
from ..cfg import search, witness_str, elem_dominates, may_throw_elem
from ..expr import show, walk, last, field_of, strip_wrappers, strip_casts, short, const_value, access_path
from ..facts import AnalysisBroken
from ..predabs import Vocab, PredAbs, A, Not, And, Or, T, F, translate, total, known_when
from ..rules import common
from .. import finite
from ..locks import LOCK_TYPES

TITLE = "Every accepted task runs exactly once before pool shutdown completes"
TECHNIQUE = 'custom static analysis over clang-14 CFG facts: must-lockset, condition-variable discipline, exception-edge modelling for task invocation, counting rules over worker bookkeeping'
TP = "iora::core::ThreadPool"
FILE = "iora/core/thread_pool.hpp"
M, CM = TP + "::_mutex", TP + "::_configMutex"

EXPLANATION = (
    "Static obligations over thread_pool.hpp: R1 lock table (task queue, worker map and writes of the shutdown flag under _mutex; error "
    "handler and shutdown mode under _configMutex); R2 a task is queued only in the critical section that saw the pool not shut down and "
    "the queue below its limit, and every refusing path leaves before the push; R3 in the worker the dequeue (front + pop) is one critical "
    "section and from there to the next loop iteration the task is invoked exactly once, lock-free, inside a catch-all try, and released "
    "before the active counter drops (ghost counting); R4 every return of the worker holds _mutex and is reached only with the queue known "
    "empty — either `_shutdown && _tasks.empty()` or the false result of wait_for(lock, d, pred), whose meaning (predicate false under the "
    "lock) is built into the abstraction; R5 destruction and stop set the flag under the lock, notify all and pass through the join loop; "
    "R6 the result-returning submit wraps a packaged_task whose invocation is the queued closure; R7 every insertion into the worker map is "
    "in the critical section that tested the size against the maximum (thread cap); R8 condition-variable discipline for the worker wait; "
    "R10 the worker counts started without a cap test (constructor, start()) are evaluated exactly from the constructor's initialisers and never exceed "
    "_maxSize, and every return of shutdown() is behind the join, a wait, or a mutex the joining caller holds (known finding: second shutdown()); "
    "R11 every unconditional spawn site (constructor, start(): a spawnWorker() call that is not behind the thread-cap test) is reached only after the creating function itself stored false into "
    "_shutdown (or initialised it so) on every path — a worker created while the flag is still set takes the shutdown exit at once and leaves a dead entry in the worker map. "
    "R12 once a task is queued, whether a worker is spawned for it depends only on the capacity test `_threads.size() < _maxSize` (and the shutdown/accepting state): every further conjunct between the push and "
    "the spawnWorker() call is collected by dataflow; one that reads a counter the worker loop writes is an idleness estimate and is a violation when the worker lowers that counter before the finished task object "
    "(and its captures, whose destructors are user code that may submit and wait) is destroyed — any other estimate or unclassified conjunct is a refusal. "
    "R2, R5, R9, R10, R11, R12 follow calls into the pool's private helpers (a helper 'does X' when all its paths do; a helper's constant results are tabulated against the event they report; bool locals that carry "
    "such a result are followed as atoms).  R3, R4, R8 follow the worker's task, wait and lock into local lambdas of the worker body that receive them by reference.")
# exempt from the function-inventory guard (report.py): these rules hold for, or look into, functions they have never seen
FOLLOWS_HELPERS = {"C09-R1": "universal: every access to a guarded field is judged where it is, with the entry lock set of a private helper taken from its call sites",
                   "C09-R2": "the push, the refusals and the notify are followed into the pool's private helpers (push_sites, submit_flow: does / result_table)",
                   "C09-R5": "the removal of a worker entry from _threads is followed into helpers; a helper's result decides the ghost (result_table)",
                   "C09-R9": "refusal exits are expanded into the helper whose result decides them; lock, push, spawn and notify are counted over the helpers the submit function calls",
                   "C09-R10": "spawn sites are enumerated over every named function of the class; the cap test is followed through bool locals and helper parameters (on_demand_spawn)",
                   "C09-R11": "spawn sites are enumerated over every named function of the class; a store of the flag inside a helper counts when all its paths make it (flag_abs)",
                   "C09-R12": "the conditions of the spawn after the push are collected through bool locals, helper parameters, out-parameters and helper results (spawn_decision); a conjunct it cannot follow is a refusal"}
NOT_DECIDED = ["the polling drains (`_activeThreads == 0 && pending == 0` sampled with sleeps) — timing; the joins of R5 carry the 'returns only after every accepted task finished' clause",
               "fairness between workers", "the instrumentation counters"]


def worker(ctx):
    fb, cg = ctx.fb(), ctx.cg()
    ws = [f for f in fb.functions if f.ok and f.kind == "lambda" and f.name.startswith(TP + "::spawnWorker::$lambda") and cg.lambda_role.get(f.name, {}).get("role") == "thread"]
    if len(ws) != 1:
        raise AnalysisBroken("worker thread body: %d candidates" % len(ws))
    return ws[0]


def fn(ctx, name):
    return ctx.fb().func(TP + "::" + name, file_suffix=FILE)


def tasks_call(n, methods=None):
    if n.get("k") != "mcall" or field_of(n.get("obj")) != TP + "::_tasks":
        return None
    m = last(n.get("callee", ""))
    return m if methods is None or m in methods else None


# ------------------------------------------------------------------ following calls into the pool's own helpers
# General mechanisms; no helper is known by name.  A call `this->h(...)` to a private method of the class (one definition, in
# thread_pool.hpp) is resolved through fb.by_name.  "h does X" means every path through h executes an X — directly or through a
# helper that does.  "h's result tells whether X happened" is a table {constant h returns: always | never | maybe}; a comparison of
# that result with a constant (also through a once-initialised local) then refines a ghost atom in the caller's abstraction.

def is_lock_type(t):
    """lock_guard / unique_lock / scoped_lock / shared_lock — one spelling is as good as another"""
    return bool(LOCK_TYPES.match(t or ""))


def local_lambda_call(f, n):
    """(lambda Function, explicit arguments) when n calls a lambda created in f — a local lambda used like a function — else None"""
    if isinstance(n, dict) and n.get("k") == "opcall" and n.get("op") == "()" and n.get("callee"):
        for (ln, lf) in f.lambdas:
            if lf.ok and lf.name == n["callee"]:
                return lf, n["args"][1:]
    return None


def own(f):
    return f.ok and f.file.endswith(FILE) and (f.cls == TP or f.name.startswith(TP + "::"))


def helper(ctx, n):
    """the private method of the pool a call node `this->h(...)` resolves to, else None"""
    if not isinstance(n, dict) or n.get("k") != "mcall" or (n.get("obj") or {}).get("k") != "this" or n.get("virt"):
        return None
    gs = [g for g in ctx.fb().by_name.get(n.get("callee") or "", []) if own(g) and g.kind == "method" and g.access in ("private", "protected")]
    if len({(g.file, g.line) for g in gs}) != 1:
        return None
    return gs[0]


def helpers_from(ctx, f, depth=4):
    """the helpers reachable from f through such calls (f itself excluded; lambdas are not entered: their bodies run elsewhere)"""
    out, work = [], [(f, 0)]
    while work:
        g, d = work.pop()
        for e in g.stmts():
            h = helper(ctx, e.node)
            if h is not None and h is not f and d < depth and all(h is not x for x in out):
                out.append(h)
                work.append((h, d + 1))
    return out


def does(ctx, g, direct, depth=3):
    """elements of g at which the event certainly happens: direct(e), or a call to a helper all of whose paths do it"""
    out = []
    for e in g.stmts():
        if direct(e):
            out.append(e)
        elif depth > 0:
            h = helper(ctx, e.node)
            if h is not None and h is not g and always(ctx, h, direct, depth - 1):
                out.append(e)
    return out


def may(ctx, g, direct, depth=3):
    """elements of g at which the event may happen (direct, or somewhere inside a helper called there)"""
    out = []
    for e in g.stmts():
        if direct(e):
            out.append(e)
        elif depth > 0:
            h = helper(ctx, e.node)
            if h is not None and h is not g and may(ctx, h, direct, depth - 1):
                out.append(e)
    return out


def always(ctx, h, direct, depth=3):
    """every path through h from entry to a normal exit passes the event"""
    ev = does(ctx, h, direct, depth)
    return bool(ev) and search(h, ("entry",), "exit", stop=lambda x: x in ev, eh=False) is None


def result_table(ctx, h, direct):
    """{constant: 'always' | 'never' | 'maybe'}: for each constant h returns, whether the event happened on the way to a return of
    that constant.  None when h returns something that is not a constant (then its result says nothing a rule can use)."""
    mayev, mustev = may(ctx, h, direct), does(ctx, h, direct)
    rets = common.returns(h)
    if not rets:
        return None
    tab = {}
    for x in rets:
        v = const_value(x.node.get("v") or {})
        if v is None:
            return None
        if all(search(h, e, lambda y, x=x: y is x, eh=False) is None for e in mayev):
            c = "never"
        elif search(h, ("entry",), lambda y, x=x: y is x, stop=lambda y: y in mustev, eh=False) is None:
            c = "always"
        else:
            c = "maybe"
        tab[v] = c if tab.get(v, c) == c else "maybe"
    return tab


def through_locals(f, n):
    """n — or, when n reads a local that is initialised once and never written again, that initialiser: giving an intermediate
    result a name does not change what a rule sees"""
    for _ in range(4):
        n = strip_casts(n)
        if n is None or n.get("k") != "var" or n.get("parm") is not None:
            return n
        vs = [v for e in f.stmts() if e.node.get("k") == "decl" for v in e.node["vars"] if v["d"] == n.get("d")]
        if len(vs) != 1 or vs[0].get("init") is None:
            return n
        uses = [x for x in f.nodes.values() if x.get("k") == "var" and x.get("d") == n["d"] and x.get("parm") is None]
        const = (vs[0].get("t") or "").startswith("const ")
        if not const and any(access.classify(f, x) != "read" or (f.nodes.get(f.parent.get(x["id"])) or {}).get("k") in ("call", "mcall", "ctor") for x in uses):
            return n       # written again, or handed to a call that may write it through a reference
        n = vs[0]["init"]
    return n


def _result_formula(tab, c, atom):
    """`result == c` as a (possibly partial) formula over the ghost atom, from the helper's result table"""
    cls = tab.get(c)
    if cls is None:
        return F          # the helper never returns that constant
    others = [tab[v] for v in tab if v != c]
    if cls == "always":
        return A(atom) if all(o == "never" for o in others) else ("and?", A(atom), None)
    if cls == "never":
        return Not(A(atom)) if all(o == "always" for o in others) else ("and?", Not(A(atom)), None)
    if others and all(o == "always" for o in others):
        return ("or?", Not(A(atom)), None)      # result != c  =>  happened
    if others and all(o == "never" for o in others):
        return ("or?", A(atom), None)           # result != c  =>  did not happen
    return None


def result_leaf(ctx, f, direct, atom):
    """leaf translator for PredAbs: a comparison of a helper's result with a constant — or a bool result used as the condition —
    says whether the event `atom` happened inside that call"""
    def leaf(n):
        for (op, a, b) in common.cmp_both(n):
            if op not in ("==", "!="):
                break
            c, x = const_value(b), through_locals(f, a)
            h = helper(ctx, x) if c is not None else None
            if h is None:
                continue
            tab = result_table(ctx, h, direct)
            fm = _result_formula(tab, c, atom) if tab is not None else None
            if fm is None:
                return None
            return fm if op == "==" else (("not", fm) if fm[0] in ("and?", "or?") else Not(fm))
        x = through_locals(f, n)
        h = helper(ctx, x)
        if h is not None and finite._ty(x.get("t")) == "bool":
            tab = result_table(ctx, h, direct)
            return _result_formula(tab, 1, atom) if tab is not None else None
        return None
    return leaf


def bool_locals(f, inner, nbase):
    """every bool local of f becomes an atom of its own: (leaf, effects, atom names).  A definition by a constant sets it
    (`bool found = false; … found = true;`), a definition by an expression the inner leaf can translate assigns it that formula
    (`signalled = beginLocked();` — a partial translation keeps what it implies), any other definition havocs it.  A branch on
    such a local is then as good as a branch at the place where it was defined; no local is known by name."""
    decls, defs = set(), {}
    for e in f.stmts():
        n = e.node
        if n.get("k") == "decl":
            for v in n["vars"]:
                if finite._ty(v.get("t")) == "bool":
                    decls.add(v["d"])
                    defs.setdefault(e, []).append((v["d"], v.get("init"), v.get("init") is None))
    for e in f.stmts():
        n = e.node
        if n.get("k") == "bin" and n.get("op", "").endswith("=") and n["op"] not in ("==", "!=", "<=", ">="):
            l = strip_casts(n["lhs"])
            if l is not None and l.get("k") == "var" and l.get("d") in decls and l.get("parm") is None:
                defs.setdefault(e, []).append((l["d"], n["rhs"] if n["op"] == "=" else None, False))
    for x in f.nodes.values():        # a local handed to a call may be written there: not tracked
        if x.get("k") == "var" and x.get("d") in decls and x.get("parm") is None and (f.nodes.get(f.parent.get(x["id"])) or {}).get("k") in ("call", "mcall", "ctor", "opcall"):
            decls.discard(x["d"])
    atoms = {d: "b:%d" % d for d in sorted(decls)[:max(0, 10 - nbase)]}

    def leaf(n):
        r = inner(n)
        if r is None and n.get("k") == "var" and n.get("parm") is None and n.get("d") in atoms:
            return A(atoms[n["d"]])
        return r

    def eff(e):
        ops = []
        for (d, rhs, uninit) in defs.get(e, []):
            if d not in atoms:
                continue
            a = atoms[d]
            cv = const_value(rhs) if rhs is not None else None
            if cv in (0, 1):
                ops.append(("set", a, bool(cv)))
                continue
            fm = translate(rhs, leaf) if rhs is not None else None
            tf = total(fm)
            if tf is not None:
                ops.append(("assign", a, tf))
            else:
                ops += [("havoc", a), ("assume", Or(Not(A(a)), known_when(fm, True))), ("assume", Or(A(a), known_when(fm, False)))]
        return ops
    return leaf, eff, sorted(atoms.values())


def r1(ctx, r):
    fb, la = ctx.fb(), ctx.locks()
    common.guarded_by(r, fb, la, TP + "::_tasks", M, files=[FILE])
    common.guarded_by(r, fb, la, TP + "::_threads", M, files=[FILE])
    common.guarded_by(r, fb, la, TP + "::_onTaskError", CM, files=[FILE])
    common.guarded_by(r, fb, la, TP + "::_shutdownMode", CM, files=[FILE])
    # the shutdown flag is atomic; its WRITES hold _mutex (the worker's wait predicate reads it under that lock)
    for (f, e, n, kind) in access.accesses(fb, TP + "::_shutdown", [FILE]):
        if kind in ("write", "rw") and f.kind not in ("ctor",) and e is not None:
            r.instance()
            r.expect(la.holds(f, e, M), f, e, "write _shutdown", "_shutdown written without _mutex in %s" % short(f.name), okdesc="%s writes _shutdown under _mutex" % short(f.name))
    r.floor(25, "guarded access sites")


def is_push(e):
    return e.kind == "stmt" and tasks_call(e.node, ("emplace", "push")) is not None


def is_notify(e):
    return e.kind == "stmt" and e.node.get("k") == "mcall" and last(e.node.get("callee", "")) in ("notify_one", "notify_all")


def is_spawn(e):
    return e.kind == "stmt" and e.node.get("k") == "mcall" and last(e.node.get("callee", "")) == "spawnWorker"


def push_sites(ctx, f):
    """[(function, element)]: where f — itself or through the pool's helpers it calls — puts a task into the queue"""
    return [(g, e) for g in [f] + helpers_from(ctx, f) for e in g.stmts() if is_push(e)]


def _push_then_notify(ctx, h, depth=2):
    """inside helper h, every push is followed by a notify on every path to h's exit"""
    nt = does(ctx, h, is_notify)
    for e in may(ctx, h, is_push):
        hh = helper(ctx, e.node)
        if hh is not None and depth > 0 and _push_then_notify(ctx, hh, depth - 1):
            continue
        if search(h, e, "exit", stop=lambda x: x in nt, eh=False) is not None:
            return False
    return True


def submit_flow(ctx, f):
    """predicate abstraction of a submit function over two ghosts — `pushed` (the task is in the queue) and `notified` (a worker
    was woken after that) — following the pool's own helpers: a helper that pushes on every path sets `pushed`; one that pushes on
    some paths leaves it open and the comparison of its result with a constant decides it (result_table); a helper all of whose
    paths notify sets `notified`"""
    vocab = Vocab(["pushed", "notified"])

    def eff(e):
        if e.kind != "stmt":
            return None
        if is_push(e):
            return [("set", "pushed", True), ("set", "notified", False)]
        if is_notify(e):
            return [("set", "notified", True)]
        h = helper(ctx, e.node)
        if h is None:
            return None
        if may(ctx, h, is_push):
            return [("set", "pushed", True) if always(ctx, h, is_push) else ("havoc", "pushed"), ("set", "notified", _push_then_notify(ctx, h))]
        if always(ctx, h, is_notify):
            return [("set", "notified", True)]
        return None
    return PredAbs(f, vocab, result_leaf(ctx, f, is_push, "pushed"), eff, init=And(Not(A("pushed")), Not(A("notified"))))


def r2(ctx, r):
    la = ctx.locks()
    for name in ("enqueueImpl", "tryEnqueueImpl"):
        entry = fn(ctx, name)
        # the push may live in a helper shared by the two submit functions: the critical section is judged where the push is
        sites = push_sites(ctx, entry)
        r.instance()
        if len(sites) != 1:
            r.fail(entry, None, "%s: push sites" % name, "%s queues the task at %d sites" % (name, len(sites)))
            continue
        f, p = sites[0]
        if f is not entry and not any(x.node.get("k") == "decl" and any(M in (la.fn(f).lockvars.get(v["d"]) or ((),))[0] for v in x.node["vars"]) and elem_dominates(f, x, p) for x in f.stmts()):
            raise AnalysisBroken("%s: the push is in helper %s, which runs under a lock its caller took — the critical section spans two functions, which this rule does not follow" % (name, short(f.name)))
        vocab = Vocab(["shutdown", "full"])

        def leaf(n):
            if (n.get("k") == "mcall" and field_of(n.get("obj")) == TP + "::_shutdown") or (n.get("k") == "member" and n["n"] == TP + "::_shutdown"):
                return A("shutdown")
            cp = common.cmp_parts(n)
            if cp:
                l, rr = strip_casts(cp[1]), strip_casts(cp[2])
                if l.get("k") == "mcall" and tasks_call(l, ("size",)) and rr.get("k") == "member" and rr["n"] == TP + "::_maxQueueSize":
                    return {">=": A("full"), "<": Not(A("full")), "==": A("full")}.get(cp[0])
            return None

        def eff(e):
            if e.kind == "stmt" and e.node.get("k") == "decl" and any(is_lock_type(v["t"]) for v in e.node["vars"]):
                return [("havoc_all", ["shutdown", "full"])]
            if e.kind == "dtor" and is_lock_type(e.raw.get("t", "")):
                return [("havoc_all", ["shutdown", "full"])]
            if e.kind == "stmt" and tasks_call(e.node) in ("emplace", "push", "pop"):
                return [("havoc", "full")]
            return None
        pa = PredAbs(f, vocab, leaf, eff, track_bools=True)
        r.expect(la.holds(f, p, M) and pa.entails(p, And(Not(A("shutdown")), Not(A("full")))), entry, p, "%s: push without shutdown/limit test" % name,
                 "%s queues a task without having seen, in the same critical section, the pool not shut down and the queue below its limit (known: %s): a task can be accepted "
                 "after stop() completed and never run, or the queue bound is exceeded" % (name, ",".join(pa.describe(p))), okdesc="%s: push under _mutex after !_shutdown && size < max" % name)
        # every refusal happens before the push: at a refusing exit of the submit function the task is known not to be queued
        # (ghost `pushed`; when the push is in a helper, the helper's result decides it)
        flow = submit_flow(ctx, entry)
        refusals = [e for e in entry.stmts() if e.node.get("k") == "throw"] + [e for e in common.returns(entry) if const_value(e.node.get("v") or {}) == 0]
        r.instance()
        bad = [x for x in refusals if not flow.entails(x, Not(A("pushed")))]
        r.expect(refusals and not bad, entry, bad[0] if bad else None, "%s: refusal after push" % name, "%s can refuse (throw / return false) after the task was already queued" % name,
                 okdesc="%s: all refusals precede the push" % name)
        # an accepted task is announced to a worker: at every normal exit, queued implies notified afterwards
        r.instance()
        r.expect(flow.exit_entails(Or(Not(A("pushed")), A("notified"))), entry, p, "%s: no notify" % name, "a queued task is not followed by a notify on every path: an idle worker is not woken (known at exit: %s)" % ",".join(flow.describe_exit()),
                 okdesc="%s: push followed by notify" % name)


def _worker_abs(ctx):
    w = worker(ctx)
    waits = [e for e in w.stmts() if e.node.get("k") == "mcall" and e.node.get("callee", "").startswith("std::condition_variable") and last(e.node["callee"]) in common.CV_WAIT]
    return w, waits


def _task_holder(w, front):
    """(front node, decl id of the task local, is_task, invocations in the worker, runner, is_rt, invocations in the runner) — shared by
    R3 and R12: which local of the worker holds the dequeued task, and which function (the worker or a local lambda) runs it"""
    # the local that holds the dequeued task is the one that receives `_tasks.front()` (assignment or initialiser) — identified by
    # dataflow, not by its name
    fr, td = front.node, None
    for e in w.stmts():
        n = e.node
        if n.get("k") == "opcall" and n.get("op") == "=" and len(n["args"]) == 2 and any(x is fr for x in walk(n["args"][1])):
            l = strip_wrappers(n["args"][0])
            td = l.get("d") if l is not None and l.get("k") == "var" else td
        elif n.get("k") == "decl":
            for v in n["vars"]:
                if v.get("init") is not None and any(x is fr for x in walk(v["init"])):
                    td = v["d"]
    if td is None:
        raise AnalysisBroken("worker: the local that receives `_tasks.front()` was not identified")
    is_task = lambda x: x is not None and x.get("k") == "var" and x.get("d") == td and x.get("parm") is None
    calls = [e for (e, t) in common.fn_invocations(w) if is_task(strip_wrappers(t))]
    # the task may be run inside a local lambda of the worker that receives it by reference (`runTask(task)`): the runner is then
    # that lambda and the task its parameter.  The call counts as one run of the task when the lambda, on every path from its
    # entry to its exit (handlers included), invokes the parameter exactly once; context and release are judged inside it.
    runner, is_rt, rcalls = w, is_task, calls
    if not calls:
        cand = []
        for e in w.stmts():
            ll = local_lambda_call(w, e.node)
            if ll is not None:
                js = [j for j, a in enumerate(ll[1]) if is_task(strip_wrappers(a))]
                if len(js) == 1 and js[0] < len(ll[0].params) and (ll[0].params[js[0]].get("t") or "").strip().endswith("&") and not (ll[0].params[js[0]].get("t") or "").startswith("const "):
                    cand.append((e, ll[0], js[0]))
        if len(cand) == 1:
            ce, runner, pj = cand[0]
            is_rt = lambda x: x is not None and x.get("k") == "var" and x.get("parm") == pj
            rcalls = [e for (e, t) in common.fn_invocations(runner) if is_rt(strip_wrappers(t))]
            rpa = PredAbs(runner, Vocab(["ran", "twice"]), lambda n: None, lambda e: [("assign", "twice", Or(A("twice"), A("ran"))), ("set", "ran", True)] if e in rcalls else None,
                          init=And(Not(A("ran")), Not(A("twice"))), eh_after=True)
            if rcalls and rpa.exit_entails(And(A("ran"), Not(A("twice")))):
                calls = [ce]
    return fr, td, is_task, calls, runner, is_rt, rcalls


def r3(ctx, r):
    la = ctx.locks()
    w, waits = _worker_abs(ctx)
    fronts = [e for e in w.stmts() if tasks_call(e.node, ("front",))]
    pops = [e for e in w.stmts() if tasks_call(e.node, ("pop", "pop_front"))]
    r.instance()
    if len(fronts) != 1 or len(pops) != 1:
        r.fail(w, None, "dequeue shape", "the worker does not take tasks with exactly one front()+pop() (found %d/%d)" % (len(fronts), len(pops)))
        return
    ok, wit = common.same_section(w, la, fronts[0], pops[0], M)
    r.expect(ok and elem_dominates(w, fronts[0], pops[0]), w, pops[0], "dequeue not atomic", "front() and pop() are not one critical section: two workers can take the same task, or a task is popped unread",
             witness=wit, okdesc="worker: front()+pop() in one _mutex section")
    # nobody else takes tasks out of the queue: the only other remover is reset(), which requires the Stopped state
    for g in ctx.fb().in_file(FILE):
        if not g.ok or g is w or not (g.cls == TP or g.name.startswith(TP + "::")):
            continue
        for e in g.stmts():
            m = tasks_call(e.node, ("pop", "pop_front", "pop_back", "clear", "swap", "erase"))
            if not m:
                continue
            r.instance()
            owner = g.enclosing.name if g.kind == "lambda" and g.enclosing is not None else g.name
            r.expect(owner == TP + "::reset", g, e, "task removed without being run", "%s removes a queued task with _tasks.%s(): an accepted task leaves the queue without being executed (its future, if any, reports "
                     "broken_promise) — and std::queue::pop() removes the OLDEST entry, not the one just added" % (short(g.name), m), okdesc="reset(): queue cleared only in the Stopped state")
    fr, td, is_task, calls, runner, is_rt, rcalls = _task_holder(w, fronts[0])
    vocab = Vocab(["have", "ran", "twice", "nonempty"])

    def leaf(n):
        if n.get("k") == "mcall" and last(n.get("callee", "")).startswith("operator bool") and is_task(n.get("obj")):
            return A("have")
        if n.get("k") == "mcall" and tasks_call(n, ("empty",)):
            return Not(A("nonempty"))
        return None

    def eff(e):
        if e in pops:
            return [("set", "have", True), ("set", "ran", False), ("set", "twice", False)]
        if e in calls:
            return [("assign", "twice", Or(A("twice"), A("ran"))), ("set", "ran", True)]
        if e.kind == "stmt" and e.node.get("k") == "decl" and any(v["d"] == td for v in e.node["vars"]):
            return [("set", "have", False), ("set", "ran", False), ("set", "twice", False)]
        return None
    # a call of a local lambda whose body contains nothing that can throw (`validateCanary()`: a compare and std::abort) raises no
    # exception edge; cfg.may_throw_elem does not look into lambdas, so such elements are taken out of their try for this flow only
    quiet = [e for e in w.stmts() if e.try_id and local_lambda_call(w, e.node) is not None and not any(may_throw_elem(x) for x in local_lambda_call(w, e.node)[0].stmts())]
    saved = [(e, e.try_id) for e in quiet]
    try:
        for e in quiet:
            e.try_id = 0
        pa = PredAbs(w, vocab, leaf, eff, init=And(Not(A("have")), Not(A("ran")), Not(A("twice"))), eh_after=True)
    finally:
        for (e, t) in saved:
            e.try_id = t
    # at the start of the next iteration (the decl of `task`) and at every return: a dequeued task ran exactly once
    goal = Or(Not(A("have")), And(A("ran"), Not(A("twice"))))
    heads = [e for e in w.stmts() if e.node.get("k") == "decl" and any(v["d"] == td for v in e.node["vars"])]
    for h in heads + common.returns(w):
        r.instance()
        r.expect(pa.entails(h, goal), w, h, "dequeued task not run exactly once", "the worker can reach %s having dequeued a task that ran %s (known: %s)" % (
            "the next iteration" if h in heads else "a return", "twice" if "twice" in pa.describe(h) else "zero or an unknown number of times", ",".join(pa.describe(h))),
            okdesc="worker: a dequeued task runs exactly once before the next iteration/exit")
    for c in rcalls:
        r.instance()
        t = runner.trys.get(c.try_id, {})
        r.expect(not (la.mutexes(runner, c) & {M, CM}) and c.try_id and "..." in t.get("handlers", []), w, c, "task invocation context",
                 "the task is invoked holding a pool lock or outside a catch-all try: a throwing task would kill the worker (and lose every later task of its share)",
                 okdesc="task() lock-free inside try/catch(...)")
    # the task object is released before the active counter drops
    decs = [e for e in runner.stmts() if e.node.get("k") in ("opcall", "mcall") and field_of((e.node.get("args") or [e.node.get("obj")])[0] if e.node.get("k") == "opcall" else e.node.get("obj")) == TP + "::_activeThreads" and
            (e.node.get("op") == "--" or last(e.node.get("callee", "")) == "fetch_sub")]
    rel = [e for e in runner.stmts() if e.node.get("k") == "opcall" and e.node.get("op") == "=" and is_rt(strip_wrappers(e.node["args"][0])) and not any(x is fr for x in walk(e.node))]
    r.instance()
    r.expect(decs and rel and all(any(elem_dominates(runner, x, d) for x in rel) for d in decs), w, decs[0] if decs else None, "task released late",
             "the finished task's closure is not destroyed before _activeThreads is decremented: shutdown can proceed while captured objects are still alive/being destroyed",
             okdesc="task = {} before --_activeThreads")


def r4(ctx, r):
    la = ctx.locks()
    w, waits = _worker_abs(ctx)
    wfn, real = w, None
    if not waits:
        # the wait may live in a local lambda of the worker that is handed the lock and returns the wait's result
        # (`woken = waitForWork(lock)`): the call then stands for the wait — same havoc, same result — provided the lambda holds
        # _mutex at its wait (entry lock set from the call site), returns nothing but that result and does not touch the queue
        cand = []
        for e in w.stmts():
            ll = local_lambda_call(w, e.node)
            if ll is not None:
                L = ll[0]
                lw = [x for x in L.stmts() if x.node.get("k") == "mcall" and x.node.get("callee", "").startswith("std::condition_variable") and last(x.node["callee"]) in common.CV_WAIT]
                if len(lw) == 1 and common.returns(L) and all(strip_wrappers(through_locals(L, x.node.get("v") or {})) is lw[0].node for x in common.returns(L)) and la.holds(L, lw[0], M) \
                        and not any(tasks_call(x.node) in ("pop", "pop_front", "emplace", "push") for x in L.stmts()):
                    cand.append((e, L, lw[0]))
        if len(cand) == 1:
            waits, wfn, real = [cand[0][0]], cand[0][1], cand[0][2]
    if len(waits) != 1:
        raise AnalysisBroken("worker: %d condition-variable waits" % len(waits))
    wait = waits[0]
    real = real or wait
    vocab = Vocab(["shutdown", "empty", "wr"])
    # the local that holds the wait's result is the one initialised from the wait call (identified by dataflow, not by its name)
    wrd = ([v["d"] for e in w.stmts() if e.node.get("k") == "decl" for v in e.node["vars"] if v.get("init") is not None and strip_wrappers(v["init"]) is wait.node] + [None])[0]

    def leaf(n):
        if (n.get("k") == "mcall" and field_of(n.get("obj")) == TP + "::_shutdown") or (n.get("k") == "member" and n["n"] == TP + "::_shutdown"):
            return A("shutdown")
        if n.get("k") == "mcall" and tasks_call(n, ("empty",)):
            return A("empty")
        if (n.get("k") == "var" and n.get("d") == wrd and n.get("parm") is None) or n is wait.node:
            return A("wr")        # the named result, or the wait call itself used as the condition (also after facts.py put a `const bool`'s initialiser in its place)
        return None
    # predicate of the wait
    args = [a for a in real.node["args"] if not a.get("def")]
    P = common._resolve_pred(ctx.fb(), wfn, args[-1]) if len(args) >= 3 else None
    pf = None
    if P is not None:
        rets = [x.node for x in P.stmts() if x.node.get("k") == "ret"]
        if len(rets) == 1:
            pf = total(translate(rets[0].get("v"), leaf))

    def eff(e):
        if e.kind != "stmt":
            return None
        n = e.node
        if n.get("k") == "decl":
            for v in n["vars"]:
                i = strip_wrappers(v.get("init")) if v.get("init") else None
                if i is wait.node:
                    ops = [("havoc_all", ["shutdown", "empty"])]
                    if v["d"] == wrd and pf is not None:
                        ops.append(("assign", "wr", pf))     # wait_for(lock, d, pred) returns pred() evaluated under the lock
                    else:
                        ops.append(("havoc", "wr"))
                    return ops
            if any(is_lock_type(v["t"]) for v in n["vars"]):
                return [("havoc_all", ["shutdown", "empty"])]
        if e is wait and not any(True for x in [w.nodes.get(w.parent.get(wait.node["id"]))] if x is not None and x.get("k") == "decl"):
            return [("havoc_all", ["shutdown", "empty"]), ("assign", "wr", pf) if pf is not None else ("havoc", "wr")]
        if tasks_call(n) in ("pop", "pop_front", "emplace", "push"):
            return [("havoc", "empty")]
        return None
    pa = PredAbs(w, vocab, leaf, eff)
    rets = common.returns(w)
    if len(rets) < 2:
        raise AnalysisBroken("worker has %d returns" % len(rets))
    for ret in rets:
        r.instance()
        r.expect(la.holds(w, ret, M) and pa.entails(ret, A("empty")), w, ret, "worker exits with queued tasks",
                 "a worker can return at line %s without the task queue being known empty under _mutex (known: %s): a task accepted just before the idle timeout is never run if no other worker is left" % (
                     ret.line, ",".join(pa.describe(ret))), okdesc="worker return at line %s: queue empty under _mutex" % ret.line)
    r.instance()
    r.expect(pf is not None, w, wait, "wait without predicate", "the worker's wait has no predicate over (_shutdown, _tasks): its result says nothing about the queue when the lock is re-acquired",
             okdesc="wait_for(lock, idle, [shutdown || !tasks.empty()])")


def r5(ctx, r):
    fb, la = ctx.fb(), ctx.locks()
    p1 = fn(ctx, "shutdownPhase1_SignalShutdown")
    # phase 1 sets _shutdown under _mutex and then notifies all.  The store may live in a private helper the phase calls under its
    # lock (its entry lock set comes from the call sites); "then notify_all" is decided by two ghosts — `set` (this call stored true:
    # direct store, a helper all of whose paths store, or a helper whose result says whether it stored — result_table) and
    # `notified` — with bool locals that carry the helper's result followed as atoms: at every exit, set implies notified.
    is_set = lambda e: e.kind == "stmt" and _flag_store(e.fn, e) == ("set", True)
    is_nall = lambda e: e.kind == "stmt" and e.node.get("k") == "mcall" and last(e.node.get("callee", "")) == "notify_all"
    sets = [(g, e) for g in [p1] + helpers_from(ctx, p1) for e in g.stmts() if is_set(e)]
    sleaf, seff, satoms = bool_locals(p1, result_leaf(ctx, p1, is_set, "set"), 2)

    def s1eff(e):
        ops = []
        if e.kind == "stmt":
            if is_set(e):
                ops += [("set", "set", True), ("set", "notified", False)]
            elif is_nall(e):
                ops.append(("set", "notified", True))
            else:
                h = helper(ctx, e.node)
                if h is not None and may(ctx, h, is_set):
                    ops += [("set", "set", True) if always(ctx, h, is_set) else ("havoc", "set"), ("set", "notified", False)]
        return ops + list(seff(e) or [])
    spa = PredAbs(p1, Vocab(["set", "notified"] + satoms), sleaf, s1eff, init=And(Not(A("set")), Not(A("notified"))))
    r.instance()
    r.expect(len(sets) == 1 and la.holds(sets[0][0], sets[0][1], M) and spa.exit_entails(Or(Not(A("set")), A("notified"))), p1, None, "shutdown signal", "phase 1 does not set _shutdown under _mutex and then notify_all",
             okdesc="phase 1: _shutdown = true under _mutex, then notify_all")
    p4 = fn(ctx, "shutdownPhase4_JoinThreads")
    joins = [e for e in p4.stmts() if e.node.get("k") == "mcall" and e.node.get("callee") == "std::thread::join"]
    dets = [e for e in p4.stmts() if e.node.get("k") == "mcall" and e.node.get("callee") == "std::thread::detach"]
    vocab = Vocab(["detached_mode"])

    def leaf(n):
        if n.get("k") == "bin" and n["op"] in ("==", "!=") and any(x.get("k") == "enum" and last(x["n"]) == "DETACHED" for x in walk(n)):
            return A("detached_mode") if n["op"] == "==" else Not(A("detached_mode"))
        return None
    pa = PredAbs(p4, vocab, leaf, lambda e: None)
    r.instance()
    # a detach is reachable only over an edge that says the mode is DETACHED: the true edge of `== DETACHED`, the false edge of
    # `!= DETACHED`, or the `case DETACHED` edge of a switch — with those edges removed no detach may remain reachable
    def not_detached_edge(b, si):
        lab = b.edge_label(si)
        if isinstance(lab, tuple) and lab[0] == "case":
            return not any(x.get("k") == "enum" and last(x["n"]) == "DETACHED" for x in walk(lab[1] or {}))
        if lab in (True, False) and b.cond is not None:
            fm = translate(b.cond, leaf)
            if fm is not None and total(fm) is not None:
                return not (total(fm) == (A("detached_mode") if lab else Not(A("detached_mode"))))
        return True
    r.expect(bool(joins) and all(search(p4, ("entry",), lambda x, d=d: x is d, edge_ok=not_detached_edge, eh=False) is None for d in dets), p4, dets[0] if dets else None, "threads detached", "phase 4 detaches workers outside DETACHED mode instead of joining them: "
             "destruction returns while tasks still run", okdesc="phase 4: join every joinable worker (detach only in DETACHED mode)")
    # the loop ends only when no joinable entry is left: at the function's exit the most recent look at the worker map (critical
    # section over `_threads`) took nothing out of it.  Ghost `took`: cleared where _mutex is acquired, set where an entry is erased
    # from `_threads`; when the scan lives in a helper, the helper's result says whether it took one (result_table); a bool flag
    # local set in the scan (`found`) is followed as an atom of its own (bool_locals) — no local is known by name.
    r.instance()
    is_take = lambda e: e.kind == "stmt" and e.node.get("k") == "mcall" and field_of(e.node.get("obj")) == TP + "::_threads" and last(e.node.get("callee", "")) in ("erase", "extract")
    takes = [(g, e) for g in [p4] + helpers_from(ctx, p4) for e in g.stmts() if is_take(e)]
    if not takes:
        raise AnalysisBroken("phase 4: no removal of a worker entry from _threads found (neither in the function nor in the pool's helpers it calls)")
    tleaf, feff, fatoms = bool_locals(p4, result_leaf(ctx, p4, is_take, "took"), 1)
    lockdecl = {v["d"] for e in p4.stmts() if e.node.get("k") == "decl" for v in e.node["vars"] if M in (la.fn(p4).lockvars.get(v["d"]) or ((),))[0]}

    def teff(e):
        ops = list(feff(e) or [])
        if e.kind == "stmt":
            if is_take(e):
                ops.append(("set", "took", True))
            elif e.node.get("k") == "decl" and any(v["d"] in lockdecl for v in e.node["vars"]):
                ops.append(("set", "took", False))
            else:
                h = helper(ctx, e.node)
                if h is not None and may(ctx, h, is_take):
                    ops.append(("set", "took", True) if always(ctx, h, is_take) else ("havoc", "took"))
        return ops
    tpa = PredAbs(p4, Vocab(["took"] + fatoms), tleaf, teff, init=Not(A("took")))
    r.expect(tpa.exit_entails(Not(A("took"))), p4, None, "join loop exit", "phase 4 can return although its last look at the worker map still took a joinable worker out of it: the loop no longer runs until no joinable worker is found "
             "(known at exit: %s)" % ",".join(tpa.describe_exit()), okdesc="phase 4 loops until a scan of _threads takes nothing")
    for name in ("<dtor>", "shutdown"):
        f = fn(ctx, name) if name != "<dtor>" else fb.func(TP + "::<dtor>")
        c1 = [e for e in f.stmts() if e.node.get("k") == "mcall" and last(e.node.get("callee", "")) == "shutdownPhase1_SignalShutdown"]
        c4 = [e for e in f.stmts() if e.node.get("k") == "mcall" and last(e.node.get("callee", "")) == "shutdownPhase4_JoinThreads"] + \
             [e for e in f.stmts() if e.node.get("k") == "mcall" and e.node.get("callee") == "std::thread::join"]
        r.instance()
        if not c1:
            r.note("%s does not use the phased shutdown" % name)
            r.ok()
            continue
        # every path after phase 1 that is not the already-shut-down early return reaches the join phase
        w = search(f, c1[0], "exit", stop=lambda x: x in c4, eh=False, edge_ok=lambda b, si: not (b.cond is not None and "wasAlreadyShutdown" in show(b.cond) and b.edge_label(si) is True))
        r.expect(bool(c4) and w is None, f, c1[0], "%s skips the join" % name, "ThreadPool::%s can return after signalling shutdown without joining the workers" % name, witness=witness_str(f, w),
                 okdesc="%s: phase 1 … phase 4 (join) on every path" % name)


def r6(ctx, r):
    fb = ctx.fb()
    fs = [f for f in fb.funcs(TP + "::enqueueWithResult", FILE) if f.ok]
    if not fs:
        raise AnalysisBroken("enqueueWithResult not instantiated")
    f = fs[0]
    r.instance()
    mk = [e for e in f.stmts() if e.node.get("k") == "call" and e.node.get("callee") == "std::make_shared" and "packaged_task" in e.node.get("t", "")]
    gf = [e for e in f.stmts() if e.node.get("k") == "mcall" and last(e.node.get("callee", "")) == "get_future"]
    enq = [e for e in f.stmts() if e.node.get("k") == "mcall" and e.node.get("callee") in (TP + "::enqueueImpl", TP + "::tryEnqueueImpl")]
    lam = [lf for (ln, lf) in f.lambdas]
    if not gf or not enq:
        raise AnalysisBroken("enqueueWithResult: get_future / enqueueImpl not found")
    r.expect(elem_dominates(f, gf[0], enq[0]), f, gf[0], "future taken after queueing", "the future is taken after the wrapper was queued: the task may already have run and released the shared state", okdesc="get_future before enqueueImpl(wrapper)")
    r.instance()
    if mk:
        # packaged_task protocol: result and ANY exception are captured by the packaged_task itself
        ok = any(any(x.get("k") == "opcall" and x.get("op") == "()" and "packaged_task" in x.get("callee", "") for x in lf.nodes.values()) for lf in lam)
        r.expect(ok, f, None, "wrapper does not run the task", "the closure queued by enqueueWithResult does not invoke the packaged_task: the future never becomes ready", okdesc="queued closure invokes (*task)()")
        return
    # promise protocol: the wrapper must fulfil the promise on every path — value on return, the CURRENT exception in a catch-all
    prom = [lf for lf in lam if any(x.get("k") == "mcall" and last(x.get("callee", "")) in ("set_value", "set_exception") for x in lf.nodes.values())]
    if len(prom) != 1:
        raise AnalysisBroken("enqueueWithResult: neither a packaged_task nor one promise-fulfilling wrapper — a protocol this rule does not know")
    lf = prom[0]
    setv = [e for e in lf.stmts() if e.node.get("k") == "mcall" and last(e.node.get("callee", "")) == "set_value"]
    sete = [e for e in lf.stmts() if e.node.get("k") == "mcall" and last(e.node.get("callee", "")) == "set_exception"]
    catch_all = [t for t in lf.trys.values() if any((h == "...") if isinstance(h, str) else (h.get("all") or h.get("t") in (None, "", "...")) for h in t.get("handlers", []))]
    cur = any(x.get("k") == "call" and x.get("callee") == "std::current_exception" for e in sete for x in walk(e.node))
    r.expect(bool(setv) and bool(sete) and bool(catch_all) and cur, f, (sete or setv or [None])[0], "task exception not delivered to the future",
             "the promise-based wrapper queued by enqueueWithResult does not hand EVERY exception of the task to the future (set_exception(std::current_exception()) in a catch-all handler; found: %d set_value, %d set_exception, "
             "catch-all %s): a task that throws something not derived from std::exception leaves the promise unfulfilled — the caller sees broken_promise instead of the task's exception"
             % (len(setv), len(sete), "present" if catch_all else "missing"), okdesc="promise wrapper: set_value / catch(...) set_exception(current_exception())")


def r7(ctx, r):
    fb, la = ctx.fb(), ctx.locks()
    n = 0
    for f in fb.in_file(FILE):
        if not f.ok or not (f.cls == TP or f.name.startswith(TP + "::")):
            continue
        ins = common.member_calls_on(f, TP + "::_threads", ("emplace", "insert", "try_emplace", "insert_or_assign"))
        if not ins:
            continue
        vocab = Vocab(["below"])

        def leaf(nn):
            cp = common.cmp_parts(nn)
            if cp:
                l, rr = strip_casts(cp[1]), strip_casts(cp[2])
                if l.get("k") == "mcall" and field_of(l.get("obj")) == TP + "::_threads" and last(l["callee"]) == "size" and rr.get("k") == "member" and rr["n"] == TP + "::_maxSize":
                    return {"<": A("below"), ">=": Not(A("below"))}.get(cp[0])
            return None

        def eff(e):
            if e.kind == "stmt" and e.node.get("k") == "decl" and any(is_lock_type(v["t"]) for v in e.node["vars"]):
                return [("havoc", "below")]
            if e.kind == "dtor" and is_lock_type(e.raw.get("t", "")):
                return [("havoc", "below")]
            return None
        pa = PredAbs(f, vocab, leaf, eff, track_bools=False)
        for e in ins:
            n += 1
            r.instance()
            if f.kind == "ctor":
                r.note("constructor spawns the initial workers before the pool is shared")
                r.ok()
                continue
            r.expect(la.holds(f, e, M) and pa.entails(e, A("below")), f, e, "insert into _threads",
                     "%s inserts a worker into _threads in a critical section that did not test `_threads.size() < _maxSize`: the size test is made under an earlier lock hold "
                     "(enqueueImpl/tryEnqueueImpl decide `shouldSpawn`, release _mutex, then spawn), so N concurrent submitters can all pass it and the pool exceeds its maximum" % short(f.name),
                     okdesc="%s: worker inserted in the section that tested the cap" % short(f.name))
    if n < 1:
        raise AnalysisBroken("no insertion into _threads found")


class _View:
    def __init__(self, base, **over):
        self._base = base
        self.__dict__.update(over)

    def __getattr__(self, k):
        return getattr(self._base, k)


class LocksThroughRefParams:
    """the lock analysis, seen so that a `std::unique_lock<…> &` parameter of a local lambda stands for the lock variable handed
    to it at its call sites in the enclosing function (all call sites must pass a lock on the same mutexes): a wait that was moved
    into a local lambda which is given the lock waits on the same mutex as before"""

    def __init__(self, la):
        self._la = la

    def __getattr__(self, k):
        return getattr(self._la, k)

    def fn(self, f):
        fl = self._la.fn(f)
        enc = f.enclosing if f.kind == "lambda" else None
        if enc is None or not enc.ok:
            return fl
        extra = {}
        for i, prm in enumerate(f.params):
            t = (prm.get("t") or "").strip()
            if not (is_lock_type(t) and t.endswith("&")) or prm.get("d") is None:
                continue
            seen = set()
            for e in enc.stmts():
                ll = local_lambda_call(enc, e.node)
                if ll is not None and ll[0] is f:
                    a = strip_wrappers(ll[1][i]) if i < len(ll[1]) else None
                    seen.add(self.fn(enc).lockvars.get(a.get("d")) if a is not None and a.get("k") == "var" else None)
            if len(seen) == 1 and None not in seen:
                extra[prm["d"]] = seen.pop()
        return _View(fl, lockvars={**fl.lockvars, **extra}) if extra else fl


def r8(ctx, r):
    fb, la = ctx.fb(), LocksThroughRefParams(ctx.locks())
    n = common.cv_discipline(r, fb, la, lambda f: f.file.endswith(FILE))
    if n < 1:
        raise AnalysisBroken("no condition-variable wait found in thread_pool.hpp")


ALLOWED_REFUSAL = ("_accepting", "_shutdown", "_tasks.size()", "_maxQueueSize", "_state", "_stopping", "_draining")


def r9(ctx, r):
    """refusals have a closed set of reasons; an accepted task always gets a worker"""
    from ..finite import dominating_facts
    from ..expr import strip_casts, const_value
    te0 = fn(ctx, "tryEnqueueImpl")

    def refusal_exits(g, rets, depth=2):
        """[(function, return element, [deciding branch blocks])] for the refusing returns `rets` of g.  A return that is decided by
        the result of one of the pool's helpers (`if (admit(...) != Accepted) return false;`, also through a once-initialised local)
        stands for the helper's returns of the constants that take that edge: the reasons are looked for where they are tested."""
        out = []
        for e in rets:
            blk_pred = [b for b in g.blocks.values() if b.cond is not None and e.block.id in [x for x in b.succs if x is not None]]
            expanded, rest = [], []
            for b in blk_pred:
                c = strip_casts(b.cond)
                h, op, k = None, None, None
                for (o, x, y) in common.cmp_both(c):
                    if o in ("==", "!=") and const_value(y) is not None and helper(ctx, through_locals(g, x)) is not None:
                        h, op, k = helper(ctx, through_locals(g, x)), o, const_value(y)
                        break
                if h is None and helper(ctx, through_locals(g, c)) is not None:
                    h, op, k = helper(ctx, through_locals(g, c)), "!=", 0
                labs = {b.edge_label(si) for si, s in enumerate(b.succs) if s == e.block.id}
                if h is None or depth <= 0 or len(labs) != 1 or list(labs)[0] not in (True, False):
                    rest.append(b)
                    continue
                lab = list(labs)[0]
                hr = common.returns(h)
                if not hr or any(const_value(x.node.get("v") or {}) is None for x in hr):
                    raise AnalysisBroken("%s: the refusal at line %s is decided by the result of %s, which is not a constant on every return" % (short(g.name), e.line, short(h.name)))
                # the helper's returns of the constants for which the caller's condition takes the refusing edge
                expanded += refusal_exits(h, [x for x in hr if ((const_value(x.node["v"]) == k) == (op == "==")) == lab], depth - 1)
            if rest or not blk_pred:
                out.append((g, e, rest))
            out += expanded
        return out
    refusals = refusal_exits(te0, [e for e in common.returns(te0) if const_value(strip_casts(e.node.get("v") or {})) == 0])
    if len(refusals) < 3:
        raise AnalysisBroken("tryEnqueueImpl: %d refusal exits (floor 3)" % len(refusals))
    for (te, e, blk_pred) in refusals:
        r.instance()
        # the innermost deciding condition: a fact on whose edge this return immediately depends
        direct = [show(b.cond) for b in blk_pred]

        def allowed(c):
            c = strip_casts(c)
            t = show(c)
            cp = common.cmp_parts(c)
            if cp:
                co = common.cmp_oriented(c, lambda x: show(strip_casts(x)) == "_maxQueueSize")
                return co is not None and show(strip_casts(co[1])) == "_tasks.size()" and co[0] in (">=", ">", "==")
            # flag tests: the accepting / shutdown / state flags, possibly negated or loaded
            return any(w in t for w in ("_accepting", "_shutdown", "_stopping", "_draining", "_state")) and not any(w in t for w in ("size()", "owns_lock", "try_lock"))
        ok = bool(blk_pred) and all(allowed(b.cond) for b in blk_pred)
        r.expect(ok, te0, e, "refusal for another reason", "tryEnqueueImpl refuses the task on the condition `%s`, which is neither 'queue full' nor 'pool draining / shut down': a submission is lost although "
                 "the pool is running with queue space free (e.g. whenever another thread happens to hold the pool mutex)" % "; ".join(direct or ["?"])[:120], okdesc="refusal on `%s`" % (direct[0][:50] if direct else ""))
    # the pool mutex is acquired blockingly (a try-lock turns contention into refusal or into unsynchronised access)
    # (wherever on the submit path the lock is taken: the submit function itself or a helper it calls; spawnWorker's own lock is
    # not part of the acceptance decision)
    for nm in ("tryEnqueueImpl", "enqueueImpl"):
        f = fn(ctx, nm)
        for g in [f] + [h for h in helpers_from(ctx, f) if may(ctx, h, is_push) or h in [x for (x, _) in push_sites(ctx, f)]]:
            for e in g.stmts():
                if e.node.get("k") == "decl":
                    for v in e.node["vars"]:
                        t = v.get("t") or ""
                        if "unique_lock" in t or "lock_guard" in t or "scoped_lock" in t:
                            r.instance()
                            r.expect("try_to_lock" not in show(v.get("init") or {}) and "defer_lock" not in show(v.get("init") or {}), f, e, "non-blocking pool lock: %s" % nm,
                                     "%s takes the pool mutex with `%s`: contention then decides whether the task is accepted" % (nm, show(v.get("init") or {})[:60]), okdesc="%s: blocking lock" % nm)
    # an accepted task always gets a worker: spawnWorker creates its thread unconditionally (the decision was taken under the
    # lock by the submitter; a second, unsynchronised test of the pool state here can strand the task with no worker at all)
    sw = fn(ctx, "spawnWorker")
    thr = [e for e in sw.stmts() if (e.node.get("k") == "decl" and any("std::thread" in (v.get("t") or "") for v in e.node["vars"])) or (e.node.get("k") == "ctor" and e.node.get("cls") == "std::thread")]
    r.instance()
    if not thr:
        raise AnalysisBroken("spawnWorker: thread creation not found")
    # (a re-test of the thread cap under the lock is a legitimate reason to skip: then another worker exists)
    capb = [b for b in sw.blocks.values() if b.cond is not None and "_threads.size()" in show(b.cond) and "_maxSize" in show(b.cond)]
    w = search(sw, ("entry",), "exit", stop=lambda x: x in thr or any(x.block is b for b in capb), eh=False)
    r.expect(w is None, sw, thr[0], "spawn skipped", "spawnWorker can return without creating the worker thread: a task that was accepted (and for which the submitter decided, under the lock, that a worker is needed) "
             "may never be dequeued — its future never becomes ready and drain()/stop() time out or return with the task still queued", witness=witness_str(sw, w), okdesc="spawnWorker always creates the thread")
    # both submit paths: push under the lock, spawn decision under the same lock, notify after the push
    for nm in ("tryEnqueueImpl", "enqueueImpl"):
        f = fn(ctx, nm)
        # (push, spawn and notify are counted over the submit function and the pool's helpers it calls; "notify after the push on
        # every path" is the ghost abstraction of R2: at every normal exit, pushed implies notified)
        scope = [f] + [h for h in helpers_from(ctx, f) if h.name != sw.name]
        push = [e for g in scope for e in g.stmts() if is_push(e)]
        sp = [e for g in scope for e in g.stmts() if is_spawn(e)]
        nt = [e for g in scope for e in g.stmts() if is_notify(e)]
        r.instance()
        ok = len(push) == 1 and len(sp) == 1 and len(nt) >= 1 and submit_flow(ctx, f).exit_entails(Or(Not(A("pushed")), A("notified")))
        r.expect(ok, f, push[0] if push else None, "accepted task not announced: %s" % nm, "%s can return after queueing the task without notifying a worker" % nm, okdesc="%s: push → (spawn) → notify on every path" % nm)



def _subst_members(n, inits, free):
    """copy of expression tree n with every read of a member replaced by its constructor initialiser (a tree over the constructor's
    parameters); members listed in `free` become free variables of that name"""
    n = strip_casts(n) if n.get("k") == "cast" and n.get("implicit") else n
    if n.get("k") == "member":
        if n["n"] in free:
            return {"k": "var", "n": free[n["n"]], "t": "bool"}
        if n["n"] in inits:
            return inits[n["n"]]
        raise finite.NotPure("member %s has no constructor initialiser" % n["n"])
    out = {}
    for k, v in n.items():
        if isinstance(v, dict):
            out[k] = _subst_members(v, inits, free)
        elif isinstance(v, list):
            out[k] = [_subst_members(x, inits, free) if isinstance(x, dict) else x for x in v]
        else:
            out[k] = v
    return out


def cap_fact(c, truth):
    """the fact (condition c has value truth) says `_threads.size() < _maxSize`, in any spelling of the comparison"""
    co = common.cmp_oriented(strip_casts(c), lambda x: (strip_casts(x) or {}).get("k") == "member" and strip_casts(x)["n"] == TP + "::_maxSize")
    if not co:
        return False
    l = strip_casts(co[1])
    return (co[0], truth) in (("<", True), (">=", False)) and l.get("k") == "mcall" and field_of(l.get("obj")) == TP + "::_threads" and last(l.get("callee", "")) == "size"


def below_cap_known(f, e):
    return any(cap_fact(c, t) for c, t in finite.dominating_facts(f, e))


def _def_from_cap(ctx, g, x, rhs, depth):
    """one definition `v = rhs` at element x of g: 'cap' (true only if the cap test was seen true), 'false', or 'other'"""
    rhs = strip_casts(rhs)
    if rhs is None:
        return "other"
    cv = const_value(rhs)
    if cv == 0:
        return "false"
    fl = finite.flatten_fact(rhs, True)
    if len(fl) == 1 and cap_fact(*fl[0]):
        return "cap"
    if cv == 1 and below_cap_known(g, x):
        return "cap"
    if rhs.get("k") == "var" and depth > 0 and var_from_cap(ctx, g, rhs, depth - 1):
        return "cap"
    return "other"


def var_from_cap(ctx, g, var, depth=3):
    """the bool variable `var` of g (a local or a by-value parameter) is true only if `_threads.size() < _maxSize` was seen true:
    every definition is that comparison, `true` under it, `false`, or another such variable; a parameter is judged at every call
    site of g; a local handed to a helper's `bool &` parameter is judged by the helper's assignments to that parameter.  The
    outcome of the cap test may travel through named bools and helper parameters without a rule losing sight of it."""
    if var.get("parm") is not None:
        if ((g.params[var["parm"]].get("t") or "").strip().endswith("&")):
            return False
        sites = [(cf, ce, cn) for (cf, ce, cn) in ctx.cg().callers.get(g.name, []) if cf.ok]
        if not sites:
            return False
        for (cf, ce, cn) in sites:
            args = cn.get("args", [])
            if len(args) <= var["parm"] or _def_from_cap(ctx, cf, ce, args[var["parm"]], depth) != "cap":
                return False
        return True
    d, defs = var.get("d"), []
    for e in g.stmts():
        n = e.node
        if n.get("k") == "decl":
            for v in n["vars"]:
                if v["d"] == d:
                    defs.append(_def_from_cap(ctx, g, e, v["init"], depth) if v.get("init") is not None else "other")
        elif n.get("k") in ("bin", "un"):
            l = strip_casts(n.get("lhs") or n.get("v") or {})
            if l is not None and l.get("k") == "var" and l.get("d") == d and l.get("parm") is None and access.classify(g, l) != "read":
                defs.append(_def_from_cap(ctx, g, e, n["rhs"], depth) if n.get("k") == "bin" and n["op"] == "=" else "other")
        elif n.get("k") in ("call", "mcall", "ctor"):
            h = helper(ctx, n)
            for j, a in enumerate(n.get("args", [])):
                a = strip_wrappers(a)
                if a is None or a.get("k") != "var" or a.get("d") != d or a.get("parm") is not None:
                    continue
                pt = ((h.params[j].get("t") or "") if h is not None and j < len(h.params) else "?").strip()
                if not pt.endswith("&") and pt != "?":
                    continue          # passed by value
                if h is None or pt.startswith("const "):
                    if h is None:
                        defs.append("other")      # handed to a function this rule cannot look into
                    continue
                for he in h.stmts():          # out-parameter of a helper: every write to it inside the helper
                    hn = he.node
                    if hn.get("k") in ("bin", "un"):
                        hl = strip_casts(hn.get("lhs") or hn.get("v") or {})
                        if hl is not None and hl.get("k") == "var" and hl.get("parm") == j and access.classify(h, hl) != "read":
                            defs.append(_def_from_cap(ctx, h, he, hn["rhs"], depth) if hn.get("k") == "bin" and hn["op"] == "=" else "other")
                    elif hn.get("k") in ("call", "mcall", "ctor") and any((strip_wrappers(y) or {}).get("parm") == j and (strip_wrappers(y) or {}).get("k") == "var" for y in hn.get("args", [])):
                        defs.append("other")      # forwarded further: not followed
    return "cap" in defs and "other" not in defs


def on_demand_spawn(ctx, f, e):
    """the spawnWorker() call at e happens only after `_threads.size() < _maxSize` was seen true — tested on a dominating branch,
    or carried there by a bool (`shouldSpawn`, a helper's parameter): a worker spawned for a task that was just accepted.  Every
    other spawn site creates workers unconditionally (constructor, start())."""
    for c, t in finite.dominating_facts(f, e):
        if cap_fact(c, t):
            return True
        c2 = strip_casts(c)
        if t and c2 is not None and c2.get("k") == "var" and var_from_cap(ctx, f, c2):
            return True
    return False


def spawn_sites(ctx):
    """[(function, element, on demand?)] for every spawnWorker() call in a named function of the pool"""
    out = []
    for f in ctx.fb().in_file(FILE):
        if not own(f) or f.kind == "lambda":
            continue
        for e in f.stmts():
            if is_spawn(e) and "root" in e.raw:
                out.append((f, e, on_demand_spawn(ctx, f, e)))
    return out


FLAG = TP + "::_shutdown"


def _flag_store(f, e):
    """None if element e does not write the shutdown flag; else ('set', constant) or ('havoc',)"""
    if e.kind == "init":
        if e.raw.get("field") != FLAG:
            return None
        v = e.raw.get("v")
        while v is not None and ((v.get("k") == "ilist" and len(v.get("vals", [])) == 1) or (v.get("k") == "ctor" and len(v.get("args", [])) == 1)):
            v = (v.get("vals") or v.get("args"))[0]
        cv = const_value(v) if v is not None else None
        return ("set", bool(cv)) if cv is not None else ("havoc",)
    if e.kind != "stmt":
        return None
    for (we, m, kind) in common.field_writes(f, FLAG):
        if we is e:
            p = f.nodes.get(f.parent.get(m["id"])) or {}
            cv = None
            if p.get("k") == "mcall" and p.get("obj") is m and last(p.get("callee", "")) in ("store", "exchange") and p.get("args"):
                cv = const_value(p["args"][0])
            elif p.get("k") == "opcall" and p.get("op") == "=" and len(p.get("args", [])) == 2 and p["args"][0] is m:
                cv = const_value(p["args"][1])
            elif p.get("k") == "bin" and p.get("op") == "=" and p.get("lhs") is m:
                cv = const_value(p["rhs"])
            return ("set", bool(cv)) if cv is not None else ("havoc",)
    return None


def flag_abs(ctx, f, init=T):
    """what the function itself knows about the shutdown flag at each point: the value it last stored (constructor initialiser,
    store(c), `= c` — directly or through a helper all of whose paths store it), or the outcome of its own test of the flag.
    Nothing is known at entry (init=T) unless the caller of a private helper supplies it.  (Knowledge is the caller's own last look at the flag; that another thread may change it later is
    R2's and R5's business, not this abstraction's.)"""
    def leaf(n):
        if (n.get("k") == "mcall" and field_of(n.get("obj")) == FLAG) or (n.get("k") == "member" and n["n"] == FLAG):
            return A("shutdown")
        return None

    def writes(val):
        return lambda x: (lambda w: w is not None and (w == ("set", val) if val is not None else True))(_flag_store(x.fn, x))

    def eff(e):
        w = _flag_store(f, e)
        if w is not None:
            return [("set", "shutdown", w[1])] if w[0] == "set" else [("havoc", "shutdown")]
        h = helper(ctx, e.node) if e.kind == "stmt" else None
        if h is not None and may(ctx, h, writes(None)):
            for val in (False, True):
                if always(ctx, h, writes(val)) and not may(ctx, h, lambda x, val=val: writes(None)(x) and not writes(val)(x)):
                    return [("set", "shutdown", val)]
            return [("havoc", "shutdown")]
        return None
    return PredAbs(f, Vocab(["shutdown"]), leaf, eff, init=init)


def flag_clear_at(ctx, f, e, depth=3):
    """the flag is known clear at element e of f: by f's own stores/tests, or — f being a private helper that keeps the flag clear
    from its entry to e — at every call site of f (so the spawn loop may be moved into a helper shared by constructor and start())"""
    return not flag_unknown_at(ctx, f, e, depth)


def flag_unknown_at(ctx, f, e, depth=3):
    """[(function, element)]: the places where the knowledge is missing (empty: the flag is known clear at e)"""
    clear = Not(A("shutdown"))
    if flag_abs(ctx, f).entails(e, clear):
        return []
    if depth > 0 and f.kind == "method" and f.access in ("private", "protected") and flag_abs(ctx, f, init=clear).entails(e, clear):
        sites = [(cf, ce) for (cf, ce, cn) in ctx.cg().callers.get(f.name, []) if cf.ok]
        if sites:
            return [x for (cf, ce) in sites for x in flag_unknown_at(ctx, cf, ce, depth - 1)]
    return [(f, e)]


def site_weight(ctx, f):
    """how many callers stand behind a spawn site: 1, or the number of call sites when the site is in a private helper"""
    if f.kind == "method" and f.access in ("private", "protected"):
        return max(1, len({(cf.name, ce.line) for (cf, ce, cn) in ctx.cg().callers.get(f.name, []) if cf.ok}))
    return 1


def r11(ctx, r):
    """workers are created only once the state they test on entry says 'running'.  A worker whose first look at the pool finds
    `_shutdown` set (and the queue empty) takes the shutdown exit at once; its joinable std::thread stays in `_threads` and keeps
    counting against `_maxSize`, so a pool whose initial workers all died that way accepts tasks that nobody runs.  Decided: at
    every unconditional spawn site (constructor, start() — every spawnWorker() call that is not the on-demand spawn behind the cap
    test) the creating function knows the flag clear: its own store of false (or the constructor's initialiser) comes before the
    spawn on every path, with no later store of true."""
    n = 0
    for (f, e, on_demand) in spawn_sites(ctx):
        if on_demand:
            continue
        n += site_weight(ctx, f)
        r.instance()
        bad = flag_unknown_at(ctx, f, e)
        (wf, we) = bad[0] if bad else (f, e)
        pa = flag_abs(ctx, wf)
        r.expect(not bad, wf, we, "workers created before the shutdown flag is cleared: %s" % short(wf.name),
                 "%s " % short(wf.name) + ("calls spawnWorker()" if wf is f else "calls %s (which spawns the workers at line %s)" % (short(f.name), e.line)) +
                 " at a point where it has not (on every path) stored false into `_shutdown` (known: %s): a worker started while the flag is still set from the previous stop() "
                 "sees `_shutdown && _tasks.empty()` on its first look and returns; its joinable thread stays in `_threads` and counts against `_maxSize`, so with initialSize == maxSize the restarted pool "
                 "accepts tasks (enqueue succeeds, no spawn, notify wakes nobody) that are never executed" % (",".join(pa.describe(we)) or "nothing about the flag"),
                 okdesc="%s: `_shutdown` is known false (own store / initialiser) at the spawn at line %s" % (short(f.name), e.line))
    if n < 2:
        raise AnalysisBroken("unconditional spawn sites: %d found (constructor and start() expected)" % n)


def r10(ctx, r):
    """(a) the workers started unconditionally (constructor, start()) never exceed the maximum; (b) a shutdown() that finds the
    shutdown already signalled does not return before the first caller has joined the workers"""
    fb, la = ctx.fb(), ctx.locks()
    ctors = [f for f in fb.functions if f.ok and f.kind == "ctor" and f.name == TP + "::<ctor>" and f.file.endswith(FILE)]
    if len(ctors) != 1:
        raise AnalysisBroken("ThreadPool constructors: %d" % len(ctors))
    ctor = ctors[0]
    inits = {}
    for e in ctor.elems():
        if e.kind == "init" and e.raw.get("field"):
            v = e.raw["v"]
            if v.get("k") == "ilist" and len(v.get("vals", [])) == 1:
                v = v["vals"][0]
            inits[e.raw["field"]] = v
    MAXF, SCALE = TP + "::_maxSize", TP + "::_workerScaling"
    if MAXF not in inits:
        raise AnalysisBroken("_maxSize has no constructor initialiser")
    # the members the bound is computed from keep their constructor value (const, or never written elsewhere)
    params = [p["n"] for p in ctor.params if finite._ty(p.get("t")) in finite.WIDTH]
    n = 0
    for f in fb.in_file(FILE):
        if not f.ok or not (f.cls == TP or f.name.startswith(TP + "::")) or f.kind == "lambda":
            continue
        for e in f.stmts():
            if not (e.node.get("k") == "mcall" and last(e.node.get("callee", "")) == "spawnWorker" and "root" in e.raw):
                continue
            # submit paths are R7's business: there the spawn is behind the `_threads.size() < _maxSize` test (tested on a dominating
            # branch or carried to the spawn by a bool local / helper parameter — on_demand_spawn)
            if on_demand_spawn(ctx, f, e):
                continue
            n += site_weight(ctx, f)
            r.instance()
            loops = [b for b in f.blocks.values() if b.term and b.term["k"] in ("ForStmt", "WhileStmt") and b.cond is not None and common.cmp_oriented(b.cond, lambda x: True)
                     and search(f, ("block", [s for i, s in enumerate(b.succs) if b.edge_label(i) is True][0]), lambda x: x is e, edge_ok=lambda bb, si: bb is not b) is not None]
            if len(loops) != 1:
                raise AnalysisBroken("%s: the spawn loop around spawnWorker() at line %s was not recognised" % (short(f.name), e.line))
            op, lhs, rhs = common.cmp_parts(loops[0].cond)
            lhs, rhs = strip_casts(lhs), strip_casts(rhs)
            if op == ">":
                op, lhs, rhs = "<", rhs, lhs
            # `i != N` with i counting up from 0 in steps of one runs exactly as often as `i < N` (N unsigned); either way round
            if op == "!=" and lhs.get("k") != "var" and rhs.get("k") == "var":
                lhs, rhs = rhs, lhs
            if op == "!=" and lhs.get("k") == "var" and any(st.node.get("k") == "decl" and any(v["d"] == rhs.get("d") and const_value(strip_casts(v.get("init") or {})) == 0 for v in st.node["vars"]) for st in f.stmts() if rhs.get("k") == "var"):
                lhs, rhs = rhs, lhs
            if op == "!=":
                op = "<"
            # count-down form `for (r = N; r > 0; --r)` (also `r != 0`): the loop runs as often as the value the counter holds when the
            # loop is reached; every definition of the counter outside the loop (initialiser, plain assignments on any branch) is
            # a possible value, so each of them is evaluated as a bound
            zero_side = [x for x in (lhs, rhs) if const_value(x) == 0]
            cv = lhs if (op in ("!=",) and const_value(rhs) == 0) else rhs if (op == "<" and const_value(lhs) == 0) or (op == "!=" and const_value(lhs) == 0) else None
            bounds = None
            if cv is not None and zero_side and cv.get("k") == "var" and cv.get("parm") is None:
                body0 = [sx for i, sx in enumerate(loops[0].succs) if loops[0].edge_label(i) is True][0]
                decs = [st for st in f.stmts() if st.node.get("k") == "un" and "--" in st.node.get("op", "") and strip_casts(st.node["v"]).get("d") == cv["d"]]
                defs, other = [], []
                for st in f.stmts():
                    nn = st.node
                    if nn.get("k") == "decl":
                        defs += [(st, v.get("init")) for v in nn["vars"] if v["d"] == cv["d"]]
                    elif nn.get("k") == "bin" and nn.get("op", "").endswith("=") and nn["op"] not in ("==", "!=", "<=", ">=") and strip_casts(nn["lhs"]).get("k") == "var" and strip_casts(nn["lhs"]).get("d") == cv["d"]:
                        (defs if nn["op"] == "=" else other).append((st, nn["rhs"]))
                    elif nn.get("k") == "un" and ("++" in nn.get("op", "") or nn.get("op") == "&") and strip_casts(nn["v"]).get("d") == cv["d"]:
                        other.append((st, None))
                in_loop = lambda st: st.block is loops[0] or search(f, ("block", body0), lambda x, st=st: x is st, edge_ok=lambda bb, si: bb is not loops[0]) is not None
                if len(decs) == 1 and in_loop(decs[0]) and not other and defs and all(v is not None and not in_loop(st) for (st, v) in defs):
                    bounds = [v for (st, v) in defs]
            if bounds is None:
                # the counter: a local initialised to 0 and incremented once per iteration
                ctr_ok = op == "<" and lhs.get("k") == "var" and any(st.node.get("k") == "decl" and any(v["d"] == lhs.get("d") and const_value(strip_casts(v.get("init") or {})) == 0 for v in st.node["vars"]) for st in f.stmts()) \
                    and sum(1 for st in f.stmts() if st.node.get("k") == "un" and st.node.get("op") in ("++", "pre++", "post++") and strip_casts(st.node["v"]).get("d") == lhs.get("d")) == 1
                if not ctr_ok:
                    raise AnalysisBroken("%s: spawn loop `%s` is neither the counting form `i = 0; i < N; ++i` nor the count-down form `r = N; r > 0; --r`" % (short(f.name), show(loops[0].cond)))
                bound = rhs
                if bound.get("k") == "var":
                    ds = [v for st in f.stmts() if st.node.get("k") == "decl" for v in st.node["vars"] if v["d"] == bound.get("d")]
                    wr = [st for st in f.stmts() if st.node.get("k") in ("assign", "bin", "un") and st.node.get("k") != "decl" and strip_casts(st.node.get("lhs") or st.node.get("v") or {}).get("d") == bound.get("d") and (st.node.get("k") != "bin" or st.node.get("op", "").endswith("=") and st.node["op"] not in ("==", "!=", "<=", ">="))]
                    if len(ds) != 1 or ds[0].get("init") is None or wr:
                        raise AnalysisBroken("%s: the loop bound %s is not a once-initialised local" % (short(f.name), show(bound)))
                    bound = ds[0]["init"]
                bounds = [bound]
            for bound in bounds:
                try:
                    tb = _subst_members(bound, inits, {SCALE: "scaling"})
                    tm = _subst_members({"k": "member", "n": MAXF}, inits, {})
                    names = params + ["scaling"]
                    fbnd, _, code = finite.compile_expr(tb, names)
                    fmax, _, _ = finite.compile_expr(tm, names)
                except finite.NotPure as ex:
                    raise AnalysisBroken("%s: spawn bound `%s` is outside the evaluable fragment (%s)" % (short(f.name), show(bound)[:80], ex))
                import itertools
                dom = (0, 1, 2, 3, 5, 2 ** 64 - 1)
                bad = None
                for vals in itertools.product(*([dom] * len(params) + [(0, 1)])):
                    if fbnd(*vals) > fmax(*vals):
                        bad = dict(zip(names, vals))
                        bad["workers"], bad["max"] = fbnd(*vals), fmax(*vals)
                        break
                r.expect(bad is None, f, e, "initial workers above the maximum: %s" % short(f.name),
                         "%s starts `%s` workers without testing the cap; with the constructor's initialisers that is %s workers for a maximum of %s (%s): the pool runs more "
                         "threads than its configured maximum from the first moment it accepts work" % (short(f.name), show(bound)[:70], bad and bad["workers"], bad and bad["max"],
                                                                                                      ", ".join("%s=%s" % kv for kv in (bad or {}).items() if kv[0] in params)),
                         okdesc="%s: `%s` <= _maxSize for all %d sampled constructor arguments (exact evaluation of the initialisers)" % (short(f.name), show(bound)[:50], len(dom) ** len(params) * 2))
    if n < 2:
        raise AnalysisBroken("unconditional spawn loops: %d found (constructor and start() expected)" % n)
    # the members keep that value
    for fld in (MAXF, TP + "::_initialSize"):
        for (f, e, nn, kind) in access.accesses(fb, fld, [FILE]):
            if kind in ("write", "rw") and f.kind != "ctor":
                r.instance()
                r.fail(f, e, "size limit rewritten: %s" % last(fld), "%s is written in %s: the cap the spawn decisions compare against is no longer the constructor's" % (last(fld), short(f.name)))
    # (b) second shutdown(): every way out is behind the joins, a wait, or a mutex that serialises the callers
    sd = fn(ctx, "shutdown")
    joins = [e for e in sd.stmts() if e.node.get("k") == "mcall" and (last(e.node.get("callee", "")) == "shutdownPhase4_JoinThreads" or e.node.get("callee") == "std::thread::join")]
    if not joins:
        raise AnalysisBroken("shutdown(): no join found")
    waits = [e for e in sd.stmts() if e.node.get("k") == "mcall" and e.node.get("callee", "").startswith("std::condition_variable") and last(e.node["callee"]) in common.CV_WAIT]
    fl = la.fn(sd)
    ser = []
    for e in sd.stmts():
        d = None
        if e.node.get("k") == "decl":
            for v in e.node["vars"]:
                lv = fl.lockvars.get(v["d"])
                if lv and not lv[2] and lv[0] and all(m != M for m in lv[0]):
                    d = v["d"]
        elif e.node.get("k") == "mcall" and e.node.get("callee") in ("std::unique_lock::lock",):
            o = strip_wrappers(e.node.get("obj"))
            lv = fl.lockvars.get(o.get("d")) if o is not None and o.get("k") == "var" else None
            if lv and lv[0] and all(m != M for m in lv[0]):
                d = o["d"]
        if d is None:
            continue
        # still held at every join: no release of that holder can be followed by a join
        rel = [x for x in sd.elems() if (x.kind == "dtor" and x.raw.get("d") == d) or (x.kind == "stmt" and x.node.get("k") == "mcall" and x.node.get("callee") in ("std::unique_lock::unlock", "std::unique_lock::release")
                                                                                       and (strip_wrappers(x.node.get("obj")) or {}).get("d") == d)]
        if all(search(sd, x, lambda y: y in joins, eh=False) is None for x in rel):
            ser.append(e)
    barrier = joins + waits + ser

    def resolved(c):
        """text of a condition with once-assigned bool locals replaced by what they were assigned"""
        txt = show(c)
        for x in walk(c):
            if x.get("k") == "var" and finite._ty(x.get("t")) == "bool":
                for st in sd.stmts():
                    if st.node.get("k") == "bin" and st.node.get("op") == "=" and strip_casts(st.node["lhs"]).get("d") == x.get("d"):
                        txt += " /* %s */" % show(st.node["rhs"])
        return txt

    def edge_ok(b, si):
        if b.cond is None:
            return True
        txt = resolved(b.cond)
        # a call made from a pool task cannot wait for the join of the worker it runs on
        if "this_thread::get_id()" in txt:
            return False
        return True
    w = search(sd, ("entry",), "exit", stop=lambda x: x in barrier, eh=False, edge_ok=edge_ok)
    r.instance()
    r.expect(w is None, sd, None, "second shutdown returns while the first still waits", "ThreadPool::shutdown() can return without having joined the workers, waited for the caller that is joining them, or taken a mutex that caller "
             "holds until the join (%s): `_shutdown` is set at the START of the first caller's shutdown, so a second shutdown() — or a stop() on a Draining pool — returns at once while an accepted task is still "
             "running and no worker has been joined" % witness_str(sd, w), okdesc="shutdown(): every return is behind the join, a wait, or the callers' serialising mutex")


# ------------------------------------------------------------------ R12: the spawn decision for a task that was just accepted
# A necessary condition of "an accepted task gets a worker": once the task is in the queue, whether a worker is created for it may
# depend on the capacity test `_threads.size() < _maxSize` and on the shutdown / accepting state only.  Every further conjunct is
# collected by dataflow from the push to the spawnWorker() call (branches the call is control-dependent on, bool locals by their
# definitions, helper parameters by the arguments of their call sites, helper results by their returns) and judged by what it READS:
# a counter the worker loop writes makes it an idleness estimate ("some worker is free, no thread needed") — and that estimate is
# wrong whenever the worker lowers the counter while it still runs user code, i.e. before the task object and its captures are
# destroyed.

def _members_read(c):
    return sorted({x["n"]: x for x in walk(c) if x.get("k") == "member" and (x.get("n") or "").startswith(TP + "::")}.items())


def _counter_op(n):
    """(field, '+' | '-' | '=') when the root node n writes an (atomic) member counter, else None"""
    k = n.get("k")
    if k == "opcall" and n.get("args"):
        fld, op = field_of(n["args"][0]), n.get("op")
        kind = "+" if op in ("++", "+=") else "-" if op in ("--", "-=") else "=" if op in ("=", "|=", "&=", "^=", "*=", "/=") else None
    elif k == "mcall":
        fld, m = field_of(n.get("obj")), last(n.get("callee", ""))
        kind = "+" if m == "fetch_add" else "-" if m == "fetch_sub" else "=" if m in ("store", "exchange", "compare_exchange_weak", "compare_exchange_strong") else None
    elif k == "un" and ("++" in n.get("op", "") or "--" in n.get("op", "")):
        fld, kind = field_of(n.get("v")), "+" if "++" in n["op"] else "-"
    elif k == "bin" and n.get("op", "").endswith("=") and n["op"] not in ("==", "!=", "<=", ">="):
        fld, kind = field_of(n.get("lhs")), "+" if n["op"] == "+=" else "-" if n["op"] == "-=" else "="
    else:
        return None
    return (fld, kind) if fld and kind and fld.startswith(TP + "::") else None


def worker_writes(ctx):
    """{member: [(function, element, '+' | '-' | '=' | '?')]}: what the worker loop (its body and the local lambdas of it) writes"""
    w = worker(ctx)
    out = {}
    for g in [w] + [lf for (_, lf) in w.lambdas if lf.ok]:
        seen = set()
        for e in g.stmts():
            co = _counter_op(e.node)
            if co is not None:
                if not any(y.get("id") in seen for y in walk(e.node)):      # (the root of a write, not its sub-expressions again)
                    out.setdefault(co[0], []).append((g, e, co[1]))
                seen.update(y["id"] for y in walk(e.node) if "id" in y)
        for x in g.nodes.values():        # any other kind of write (container mutators, …): recorded as unclassified
            if x.get("k") == "member" and (x.get("n") or "").startswith(TP + "::") and x["id"] not in seen and access.classify(g, x) in ("write", "rw"):
                out.setdefault(x["n"], []).append((g, g.elem_for(x), "?"))
    return out


def spawn_decision(ctx, f):
    """[(function, condition node, truth, element it decides)]: the atomic conditions on which — after the task was queued — the
    spawnWorker() call of submit function f depends.  Facts that already dominate the push are acceptance tests, not part of it."""
    cg = ctx.cg()
    sw = fn(ctx, "spawnWorker")
    scope = [f] + [h for h in helpers_from(ctx, f) if h.name != sw.name]
    spawns = [(g, e) for g in scope for e in g.stmts() if is_spawn(e)]
    if len(spawns) != 1:
        raise AnalysisBroken("%s: %d spawnWorker() calls on the submit path" % (short(f.name), len(spawns)))
    out, busy = [], set()

    def local_facts(g, e):
        """facts that dominate e in g and are not already established when the task is pushed (in g or in a helper called from g)"""
        pp = may(ctx, g, is_push)
        excl = None
        for p_ in pp:
            ids = {c["id"] for (c, t) in finite.dominating_facts(g, p_)}
            excl = ids if excl is None else excl & ids
        return [(c, t) for (c, t) in finite.dominating_facts(g, e) if c["id"] not in (excl or ())]

    def reach(g, e, depth):
        """everything that decides whether element e of g is executed: the facts in g, then those at g's call sites up to f"""
        key = (g.name, e.block.id, e.idx)
        if key in busy:
            return
        busy.add(key)
        for (c, t) in local_facts(g, e):
            expand(g, c, t, e, depth)
        if g is not f:
            sites = [(cf, ce) for (cf, ce, cn) in cg.callers.get(g.name, []) if any(cf is x for x in scope) and ce is not None]
            if not sites:
                raise AnalysisBroken("%s: no call site of %s on the submit path" % (short(f.name), short(g.name)))
            for (cf, ce) in sites:
                reach(cf, ce, depth)

    def definition(g, x, rhs, t, depth):
        """one definition `v = rhs` at element x: the value t of v comes from there only if rhs has it and x is executed"""
        cv = const_value(strip_casts(rhs)) if rhs is not None else None
        if cv in (0, 1):
            if bool(cv) == t:
                for (c, t2) in local_facts(g, x):
                    expand(g, c, t2, x, depth - 1)
            return
        if rhs is None:
            out.append((g, {"k": "?", "id": -1}, t, x))
            return
        for (c, t2) in finite.flatten_fact(rhs, t):
            expand(g, c, t2, x, depth - 1)

    def expand(g, c, t, at, depth):
        c = strip_casts(c)
        if depth <= 0 or c is None:
            out.append((g, c or {"k": "?", "id": -1}, t, at))
            return
        if c.get("k") == "var" and finite._ty(c.get("t")) == "bool":
            if c.get("parm") is not None:
                sites = [(cf, ce, cn) for (cf, ce, cn) in cg.callers.get(g.name, []) if any(cf is x for x in scope)]
                if not (g.params[c["parm"]].get("t") or "").strip().endswith("&") and sites and g.kind != "lambda" and all(len(cn.get("args", [])) > c["parm"] for (_, _, cn) in sites):
                    for (cf, ce, cn) in sites:
                        for (c2, t2) in finite.flatten_fact(cn["args"][c["parm"]], t):
                            expand(cf, c2, t2, ce, depth - 1)
                    return
                out.append((g, c, t, at))
                return
            d, n0 = c.get("d"), len(out)
            found = False
            for x in g.stmts():
                n = x.node
                if n.get("k") == "decl":
                    for v in n["vars"]:
                        if v["d"] == d:
                            found = True
                            definition(g, x, v.get("init"), t, depth)
                elif n.get("k") in ("bin", "un"):
                    l = strip_casts(n.get("lhs") or n.get("v") or {})
                    if l is not None and l.get("k") == "var" and l.get("d") == d and l.get("parm") is None and access.classify(g, l) != "read":
                        definition(g, x, n["rhs"] if n.get("k") == "bin" and n["op"] == "=" else None, t, depth)
                elif n.get("k") in ("call", "mcall", "ctor"):
                    h = helper(ctx, n)
                    for j, a in enumerate(n.get("args", [])):
                        a = strip_wrappers(a)
                        if a is None or a.get("k") != "var" or a.get("d") != d or a.get("parm") is not None:
                            continue
                        pt = ((h.params[j].get("t") or "") if h is not None and j < len(h.params) else "?").strip()
                        if (not pt.endswith("&") and pt != "?") or pt.startswith("const "):
                            continue          # by value / const reference: read only
                        if h is None:
                            out.append((g, c, t, x))      # written by a function this rule cannot look into
                            continue
                        for he in h.stmts():          # out-parameter of a helper: its assignments inside the helper
                            hn = he.node
                            if hn.get("k") in ("bin", "un"):
                                hl = strip_casts(hn.get("lhs") or hn.get("v") or {})
                                if hl is not None and hl.get("k") == "var" and hl.get("parm") == j and access.classify(h, hl) != "read":
                                    definition(h, he, hn["rhs"] if hn.get("k") == "bin" and hn["op"] == "=" else None, t, depth)
                            elif hn.get("k") in ("call", "mcall", "ctor") and any((strip_wrappers(y) or {}).get("parm") == j and (strip_wrappers(y) or {}).get("k") == "var" for y in hn.get("args", [])):
                                out.append((h, hn, t, he))
            if not found:
                out.append((g, c, t, at))
            return
        h = helper(ctx, c)
        if h is not None and finite._ty(c.get("t")) == "bool":
            for x in common.returns(h):
                definition(h, x, x.node.get("v"), t, depth)
            return
        # a helper's result compared with a constant (`admit(...) != Accepted`, also through a once-initialised local): the fact
        # stands for the helper's returns of the constants that give the comparison this value, and for what decides those returns
        for (op, a, b) in common.cmp_both(c):
            k, h = const_value(strip_casts(b)), helper(ctx, through_locals(g, a))
            if op in ("==", "!=") and k is not None and h is not None:
                rets = common.returns(h)
                if rets and all(const_value(strip_casts(x.node.get("v") or {})) is not None for x in rets):
                    for x in rets:
                        if ((const_value(strip_casts(x.node["v"])) == k) == (op == "==")) == t:
                            for (c2, t2) in local_facts(h, x):
                                expand(h, c2, t2, x, depth - 1)
                    return
        out.append((g, c, t, at))
    reach(spawns[0][0], spawns[0][1], 6)
    return spawns[0], out


def r12(ctx, r):
    """after the push, the spawn decision is the capacity test (and the shutdown state) only; an idleness estimate over a counter the
    worker lowers before it has destroyed the finished task strands a task submitted from a destructor of that task's captures"""
    ww = worker_writes(ctx)
    w = worker(ctx)
    fronts = [e for e in w.stmts() if tasks_call(e.node, ("front",))]
    if len(fronts) != 1:
        raise AnalysisBroken("worker: %d reads of _tasks.front()" % len(fronts))
    fr, td, is_task, calls, runner, is_rt, rcalls = _task_holder(w, fronts[0])
    # where the finished task object (the closure and everything it captured) is destroyed: the task local is overwritten
    rel = [e for e in runner.stmts() if e.node.get("k") == "opcall" and e.node.get("op") == "=" and is_rt(strip_wrappers(e.node["args"][0])) and not any(x is fr for x in walk(e.node))]

    def state_only(c):
        """reads only flags / state enums of the pool that the worker never writes (`_shutdown`, `_accepting`, a state enum)"""
        ms = _members_read(c)
        return bool(ms) and all(n not in ww and (finite._ty(strip_atomic(m.get("t"))) == "bool" or is_enum(m.get("t"))) for (n, m) in ms) and \
            not any(x.get("k") in ("call", "mcall") and last(x.get("callee", "")) not in ("load", "operator bool", "operator std::__atomic_base::__int_type", "operator __int_type") and not last(x.get("callee", "")).startswith("operator ") for x in walk(c))

    def strip_atomic(t):
        t = (t or "").replace("const ", "").replace("volatile ", "").strip()
        for pre in ("std::atomic<", "std::__atomic_base<"):
            if t.startswith(pre) and t.endswith(">"):
                return t[len(pre):-1].strip()
        return "bool" if t == "std::atomic_bool" else t

    def is_enum(t):
        t = strip_atomic(t)
        return any(x.get("k") == "enum" and (x.get("t") or "").replace("const ", "") == t for g in (fn(ctx, "tryEnqueueImpl"), fn(ctx, "shutdown")) for x in g.nodes.values()) or t.startswith("enum ")

    for nm in ("tryEnqueueImpl", "enqueueImpl"):
        f = fn(ctx, nm)
        (sg, se), atoms = spawn_decision(ctx, f)
        caps = [a for a in atoms if cap_fact(a[1], a[2])]
        r.instance()
        if not caps:
            raise AnalysisBroken("%s: the capacity test `_threads.size() < _maxSize` was not found among the conditions of the spawnWorker() call after the push" % nm)
        seen = set()
        for (g, c, t, at) in atoms:
            key = (g.name, c.get("id"), t)
            if key in seen or cap_fact(c, t):
                continue
            seen.add(key)
            est = [n for (n, m) in _members_read(c) if n in ww]
            # (the queue and the worker map are written by the worker too, but under the pool lock the submitter holds: their sizes
            # are exact here; only the lock-free counters are estimates.  A conjunct over them without a counter is not classified.)
            ctr = [n for n in est if any(k in ("+", "-", "=") for (_, _, k) in ww[n])]
            if ctr:
                for n in ctr:
                    drops = [(wg, we) for (wg, we, k) in ww[n] if k in ("-", "=", "?")]
                    if not drops or not rel or any(wg is not runner or we is None for (wg, we) in drops):
                        raise AnalysisBroken("%s: the spawn decision reads %s (`%s`), but where the worker lowers it relative to the destruction of the task object was not recognised" % (nm, last(n), show(c)[:80]))
                    early = [we for (wg, we) in drops if not any(elem_dominates(runner, x, we) for x in rel)]
                    r.instance()
                    if early:
                        r.fail(g, at if at is not None else se, "spawn decided by an idleness estimate: %s" % nm,
                               "%s: after the task was queued, spawnWorker() is called only if `%s` is %s (line %s) — an estimate of idle workers from %s, which the worker loop lowers at line %s, "
                               "BEFORE the finished task object is destroyed (line %s).  A worker that is still running the destructors of a finished task's captures counts as free: a task submitted from such a "
                               "destructor is accepted, gets no new worker although `_threads.size() < _maxSize` holds, and notify_one() wakes nobody — if the destructor waits for it, the accepted task never runs" % (
                                   short(f.name), show(c)[:110], "true" if t else "false", c.get("l") or getattr(at, "line", "?"), last(n), early[0].line, rel[0].line))
                    else:
                        raise AnalysisBroken("%s: the spawn decision after the push contains the idleness estimate `%s` over %s (lowered by the worker only after the task object is destroyed): "
                                             "whether an accepted task still gets a worker under such an estimate is not modelled by this rule" % (nm, show(c)[:80], last(n)))
                continue
            if not est and state_only(c):
                r.instance()
                r.ok("%s: spawn also conditioned on the pool state `%s`" % (nm, show(c)[:40]))
                continue
            raise AnalysisBroken("%s: the spawnWorker() call after the push also depends on `%s` (%s), which is neither the capacity test, a shutdown/accepting-state test, nor a worker counter this rule can judge" % (
                nm, show(c)[:80], short(g.name)))
        r.ok("%s: after the push the spawn depends on `_threads.size() < _maxSize` only" % nm)


def run(ctx, ck):
    ck.run_rule("C09-R1", "lock table of the pool", "A1 guarded-by", lambda r: r1(ctx, r))
    ck.run_rule("C09-R2", "acceptance is atomic with the shutdown and queue-limit tests", "A5 + A1, sibling", lambda r: r2(ctx, r))
    ck.run_rule("C09-R3", "a dequeued task runs exactly once, lock-free, exception-safe", "A5 ghost counting + A1", lambda r: r3(ctx, r))
    ck.run_rule("C09-R4", "workers leave only with the queue empty under the lock", "A5 with wait_for semantics", lambda r: r4(ctx, r))
    ck.run_rule("C09-R5", "destruction/stop signal under the lock, notify all, join everything", "A2 + A5", lambda r: r5(ctx, r))
    ck.run_rule("C09-R6", "result-returning submit: packaged_task protocol", "A10", lambda r: r6(ctx, r))
    ck.run_rule("C09-R7", "thread cap is decided in the inserting critical section", "A5 + A1", lambda r: r7(ctx, r))
    ck.run_rule("C09-R9", "refusals have a closed set of reasons; an accepted task always gets a worker and a wake-up", "A2 dominance + closed table", lambda r: r9(ctx, r))
    ck.run_rule("C09-R10", "initial workers bounded by the maximum; a second shutdown() waits for the first", "A10 exact evaluation of the constructor's initialisers + A2 barrier search", lambda r: r10(ctx, r))
    ck.run_rule("C09-R11", "workers are created only after the creating function cleared the shutdown flag", "A5 over the function's own stores/tests of the flag + A2", lambda r: r11(ctx, r))
    ck.run_rule("C09-R12", "after the push the spawn decision is the capacity test only; idleness estimates are judged against the worker's counter updates", "A2 dominance + dataflow from push to spawn, sibling: worker bookkeeping", lambda r: r12(ctx, r))
    ck.run_rule("C09-R8", "condition-variable discipline for the worker wait", "A1", lambda r: r8(ctx, r))
