"""C11 — Persistent stores recover every acknowledged write after a crash (DESIGN.md §2 C11)."""
from .. import access
from ..cfg import search, witness_str, elem_dominates
from ..expr import show, walk, last, field_of, strip_wrappers, strip_casts, short, const_value, access_path
from ..facts import AnalysisBroken
from ..predabs import Vocab, PredAbs, A, Not, And, Or, T, F
from ..rules import common
from ..window import Window, lin, form, show_form

TITLE = "Persistent stores recover every acknowledged write after a crash"
TECHNIQUE = 'custom static analysis over clang-14 CFG facts: closed set of file-mutating call sites with constant open modes, ordering chains by dominance/search, cursor-window abstract interpretation of the log decoder'
KV = "iora::storage::KVStore"
JS = "iora::storage::JsonFileStore"
KVF, JSF = "iora/storage/kvstore.hpp", "iora/storage/json_file_store.hpp"
M = KV + "::_mutex"
IOS_APP, IOS_TRUNC, IOS_OUT, IOS_BIN = 1, 32, 16, 4      # libstdc++ _Ios_Openmode: app=1 ate=2 bin=4 in=8 out=16 trunc=32

EXPLANATION = (
    "Crash points are prefixes of the sequence of file operations; what is decided statically is the ORDER and PAIRING of those "
    "operations on every path: R1 closed set of file-mutating sites in kvstore.hpp/json_file_store.hpp with the path each applies to and "
    "its open mode (the snapshot and the JSON store are only ever rename destinations; the log is opened for append, truncated only after a "
    "successful snapshot rename, cut only in load()); R2 every public mutator returns normally only after writeLogEntry for its change "
    "(ghost atoms dirty/logged), and writeLogEntry itself writes three checked pieces, throws on failure and flushes; R3 the compaction "
    "chain temp(trunc) ≺ writes ≺ flush+good ≺ stream closed ≺ rename ≺ error test ≺ log truncation ≺ reopen; R4 compaction runs under the "
    "exclusive store mutex from survivor computation to log reset; R5 the log-record decoder never reads outside the record (cursor-window "
    "abstract interpretation with symbolic lengths, each length bounded by a constant first); R6 the torn tail is cut back to the end of the "
    "last completely read record on every path from the replay loop to the append-mode open; R7 whole-file stores are written to a temp "
    "file, closed, checked and renamed — never truncated in place.")
NOT_DECIDED = ["what survives in the OS cache (the property's own model assumption)", "fsync / torn sector writes", "byte-offset cuts inside one write (R5/R6 make every cut a torn tail)",
               "the admissible-state oracle itself"]


def kvf(ctx, name):
    return ctx.fb().func(KV + "::" + name, file_suffix=KVF)


def path_name(n):
    """which store path an expression names"""
    n = strip_wrappers(n)
    while n is not None and n.get("k") in ("ctor", "mcall") and (n.get("args") or n.get("obj")):
        if n.get("k") == "mcall" and last(n.get("callee", "")) == "c_str":
            n = strip_wrappers(n.get("obj"))
        elif n.get("k") == "ctor" and len(n["args"]) >= 1:
            n = strip_wrappers(n["args"][0])
        else:
            break
    if n is None:
        return None
    f = field_of(n)
    if f:
        return last(f)
    if n.get("k") == "var":
        return "local:" + n["n"]
    return show(n)[:40]


def file_sites(fb, files):
    """(Function, Elem, kind, path, mode) for every file-mutating call"""
    out = []
    for f in fb.functions:
        if not f.ok or not f.file.endswith(tuple(files)):
            continue
        for e in f.stmts():
            n = e.node
            k = n.get("k")
            if k == "ctor" and n.get("cls") == "std::basic_ofstream" and n["args"]:
                args = [a for a in n["args"]]
                mode = const_value(args[1]) if len(args) > 1 else None
                out.append((f, e, "ofstream", path_name(args[0]), (mode if mode is not None else IOS_OUT) | IOS_OUT))
            elif k == "mcall" and n.get("callee") in ("std::basic_ofstream::open", "std::basic_fstream::open") and n["args"]:
                mode = const_value(n["args"][1]) if len(n["args"]) > 1 else None
                out.append((f, e, "open", path_name(n["args"][0]), (mode if mode is not None else IOS_OUT) | IOS_OUT))
            elif k == "ctor" and n.get("cls") == "std::basic_fstream" and n["args"]:
                out.append((f, e, "fstream", path_name(n["args"][0]), const_value(n["args"][1]) if len(n["args"]) > 1 else None))
            elif k == "call" and n.get("callee") in ("std::filesystem::rename", "rename"):
                out.append((f, e, "rename", (path_name(n["args"][0]), path_name(n["args"][1])), None))
            elif k == "call" and n.get("callee") in ("std::filesystem::remove", "std::filesystem::remove_all", "remove", "unlink"):
                out.append((f, e, "remove", path_name(n["args"][0]), None))
            elif k == "call" and n.get("callee") in ("std::filesystem::resize_file", "truncate", "ftruncate"):
                out.append((f, e, "resize", path_name(n["args"][0]), None))
            elif k == "call" and n.get("callee") in ("open", "creat", "fopen", "openat"):
                out.append((f, e, n["callee"], path_name(n["args"][0]), const_value(n["args"][1]) if len(n["args"]) > 1 else None))
            elif k == "call" and n.get("callee") in ("std::filesystem::copy_file", "std::filesystem::copy", "std::filesystem::create_hard_link"):
                out.append((f, e, "copy", (path_name(n["args"][0]), path_name(n["args"][1])), None))
    return out


def r1(ctx, r):
    fb = ctx.fb()
    sites = file_sites(fb, (KVF, JSF))
    if len(sites) < 9:
        raise AnalysisBroken("only %d file-mutating sites found in the stores (floor 9)" % len(sites))
    allowed = {
        # (function, kind, path) -> predicate on mode
        ("openLogFile", "open", "_logPath"): lambda m: m is not None and m & IOS_APP and not m & IOS_TRUNC,
        ("compactLocked", "ofstream", "_tempPath"): lambda m: m is not None and m & IOS_TRUNC,
        ("compactLocked", "rename", ("_tempPath", "_path")): lambda m: True,
        ("compactLocked", "remove", "_tempPath"): lambda m: True,
        ("compactLocked", "ofstream", "_logPath"): lambda m: m is not None and m & IOS_TRUNC,    # log reset after the snapshot rename (order: R3)
        ("load", "resize", "_logPath"): lambda m: True,
        ("flush", "open", "_logPath"): lambda m: m is not None and (m & 0o2000) and not (m & 0o1000),   # O_APPEND, not O_TRUNC (fsync handle)
        ("saveToFile", "ofstream", "local:tempFilename"): lambda m: True,
        ("saveToFile", "rename", ("local:tempFilename", "_filename")): lambda m: True,
        ("saveToFile", "remove", "local:tempFilename"): lambda m: True,
    }
    for (f, e, kind, path, mode) in sites:
        r.instance()
        key = (last(f.name), kind, path)
        ok = key in allowed and allowed[key](mode)
        r.expect(ok, f, e, "%s %s" % (kind, path if isinstance(path, str) else "→".join(map(str, path))),
                 "%s performs `%s` on %s (mode %s), which is not in the closed set of file operations the crash-consistency argument covers: the snapshot / JSON file may only be a "
                 "rename destination, the log may only be appended to, cut in load() or reset after a successful snapshot rename" % (short(f.name), kind, path, mode),
                 okdesc="%s: %s %s" % (short(f.name), kind, path))
    # the temp path of the JSON store is derived from the durable name
    sv = fb.func(JS + "::saveToFile", file_suffix=JSF)
    tv = [v for e in sv.stmts() if e.node.get("k") == "decl" for v in e.node["vars"] if v["n"] == "tempFilename"]
    r.instance()
    r.expect(len(tv) == 1 and "_filename" in show(tv[0].get("init") or {}), sv, None, "temp name", "the temp file of JsonFileStore is not derived from _filename (rename must stay on one filesystem)",
             okdesc="tempFilename = _filename + suffix")


MUTATORS_PUBLIC = ("set", "remove", "setBatch", "expireAt", "persist")


def r2(ctx, r):
    fb = ctx.fb()
    n = 0
    for f in fb.methods_of(KV):
        if not f.ok or f.access != "public" or last(f.name) not in MUTATORS_PUBLIC:
            continue
        n += 1
        muts = [e for fld in ("_kv", "_expiry") for (e, nn, k) in common.field_writes(f, KV + "::" + fld)]
        logs = [e for e in f.stmts() if e.node.get("k") == "mcall" and e.node.get("callee") == KV + "::writeLogEntry"]
        vocab = Vocab(["dirty", "logged"])

        def eff(e, muts=muts, logs=logs):
            if e in logs:
                return [("set", "logged", True)]
            if e in muts and not e.catch_id:
                return [("set", "dirty", True)]
            return None
        pa = PredAbs(f, vocab, lambda nn: None, eff, init=And(Not(A("dirty")), Not(A("logged"))), eh_after=False)
        r.instance()
        bad = [ret for ret in common.returns(f) if not pa.entails(ret, Or(Not(A("dirty")), A("logged")))]
        okexit = pa.exit_entails(Or(Not(A("dirty")), A("logged")))
        if not okexit and not bad:
            # batch form: memory is updated in one range-for over the batch and the log is written in a second range-for over
            # the SAME container (zero iterations of the second loop imply zero of the first)
            loops = [b for b in f.blocks.values() if b.term and b.term["k"] == "CXXForRangeStmt"]
            ranges = {}
            for e in f.stmts():
                if e.node.get("k") == "decl":
                    for v in e.node["vars"]:
                        if v["n"].startswith("__range") and v.get("init") is not None:
                            ranges[v["n"]] = show(strip_wrappers(v["init"]))

            def loop_of(e):
                for b in loops:
                    body = b.succs[0]
                    if body is not None and search(f, ("block", body), lambda x: x is e, stop=lambda x, b=b: x in b.elems, eh=False) is not None:
                        return b
                return None

            def range_of(b):
                for x in walk(b.cond or {}):
                    if x.get("k") == "var" and x["n"].startswith("__begin"):
                        return ranges.get("__range" + x["n"][len("__begin"):])
                return None
            ml = {id(loop_of(e)): loop_of(e) for e in muts if not e.catch_id}
            ll = {id(loop_of(e)): loop_of(e) for e in logs}
            if len(ml) == 1 and len(ll) == 1 and None not in ml.values() and None not in ll.values():
                mb, lb = list(ml.values())[0], list(ll.values())[0]
                same = range_of(mb) is not None and range_of(mb) == range_of(lb) and mb is not lb
                body = lb.succs[0]
                every = body is not None and search(f, ("block", body), lambda x: x in lb.elems, stop=lambda x: x in logs, eh=False) is None
                after = search(f, ("block", lb.succs[1]), lambda x: x in mb.elems, eh=False) is None if lb.succs[1] is not None else True
                noret = not any(search(f, ("block", mb.succs[1]), lambda x, rr=rr: x is rr, stop=lambda x: x in lb.elems, eh=False) is not None for rr in common.returns(f)) if mb.succs[1] is not None else False
                if same and every and after and noret:
                    okexit = True
                    r.note("%s: batch form — log loop over the same container `%s` as the mutation loop" % (last(f.name), range_of(mb)))
        # exits through a catch handler end in `throw`, never in a normal return: make sure of it
        handlers_ok = True
        for b in f.blocks.values():
            if b.label and b.label.get("k") == "catch":
                if search(f, ("block", b.id), "exit", stop=lambda x: x.kind == "stmt" and x.node.get("k") == "throw", eh=False) is not None:
                    handlers_ok = False
        r.expect(not bad and okexit and handlers_ok, f, bad[0] if bad else None, "%s acknowledges without logging" % last(f.name),
                 "KVStore::%s(%s) can return normally after changing the in-memory state without a writeLogEntry for it (or swallows a failed log write): the acknowledged change is lost by a crash" % (
                     last(f.name), ",".join(p["n"] for p in f.params)), okdesc="%s(%d args): every normal return after a mutation passed writeLogEntry" % (last(f.name), len(f.params)))
    if n < 7:
        raise AnalysisBroken("only %d public mutators of KVStore found" % n)
    # writeLogEntry: three checked writes, throw on failure, flush on the way out
    wl = kvf(ctx, "writeLogEntry")
    writes = [e for e in wl.stmts() if e.node.get("k") == "mcall" and last(e.node.get("callee", "")) == "write" and field_of(e.node.get("obj")) == KV + "::_logStream"]
    flushes = [e for e in wl.stmts() if e.node.get("k") == "mcall" and last(e.node.get("callee", "")) == "flush" and field_of(e.node.get("obj")) == KV + "::_logStream"]
    r.instance()
    r.expect(len(writes) == 3, wl, None, "log record pieces", "writeLogEntry writes %d pieces, expected length, payload, checksum" % len(writes), okdesc="three writes: length, payload, crc")
    for wcall in writes:
        r.instance()
        # the write is part of a branch condition whose failing edge throws
        blk = [b for b in wl.blocks.values() if b.cond is not None and any(x is wcall.node for x in walk(b.cond))]
        ok = False
        for b in blk:
            c = b.cond
            neg = c.get("k") in ("un", "opcall") and (c.get("op") == "!")
            fail = 0 if neg else 1
            s = b.succs[fail]
            if s is not None and search(wl, ("block", s), "exit", stop=lambda x: x.kind == "stmt" and x.node.get("k") == "throw", eh=False) is None:
                ok = True
        r.expect(ok, wl, wcall, "write result dropped", "a failed _logStream.write in writeLogEntry does not lead to a throw: the storage error is dropped and the write acknowledged",
                 okdesc="failed write ⇒ throw")
    r.instance()
    w = search(wl, writes[-1], "exit", stop=lambda x: x in flushes, eh=False, edge_ok=None) if writes else None
    # the throwing exits are not normal exits: search() stops at throw elements implicitly? make them stops
    w = search(wl, writes[0], "exit", stop=lambda x: x in flushes or (x.kind == "stmt" and x.node.get("k") == "throw"), eh=False) if writes else None
    r.expect(bool(flushes) and w is None, wl, None, "no flush", "writeLogEntry can return normally without flushing the log stream: the record may still be in the process's buffer when the call is acknowledged",
             witness=witness_str(wl, w), okdesc="normal exit passes _logStream.flush()")
    # payload protected by the checksum that load() verifies
    crc = [e for e in wl.stmts() if e.node.get("k") == "mcall" and e.node.get("callee") == KV + "::crc32"]
    r.instance()
    r.expect(len(crc) == 1 and show(crc[0].node["args"][0]) == "buffer" and all(elem_dominates(wl, crc[0], x) for x in writes), wl, None, "checksum", "the record checksum is not computed over the whole payload before it is written",
             okdesc="crc32(buffer) before the writes")


def r3_r4(ctx, r3, r4):
    fb, la = ctx.fb(), ctx.locks()
    f = kvf(ctx, "compactLocked")
    sites = {(kind, path if isinstance(path, str) else path): e for (g, e, kind, path, mode) in file_sites(fb, (KVF,)) if g is f}
    tmp = sites.get(("ofstream", "_tempPath"))
    ren = sites.get(("rename", ("_tempPath", "_path")))
    clr = sites.get(("ofstream", "_logPath"))
    if not (tmp and ren and clr):
        raise AnalysisBroken("compactLocked: temp open / rename / log reset not all found")
    flushes = [e for e in f.stmts() if e.node.get("k") == "mcall" and last(e.node.get("callee", "")) == "flush" and (e.node.get("obj") or {}).get("k") == "var"]
    goods = [b for b in f.blocks.values() if b.cond is not None and "good()" in show(b.cond)]
    wkv = [e for e in f.stmts() if e.node.get("k") == "mcall" and e.node.get("callee") in (KV + "::writeKeyValue", KV + "::writeHeader")]
    tmpvar = None
    pe = f.nodes.get(f.parent.get(tmp.node["id"]))
    for e in f.stmts():
        if e.node.get("k") == "decl":
            for v in e.node["vars"]:
                if v.get("init") is tmp.node:
                    tmpvar = v
    dtor = [e for e in f.elems() if e.kind == "dtor" and tmpvar and e.raw.get("d") == tmpvar["d"]]
    opens = [e for e in f.stmts() if e.node.get("k") == "mcall" and e.node.get("callee") == KV + "::openLogFile"]
    ectest = [b for b in f.blocks.values() if b.cond is not None and show(b.cond).replace(" ", "") in ("ec.operatorbool()", "ec", "!ec", "!ec.operatorbool()") and b.elems and elem_dominates(f, ren, b.elems[-1])]
    chain = [("temp file opened with trunc", [tmp]), ("snapshot records written", wkv), ("flush", flushes), ("temp stream destroyed (closed)", dtor), ("rename temp → snapshot", [ren]),
             ("log truncated", [clr]), ("log reopened for append", opens)]
    for i in range(len(chain) - 1):
        a, b = chain[i], chain[i + 1]
        r3.instance()
        ok = bool(a[1]) and bool(b[1])
        if ok:
            # every b is preceded by some a on all paths, and no b can run before a
            for y in b[1]:
                if search(f, ("entry",), lambda x, y=y: x is y, stop=lambda x, a=a: x in a[1], eh=False) is not None:
                    ok = False
        r3.expect(ok, f, (b[1] or a[1] or [None])[0], "%s before %s" % (b[0], a[0]), "compaction order broken: `%s` can happen without `%s` having happened first — a crash in between leaves neither the "
                  "old snapshot+log nor the new snapshot complete" % (b[0], a[0]), okdesc="%s ≺ %s" % (a[0], b[0]))
    r3.instance()
    r3.expect(bool(goods) and all(search(f, ("entry",), lambda x: x is ren, stop=lambda x, b=b: x in b.elems, eh=False) is None for b in goods), f, ren, "rename without good()",
              "the snapshot rename is reachable without the temp stream's state having been tested after the flush", okdesc="good() tested before rename")
    r3.instance()
    ok = False
    for b in ectest:
        # on the error edge the log is NOT truncated
        err_edge = 0 if not show(b.cond).startswith("!") else 1
        s = b.succs[err_edge]
        if s is not None and search(f, ("block", s), lambda x: x is clr, eh=False) is None:
            ok = True
    r3.expect(ok, f, ren, "rename error ignored", "the log is reset although the snapshot rename may have failed: both copies of the data are then gone", okdesc="rename error ⇒ throw before the log reset")
    # dropped keys leave memory only after the snapshot is in place
    er = [e for e in common.member_calls_on(f, KV + "::_kv", ("erase",))]
    r3.instance()
    r3.expect(er and all(search(f, ("entry",), lambda x, e=e: x is e, stop=lambda x: x is ren, eh=False) is None for e in er), f, er[0] if er else None, "memory pruned before rename",
              "expired keys are erased from memory before the new snapshot is in place", okdesc="in-memory pruning after the rename")
    # R4: one exclusive hold
    r4.instance()
    ent = {m for (m, md, h) in la.entry(f) if md == "x"}
    r4.expect(M in ent, f, None, "compaction without the store mutex", "compactLocked is reachable without KVStore::_mutex held exclusively (callers: %s): a concurrent write between the survivor scan and the "
              "log reset would be in neither the snapshot nor the log" % sorted({short(g.name) for (g, e, n) in ctx.cg().callers.get(f.name, [])}),
              okdesc="every caller of compactLocked holds _mutex exclusively")
    for e in [tmp, ren, clr] + opens:
        r4.instance()
        r4.expect(la.holds(f, e, M, "x"), f, e, "file step outside the mutex", "a compaction file step runs without the exclusive store mutex", okdesc="compaction step under _mutex")


def r5(ctx, r):
    f = kvf(ctx, "load")
    MAXLEN = {"keyLen", "valLen", "totalLen"}
    bounded = set()

    def edge(c, truth):
        ops = []
        cp = common.cmp_parts(c)
        if cp:
            op, l, rr = cp
            ls, rs = strip_casts(l), strip_casts(rr)
            # `ptr + E > end`  (false edge: avail >= E)
            if rs.get("k") == "var" and rs["n"] == "end" and ls.get("k") == "bin" and ls["op"] == "+":
                fm = lin(ls)
                if fm is not None and "ptr" in fm[1]:
                    rest = form(fm[0], [s for s in fm[1] if s != "ptr"] + [])
                    if list(fm[1]).count("ptr") == 1:
                        if op == ">" and truth is False:
                            ops.append(("atleast", rest))
                        if op == "<=" and truth is True:
                            ops.append(("atleast", rest))
            # `buffer.size() < 5` false edge: the record has at least 5 bytes
            if show(ls) == "buffer.size()" and const_value(rs) is not None and op == "<" and truth is False:
                ops.append(("atleast", form(0, ("min:%d" % const_value(rs),))))
        return ops

    def elem(e):
        if e.kind != "stmt":
            return None
        n = e.node
        ops = []
        k = n.get("k")
        if "root" not in e.raw:
            return None
        for x in walk(n):
            xk = x.get("k")
            if xk == "call" and x.get("callee") in ("memcpy", "std::memcpy") and len(x["args"]) == 3:
                src = strip_casts(strip_wrappers(x["args"][1]))
                if src.get("k") == "var" and src["n"] == "ptr":
                    ops.append(("need", lin(x["args"][2]), "memcpy(%s, ptr, %s)" % (show(x["args"][0])[:20], show(x["args"][2]))))
                dst = strip_casts(strip_wrappers(x["args"][0]))
                if dst.get("k") == "un" and dst["op"] == "&" and dst["v"].get("k") == "var":
                    ops.append(("kill", dst["v"]["n"]))
            if xk == "ctor" and x.get("cls") == "std::basic_string" and len([a for a in x["args"] if not a.get("def")]) == 2:
                a0 = strip_casts(strip_wrappers(x["args"][0]))
                if a0.get("k") == "var" and a0["n"] == "ptr":
                    ops.append(("need", lin(x["args"][1]), "std::string(ptr, %s)" % show(x["args"][1])))
            if xk == "un" and x["op"] == "*" and strip_casts(x["v"]).get("k") == "un" and strip_casts(x["v"])["op"] == "post++" and strip_casts(strip_casts(x["v"])["v"]).get("n") == "ptr":
                ops.append(("need", form(1), "*ptr++"))
                ops.append(("adv", form(1)))
            if xk == "bin" and x["op"] == "+=" and strip_casts(x["lhs"]).get("k") == "var" and strip_casts(x["lhs"])["n"] == "ptr":
                ops.append(("adv", lin(x["rhs"]), "ptr += %s" % show(x["rhs"])))
        if k == "decl":
            for v in n["vars"]:
                if v["n"] == "ptr" and v.get("init") is not None:
                    # ptr = base; end = base + buffer.size(): the window is the whole record, whose minimum size was checked
                    ops.append(("reset", form(0, ("record",))))
        return ops
    # `record` stands for buffer.size(); the guard `buffer.size() < 5 → continue` and `totalLen < 10 → break` give record >= 5:
    # model it by translating min:K knowledge into the constant part at the reset
    floor = 0
    for b in f.blocks.values():
        c = b.cond
        if c is not None:
            cp = common.cmp_parts(c)
            if cp and show(strip_casts(cp[1])) == "buffer.size()" and cp[0] == "<" and const_value(cp[2]) is not None:
                floor = max(floor, const_value(cp[2]))

    def elem2(e):
        ops = elem(e)
        if ops:
            ops = [("reset", form(floor)) if (o[0] == "reset") else o for o in ops]
        return ops
    w = Window(f, edge, elem2, init=None)
    nreq = len(w.checked) + len(w.violations)
    if nreq < 8:
        raise AnalysisBroken("load(): only %d cursor reads recognised in the log decoder (floor 8)" % nreq)
    r.instance(nreq)
    for (e, what) in w.checked:
        r.ok("load(): %s inside the record window" % what)
    for (e, need, have, what) in w.violations:
        r.fail(f, e, "read outside record: %s" % what.split("(")[0], "the log decoder performs `%s` needing %s bytes while only %s are known to remain before `end`: a corrupt or torn record "
               "makes replay read outside the record buffer" % (what, show_form(need), show_form(have)))
    # every symbolic length is bounded by a constant before it is added to the cursor
    # (the bound only has to keep `ptr + len` from wrapping: any constant below 2^31; that it is also LARGE enough is R8)
    bounds = {}
    for sym in ("keyLen", "valLen", "totalLen"):
        r.instance()
        ok = False
        for b in f.blocks.values():
            co = common.cmp_oriented(b.cond, lambda x: const_value(x) is not None) if b.cond is not None else None
            if co and co[0] in (">", ">=") and strip_casts(co[1]).get("k") == "var" and strip_casts(co[1])["n"] == sym and const_value(co[2]) < 2 ** 31:
                ok = True
                bounds.setdefault(sym, []).append(const_value(co[2]) - (1 if co[0] == ">=" else 0))
        r.expect(ok, f, None, "%s unbounded" % sym, "the decoded length %s is not compared with a constant upper bound before it is used in `ptr + %s` (pointer arithmetic could wrap)" % (sym, sym),
                 okdesc="%s bounded by a constant" % sym)
    ctx._c11_replay_bounds = bounds
    # the CRC is verified before any field is used
    crc = [b for b in f.blocks.values() if b.cond is not None and "crc32(" in show(b.cond) and "storedCrc" in show(b.cond)]
    ptrdecl = [e for e in f.stmts() if e.node.get("k") == "decl" and any(v["n"] == "ptr" for v in e.node["vars"])]
    r.instance()
    r.expect(len(crc) == 1 and ptrdecl and all(search(f, ("entry",), lambda x: x in ptrdecl, stop=lambda x: x in crc[0].elems, eh=False) is None for _ in [0]), f, None, "CRC after use",
             "record fields are decoded before the checksum was verified", okdesc="crc verified before decoding")


def r6(ctx, r):
    fb = ctx.fb()
    f = kvf(ctx, "load")
    rs = [e for (g, e, kind, path, mode) in file_sites(fb, (KVF,)) if g is f and kind == "resize"]
    r.instance()
    if not rs:
        r.fail(f, None, "torn tail not cut", "load() no longer truncates the log to the end of the last complete record: records appended after a torn tail are framed by the torn record's "
               "length on the next replay and an acknowledged write is lost")
        return
    rz = rs[0]
    size_arg = strip_wrappers(rz.node["args"][1])
    while size_arg.get("k") in ("cast", "ctor") and (size_arg.get("v") or size_arg.get("args")):
        size_arg = strip_wrappers(size_arg.get("v") or size_arg["args"][0])
    vn = size_arg.get("n") if size_arg.get("k") == "var" else None
    aliases = {vn}
    # follow `const auto keep = static_cast<...>(validEnd)` one or two levels
    for _ in range(3):
        for e in f.stmts():
            if e.node.get("k") == "decl":
                for v in e.node["vars"]:
                    if v["n"] == vn and v.get("init") is not None:
                        i = strip_wrappers(v["init"])
                        while i is not None and i.get("k") in ("cast", "ctor") and (i.get("v") or i.get("args")):
                            i = strip_wrappers(i.get("v") or i["args"][0])
                        if i is not None and i.get("k") == "var" and i["n"] != vn and not any(
                                x.node.get("k") == "bin" and x.node["op"].endswith("=") and x.node["op"] not in ("==", "!=", "<=", ">=") and strip_wrappers(x.node["lhs"]).get("n") == vn for x in f.stmts()):
                            vn = i["n"]
                            aliases.add(vn)
    r.expect(vn is not None, f, rz, "cut position", "the log is cut at `%s`, not at a recorded end-of-record offset" % show(size_arg), okdesc="log cut at %s" % vn)
    if vn is None:
        return
    # the offset is only advanced after a record was read completely (both reads succeeded)
    asg = [e for e in f.stmts() if e.node.get("k") in ("bin", "opcall") and e.node.get("op", "").endswith("=") and e.node.get("op") not in ("==", "!=", "<=", ">=") and
           strip_wrappers(e.node.get("lhs") or e.node["args"][0]).get("n") == vn] + \
          [e for e in f.stmts() if e.node.get("k") == "un" and ("++" in e.node["op"] or "--" in e.node["op"]) and strip_wrappers(e.node["v"]).get("n") == vn]
    reads = [e for e in f.stmts() if e.node.get("k") == "mcall" and last(e.node.get("callee", "")) == "read" and (e.node.get("obj") or {}).get("k") == "var" and e.node["obj"]["n"] == "log"]
    r.instance()
    ok = len(asg) >= 1 and len(reads) == 2
    for a in asg:
        if "tellg" not in show(a.node):
            ok = False
        # not reachable through the failing edge of either read
        for b in f.blocks.values():
            c = b.cond
            if c is not None and any(any(x is rd.node for x in walk(c)) for rd in reads):
                # conditions are `!log.read(...)`: true edge = failed
                neg = c.get("k") in ("un", "opcall") and c.get("op") == "!"
                fail_edge = 0 if neg else 1
                s = b.succs[fail_edge]
                if s is not None and search(f, ("block", s), lambda x, a=a: x is a, stop=lambda x: x in reads, eh=False) is not None:
                    ok = False
        if not all(elem_dominates(f, rd, a) for rd in reads):
            ok = False      # written at a point that is not behind both reads of the same iteration
    r.expect(ok, f, asg[0] if asg else None, "end-of-record offset", "%s is not advanced exactly when a record was read completely (after both reads succeeded)" % vn,
             okdesc="%s = tellg() after a complete record" % vn)
    # every way out of the replay loop reaches the cut decision (no early return between loop and cut), and an incomplete
    # read never skips it
    r.instance()
    after_loop = [b for b in f.blocks.values() if elem_after(f, reads, b) and not any(search(f, ("block", b.id), lambda x, rd=rd: x is rd, eh=False) is not None for rd in reads)]
    tests = [b for b in after_loop if b.cond is not None and (any(a in show(b.cond) for a in aliases) or show(b.cond).replace("!", "").replace(" ", "").startswith("ec")) and
             search(f, ("block", b.id), lambda x: x is rz, eh=False) is not None]
    w = None
    for rd in reads:
        w = w or search(f, rd, "exit", stop=lambda x: any(x in b.elems for b in tests) or (x.kind == "stmt" and x.node.get("k") == "throw"), eh=False)
    r.expect(bool(tests) and w is None, f, rz, "cut skipped", "a path from the replay loop leaves load() without deciding whether the log tail must be cut", witness=witness_str(f, w),
             okdesc="every exit of the replay loop reaches the cut decision")
    # the decision does not depend on WHY the loop ended
    r.instance()
    conds = [show(b.cond).replace(" ", "") for b in tests]
    guard_vars = set()
    for b in after_loop:
        if b.cond is not None and search(f, ("block", b.id), lambda x: x is rz, eh=False) is not None:
            for x in walk(b.cond):
                if x.get("k") == "var":
                    guard_vars.add(x["n"])
    r.expect(guard_vars <= aliases | {"ec", "logSize"}, f, rz, "cut depends on loop exit reason", "whether the tail is cut depends on %s: every way the replay can stop (short length prefix, short body, bad length) "
             "leaves bytes that must be cut" % sorted(guard_vars - aliases - {"ec", "logSize"}), okdesc="cut decided only by offset < file size")
    # constructor: load before the append-mode open
    ct = fb.func(KV + "::<ctor>")
    ld = [e for e in ct.stmts() if e.node.get("k") == "mcall" and e.node.get("callee") == KV + "::load"]
    op = [e for e in ct.stmts() if e.node.get("k") == "mcall" and e.node.get("callee") == KV + "::openLogFile"]
    r.instance()
    r.expect(ld and op and elem_dominates(ct, ld[0], op[0]), ct, None, "open before load", "the constructor opens the log for appending before load() has cut the torn tail", okdesc="ctor: load() ≺ openLogFile()")
    # a failed cut is an error, not ignored
    r.instance()
    ect = [b for b in f.blocks.values() if b.cond is not None and show(b.cond).replace(" ", "").startswith("ec") and b.elems and elem_dominates(f, rz, b.elems[-1])]
    r.expect(bool(ect) and any(b.succs[0] is not None and search(f, ("block", b.succs[0]), "exit", stop=lambda x: x.kind == "stmt" and x.node.get("k") == "throw", eh=False) is None for b in ect), f, rz,
             "cut failure ignored", "a failing truncation is ignored and appending continues behind the torn tail", okdesc="failed cut ⇒ throw")


def elem_after(f, elems, block):
    return any(search(f, e, lambda x: x in block.elems, eh=False) is not None for e in elems)


def r7(ctx, r):
    fb = ctx.fb()
    sv = fb.func(JS + "::saveToFile", file_suffix=JSF)
    sites = [(e, kind, path) for (g, e, kind, path, mode) in file_sites(fb, (JSF,)) if g is sv]
    opens = [e for (e, k, p) in sites if k == "ofstream"]
    rens = [e for (e, k, p) in sites if k == "rename"]
    r.instance()
    if not (opens and rens):
        r.fail(sv, None, "in-place rewrite", "JsonFileStore::saveToFile does not write a temp file and rename it over the store: the durable file is truncated in place")
        return
    r.ok("saveToFile: temp file + rename")
    fv = None
    for e in sv.stmts():
        if e.node.get("k") == "decl":
            for v in e.node["vars"]:
                if v.get("init") is opens[0].node:
                    fv = v
    writes = [e for e in sv.stmts() if e.node.get("k") in ("opcall", "mcall") and (e.node.get("op") == "<<" or last(e.node.get("callee", "")) == "write") and fv and fv["n"] in show(e.node)]
    closes = [e for e in sv.stmts() if e.node.get("k") == "mcall" and last(e.node.get("callee", "")) in ("close",) and (e.node.get("obj") or {}).get("n") == (fv or {}).get("n")] + \
             [e for e in sv.elems() if e.kind == "dtor" and fv and e.raw.get("d") == fv["d"]]
    goods = [b for b in sv.blocks.values() if b.cond is not None and fv and (fv["n"] + ".good()" in show(b.cond) or fv["n"] + ".fail()" in show(b.cond) or show(b.cond).replace("!", "") in (fv["n"] + ".operator bool()",))]
    for ren in rens:
        r.instance()
        ok = bool(writes) and all(search(sv, ("entry",), lambda x: x is ren, stop=lambda x, w=w: x is w, eh=False) is None for w in writes)
        r.expect(ok, sv, ren, "rename before write", "the temp file is renamed over the store before the new contents were written", okdesc="write ≺ rename")
        r.instance()
        ok = bool(closes) and search(sv, ("entry",), lambda x: x is ren, stop=lambda x: x in closes, eh=False) is None
        r.expect(ok, sv, ren, "rename before close", "the temp file is renamed over the store while its stream is still open: small contents can still sit in the stream buffer, so a crash right after the "
                 "rename leaves an empty store file", okdesc="stream closed ≺ rename")
        r.instance()
        ok = False
        for b in goods:
            good_edge = 0 if not show(b.cond).startswith("!") and ".fail()" not in show(b.cond) else 1
            bad_edge = 1 - good_edge
            s = b.succs[bad_edge]
            if (s is None or search(sv, ("block", s), lambda x: x is ren, eh=False) is None) and closes and any(search(sv, c, lambda x, b=b: x in b.elems, eh=False) is not None for c in closes if c.kind == "stmt"):
                ok = True
        r.expect(ok, sv, ren, "rename without state check", "the rename is reachable although the stream reported a write/close failure (or the state is tested before close flushed the buffer)",
                 okdesc="good() tested after close, failure ⇒ no rename")


def r8(ctx, r):
    """Writer/reader agreement on sizes: whatever set()/setBatch()/expireAt() accept and journal, the replay must admit.  The
    widest record writeLogEntry frames is op(1) + keyLen(4) + key + expiry(8) + valLen(4) + value + crc(4); a replay bound below
    that takes a complete record for a torn tail and truncates it AND every later record away."""
    fb = ctx.fb()
    vk = [g for g in fb.in_file(KVF) if g.ok and last(g.name) == "validateKeyValue"]
    if not vk:
        raise AnalysisBroken("validateKeyValue not found")
    lim = {}
    for b in vk[0].blocks.values():
        co = common.cmp_oriented(b.cond, lambda x: const_value(x) is not None) if b.cond is not None else None
        if co and co[0] in (">", ">="):
            t = show(co[1])
            which = "key" if t.startswith("key.") else ("value" if t.startswith("value.") else None)
            if which:
                lim[which] = const_value(co[2]) - (1 if co[0] == ">=" else 0)
    if set(lim) != {"key", "value"}:
        raise AnalysisBroken("validateKeyValue: key/value size limits not identified (%s)" % lim)
    bounds = getattr(ctx, "_c11_replay_bounds", None)
    if not bounds:
        raise AnalysisBroken("replay bounds not collected (C11-R5 did not run)")
    # expiry values: the replay applies only 'plausible' epoch milliseconds (ms > 0 …); every value a writer journals must be one,
    # or the sentinel — a deadline journalled as ms <= 0 is ignored on replay and the key comes back after a crash
    from ..finite import compile_expr, NotPure
    te = [g for g in fb.in_file(KVF) if g.ok and last(g.name) == "toEpochMs"]
    if len(te) != 1:
        raise AnalysisBroken("toEpochMs: %d definitions" % len(te))
    rets = common.returns(te[0])
    inits = {dv["d"]: dv for e in te[0].stmts() if e.node.get("k") == "decl" for dv in e.node["vars"]}
    r.instance()
    okv, why = True, ""
    for e in rets:
        v = strip_casts(e.node.get("v") or {})
        free = sorted({x["n"] for x in walk(v) if x.get("k") == "var"})
        if v.get("k") in ("mcall", "call"):
            okv, why = False, "the raw millisecond count of the time point (any sign)"
            continue
        try:
            fnv, _t, _c = compile_expr(v, free)
        except NotPure as ex:
            raise AnalysisBroken("toEpochMs: return value `%s` not evaluable (%s)" % (show(v)[:40], ex))
        import itertools
        dom = [-2 ** 62, -86400000, -1, 0, 1, 2, 1700000000000, 2 ** 62]
        for vals in itertools.product(dom, repeat=len(free)):
            if fnv(*vals) <= 0:
                okv, why = False, "%s for %s" % (fnv(*vals), dict(zip(free, vals)))
                break
    r.expect(okv, te[0], rets[0] if rets else None, "journalled expiry the replay ignores", "toEpochMs can return %s, and the writers journal it as the record's expiry: the replay applies only ms > 0 (isPlausibleEpochMs) and ignores "
             "the record otherwise — expireAt(key, time_point{}) hides the key in memory, but after a crash before the eviction worker's 'D' record it is back, eternal" % why, okdesc="every journalled expiry is > 0")
    wl = [g for g in fb.in_file(KVF) if g.ok]
    nexp = 0
    for g in wl:
        for e in g.stmts():
            n = e.node
            if n.get("k") == "mcall" and n.get("callee") == KV + "::writeLogEntry" and len([a for a in n.get("args", []) if not a.get("def")]) >= 4:
                a = strip_casts(strip_wrappers(n["args"][3]))
                nexp += 1
                r.instance()
                r.expect((a.get("k") in ("call", "mcall") and last(a.get("callee", "")) == "toEpochMs") or "NO_EXPIRY" in show(a), g, e, "expiry journalled raw", "%s journals the expiry `%s`, not through toEpochMs / the sentinel" % (short(g.name), show(a)[:40]),
                         okdesc="%s: expiry through toEpochMs" % short(g.name))
    if nexp < 3:
        raise AnalysisBroken("only %d journal writes with an expiry found" % nexp)
    need = {"keyLen": lim["key"], "valLen": lim["value"], "totalLen": 1 + 4 + lim["key"] + 8 + 4 + lim["value"] + 4}
    for sym, n in need.items():
        r.instance()
        got = max(bounds.get(sym, [0]))
        r.expect(got >= n, fb.func(KV + "::load"), None, "replay refuses what the writer accepts: %s" % sym,
                 "load() stops the replay at a record whose %s exceeds %d, but the setters accept and journal records up to %d (key <= %d, value <= %d bytes): such a record — and every record after it — is taken for "
                 "a torn tail and truncated away on the next open (values lost, removed keys come back)" % (sym, got, n, lim["key"], lim["value"]), okdesc="replay admits %s up to %d (writer max %d)" % (sym, got, n))


def run(ctx, ck):
    ck.run_rule("C11-R1", "closed set of file-mutating sites with their paths and modes", "A3 + A10", lambda r: r1(ctx, r))
    ck.run_rule("C11-R2", "acknowledge only after log write + flush; failed writes throw", "A5 ghost + A2", lambda r: r2(ctx, r))
    r3 = ck.rule("C11-R3", "snapshot replacement order", "A2 dominance chain")
    r4 = ck.rule("C11-R4", "compaction runs under one exclusive hold of the store mutex", "A1")
    try:
        r3_r4(ctx, r3, r4)
    except AnalysisBroken as ex:
        r3.broken = str(ex)
        ck.broken.append("C11-R3/R4: %s" % ex)
    ck.run_rule("C11-R5", "the log decoder never reads outside a record", "A7 cursor-window abstract interpretation", lambda r: r5(ctx, r))
    ck.run_rule("C11-R8", "the log replay admits every record size the setters accept (writer/reader size agreement)", "table agreement over the extracted constants", lambda r: r8(ctx, r))
    ck.run_rule("C11-R6", "a torn tail is cut before new records follow it", "A2 + dataflow shape", lambda r: r6(ctx, r))
    ck.run_rule("C11-R7", "whole-file stores are replaced atomically", "A10 + A2", lambda r: r7(ctx, r))
