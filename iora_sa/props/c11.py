"""C11 — Persistent stores recover every acknowledged write after a crash (DESIGN.md §2 C11)."""
from .. import access
from ..cfg import search, witness_str, elem_dominates, dominated_by_edge
from ..expr import show, walk, last, field_of, strip_wrappers, strip_casts, short, const_value, access_path
from ..facts import AnalysisBroken
from ..predabs import Vocab, PredAbs, A, Not, And, Or, T, F
from ..rules import common
from ..window import Window, lin, form, show_form

TITLE = "Persistent stores recover every acknowledged write after a crash"
TECHNIQUE = 'custom static analysis over clang-14 CFG facts: closed set of file-mutating call sites with constant open modes, ordering chains by dominance/search, cursor-window abstract interpretation of the log decoder; protocol steps are judged with their same-class helpers expanded in place (parameters read as the arguments of the call, boolean helpers tied to the branch they decide)'
KV = "iora::storage::KVStore"
JS = "iora::storage::JsonFileStore"
KVF, JSF = "iora/storage/kvstore.hpp", "iora/storage/json_file_store.hpp"
M = KV + "::_mutex"
IOS_APP, IOS_TRUNC, IOS_OUT, IOS_BIN = 1, 32, 16, 4      # libstdc++ _Ios_Openmode: app=1 ate=2 bin=4 in=8 out=16 trunc=32

EXPLANATION = (
    "Crash points are prefixes of the sequence of file operations; what is decided statically is the ORDER and PAIRING of those "
    "operations on every path: R1 closed set of file-mutating sites in kvstore.hpp/json_file_store.hpp with the path each applies to and "
    "its open mode (the snapshot and the JSON store are only ever rename destinations; the log is opened for append, truncated only after a "
    "successful snapshot rename, cut only in load()); R2 every public mutator returns normally only after writeLogEntry for its change "
    "(ghost atoms dirty/logged), and writeLogEntry itself writes three checked pieces, throws on failure and flushes; R3 the compaction "
    "chain temp(trunc) ≺ writes ≺ flush+good ≺ stream closed ≺ rename ≺ error test ≺ log truncation ≺ reopen, and nothing but that rename touches the snapshot path (no unlink in front of it); R4 compaction runs under the "
    "exclusive store mutex from survivor computation to log reset; R5 the log-record decoder never reads outside the record (cursor-window "
    "abstract interpretation with symbolic lengths, each length bounded by a constant first); R6 the torn tail is cut back to the end of the "
    "last completely read record on every path from the replay loop to the append-mode open; R7 whole-file stores are written to a temp "
    "file, closed, checked and renamed — never truncated in place.")
NOT_DECIDED = ["what survives in the OS cache (the property's own model assumption)", "fsync / torn sector writes", "byte-offset cuts inside one write (R5/R6 make every cut a torn tail)",
               "the admissible-state oracle itself"]


# ------------------------------------------------------------------ following calls into helpers of the same class
#
# The crash-consistency argument is about the SEQUENCE of file operations a protocol step (compactLocked, load, saveToFile, …)
# performs.  Whether an operation is written in the step's own body or in a private helper the step calls makes no difference to
# that sequence, so the ordering rules below run over a *view* of the step: its CFG with every call to a member function of the
# same class expanded in place (the call element stays as a marker, the callee's blocks follow it, the callee's normal exits
# continue behind the call; a callee's `throw` leaves the view).  Elements remember the frame they were expanded in, so a
# helper's parameter is read as the caller's argument (`vresolve`).  A call whose value IS the condition of a branch
# (`if (!recordIntact(buf, n)) continue;`) is expanded with the correlation kept: each `return <expr>` of the callee branches on
# <expr> straight to the caller's two successors (`return false` goes only to the false successor), which is what makes a guard
# clause inside a boolean helper visible as a guard of the caller's path.

class Frame:
    __slots__ = ("fn", "parent", "call", "args", "depth")

    def __init__(self, fn, parent, call, args):
        self.fn, self.parent, self.call, self.args = fn, parent, call, args
        self.depth = 0 if parent is None else parent.depth + 1

    def chain(self):
        fr, out = self, []
        while fr is not None:
            out.append(fr.fn)
            fr = fr.parent
        return out


class VElem:
    __slots__ = ("kind", "node", "block", "idx", "try_id", "catch_id", "raw", "fn", "orig", "frame")

    def __init__(self, orig, block, frame):
        self.orig, self.block, self.frame = orig, block, frame
        self.kind, self.node, self.raw, self.fn = orig.kind, orig.node, orig.raw, orig.fn
        self.try_id, self.catch_id = 0, orig.catch_id      # views are searched without exception edges (eh=False)
        self.idx = len(block.elems)

    @property
    def line(self):
        return self.orig.line

    def __repr__(self):
        return "<v%s %s>" % ("" if self.frame.parent is None else "@" + last(self.frame.fn.name), repr(self.orig))


class VBlock:
    __slots__ = ("id", "elems", "succs", "preds", "term", "label", "raw", "fn", "eh_succs", "eh_preds", "orig", "frame", "_cond")

    def __init__(self, view, bid, orig, frame):
        self.fn, self.id, self.orig, self.frame = view, bid, orig, frame
        self.elems, self.succs, self.preds, self.eh_succs, self.eh_preds = [], [], [], [], []
        self.term, self.label, self.raw, self._cond = None, None, {}, None

    @property
    def cond(self):
        if self._cond is not None:
            return self._cond
        if self.term is not None and self.orig is not None and not self.term.get("synthetic"):
            return self.orig.cond
        return None

    def edge_label(self, i):
        t = self.term
        if not t:
            return None
        if t["k"] in ("IfStmt", "WhileStmt", "ForStmt", "DoStmt", "ConditionalOperator", "BinaryOperator", "CXXForRangeStmt", "BinaryConditionalOperator") and len(self.succs) == 2:
            return (True, False)[i]
        if t["k"] == "SwitchStmt":
            sid = self.succs[i]
            if sid is None:
                return None
            lab = self.fn.blocks[sid].label
            return ("case", lab["v"]) if lab and lab["k"] == "case" else "default"
        return None


def _neg_strip(n):
    """(operand, odd number of `!` removed?)"""
    n, odd = strip_casts(n), False
    while n is not None and n.get("k") == "un" and n.get("op") == "!" and isinstance(n.get("v"), dict):
        n, odd = strip_casts(n["v"]), not odd
    return n, odd


class View:
    """CFG of `root` with the calls to member functions of its own class expanded (see above).  Offers what cfg.search /
    cfg.dominators / window.Window read from a Function; always use eh=False on it."""
    MAXDEPTH, MAXBLOCKS = 5, 6000

    def __init__(self, fb, root, follow=None):
        self.fb, self.root, self.follow = fb, root, follow
        self.name, self.file, self.line, self.endline, self.params, self.cls, self.kind, self.sig = root.name, root.file, root.line, root.endline, root.params, root.cls, root.kind, root.sig
        self.blocks, self.trys, self.try_dispatch, self.frames, self.expanded, self.joined_bool = {}, {}, {}, [], [], []
        self.ok = True
        self.root_frame = Frame(root, None, None, None)
        x = self._new(None, self.root_frame)
        self.exit = x.id
        self.entry = self._instantiate(self.root_frame, ("goto", self.exit))
        for b in self.blocks.values():
            for s in b.succs:
                if s is not None and b.id not in self.blocks[s].preds:
                    self.blocks[s].preds.append(b.id)

    def _new(self, orig, frame):
        if len(self.blocks) > self.MAXBLOCKS:
            raise AnalysisBroken("%s: the expansion of helper calls grows beyond %d blocks" % (short(self.root.name), self.MAXBLOCKS))
        b = VBlock(self, len(self.blocks), orig, frame)
        self.blocks[b.id] = b
        return b

    def _callee(self, e, frame):
        if e.kind != "stmt":
            return None
        n = e.node
        k = n.get("k")
        cls = self.root.cls
        if not cls or k not in ("mcall", "call") or not (n.get("callee") or "").startswith(cls + "::"):
            return None
        if k == "mcall" and (n.get("obj") or {}).get("k") != "this":
            return None         # another object of the same class: its fields are not this store's
        cands = [g for g in self.fb.by_name.get(n["callee"], []) if g.ok and g.cls == cls and g.kind == "method" and len(g.params) == len(n.get("args", []))]
        if len({(g.file, g.line) for g in cands}) != 1:
            return None
        g = cands[0]
        if g in frame.chain() or frame.depth >= self.MAXDEPTH or (self.follow is not None and not self.follow(g)):
            return None
        return g

    def _instantiate(self, frame, cont):
        fn = frame.fn
        self.frames.append(frame)
        pieces, cuts = {}, {}
        for ob in fn.blocks.values():
            if ob.id == fn.exit:
                continue
            cs = [(e.idx, g) for e in ob.elems for g in [self._callee(e, frame)] if g is not None]
            cuts[ob.id] = cs
            ps = [self._new(ob, frame) for _ in range(len(cs) + 1)]
            pieces[ob.id] = ps
            k = 0
            for e in ob.elems:
                ve = VElem(e, ps[k], frame)
                ps[k].elems.append(ve)
                if k < len(cs) and cs[k][0] == e.idx:
                    k += 1
            ps[0].label = ob.label
            ps[-1].term, ps[-1].raw = ob.term, ob.raw

        def exit_target(ob):
            """where a normal exit of the callee out of block `ob` continues"""
            if cont[0] == "goto":
                return cont[1]
            rets = [e for e in ob.elems if e.kind == "stmt" and e.node.get("k") == "ret" and "root" in e.raw]
            v = rets[-1].node.get("v") if rets else None
            if v is None:
                raise AnalysisBroken("%s: a branch is decided by the value of %s, which has a return without a value" % (short(self.root.name), short(fn.name)))
            op, odd = _neg_strip(v)
            t, f_ = (cont[2], cont[1]) if odd else (cont[1], cont[2])
            cv = const_value(op)
            if cv is not None and op.get("k") in ("bool", "int"):
                return t if cv else f_
            sb = self._new(ob, frame)       # the caller's branch, decided by this return's value
            sb.term, sb._cond, sb.succs = {"k": "IfStmt", "synthetic": True, "l": rets[-1].line}, op, [t, f_]
            return sb.id

        def target(ob, sid):
            if sid is None:
                return None
            return exit_target(ob) if sid == fn.exit else pieces[sid][0].id

        for ob in fn.blocks.values():
            if ob.id == fn.exit:
                continue
            ps, cs = pieces[ob.id], cuts[ob.id]
            throws = any(e.kind == "stmt" and e.node.get("k") == "throw" and "root" in e.raw for e in ob.elems)
            corr = self._correlated(ob, cs, frame, cont) if cs else None
            for k, (idx, g) in enumerate(cs):
                call = ps[k].elems[-1]
                sub = Frame(g, frame, call, call.node.get("args", []))
                self.expanded.append((call, g))
                if k == len(cs) - 1 and corr is not None:
                    st, sf = corr
                    c = ("branch",) + tuple(x[1] if isinstance(x, tuple) else target(ob, x) for x in (st, sf))
                    ps[k].succs = [self._instantiate(sub, c)]
                    ps[k + 1].elems, ps[k + 1].term, ps[k + 1].raw = [], None, {}      # decided inside the callee: this piece is never reached
                else:
                    if (g.raw.get("ret") or "").strip() in ("bool", "_Bool"):
                        self.joined_bool.append((call, g))      # a boolean helper whose result the view cannot tie to a branch: what it checked is lost at the join
                    ps[k].succs = [self._instantiate(sub, ("goto", ps[k + 1].id))]
            if corr is not None:
                continue
            if frame.parent is not None and (throws or ob.raw.get("noreturn")):
                ps[-1].succs = []       # the exception leaves the helper: no normal continuation in the caller
            else:
                ps[-1].succs = [target(ob, s) for s in ob.succs]
        return pieces[fn.entry][0].id

    def _correlated(self, ob, cs, frame, cont):
        """the last expanded call of block `ob` IS the value the block branches on (or returns into a caller's branch): the two
        continuations (block ids of this function, or ('abs', view block id)) for the call returning true / false, else None"""
        idx, g = cs[-1]
        call = ob.elems[idx]
        rest = ob.elems[idx + 1:]
        named = None        # `const bool ok = helper(…); if (!ok) …`: the local stands for the call's value
        for e in rest:
            if e.kind != "stmt":
                return None
            n = e.node
            if n.get("k") == "decl" and named is None and len(n["vars"]) == 1 and (n["vars"][0].get("t") or "").strip() in ("const bool", "bool const") and n["vars"][0].get("init") is call.node:
                named = n["vars"][0]["d"]
                continue
            if n.get("k") == "ret":
                n = n.get("v")
            op, odd = _neg_strip(n) if n is not None else (None, False)
            if op is not call.node and not (named is not None and op is not None and op.get("k") == "var" and op.get("d") == named):
                return None
        if (g.raw.get("ret") or "").strip() not in ("bool", "_Bool"):
            return None
        rets = [e for e in rest if e.node.get("k") == "ret" and "root" in e.raw]
        if rets:
            if cont[0] != "branch" or ob.fn.exit not in ob.succs:
                return None
            op, odd = _neg_strip(rets[-1].node.get("v"))
            return (("abs", cont[2]), ("abs", cont[1])) if odd else (("abs", cont[1]), ("abs", cont[2]))
        c, st, sf = common.branch(ob)      # (a condition that reads a const bool declared right before the branch is already resolved to its initialiser)
        if c is None or not (c is call.node or (named is not None and c.get("k") == "var" and c.get("d") == named)):
            return None
        return (st, sf)

    # ---- what rules read from a Function
    def elems(self):
        for b in self.blocks.values():
            for e in b.elems:
                yield e

    def stmts(self):
        for e in self.elems():
            if e.kind == "stmt":
                yield e

    def loc(self, x=None):
        return self.root.loc(x.orig if isinstance(x, VElem) else x)


def view_of(ctx, f):
    cache = ctx.__dict__.setdefault("_c11_views", {})
    key = (ctx.config, f.sig)
    if key not in cache:
        cache[key] = View(ctx.fb(), f)
    return cache[key]


def vresolve(n, frame):
    """the expression a helper's parameter stands for at the call the frame was expanded from (wrappers removed)"""
    n = strip_wrappers(n)
    while n is not None and n.get("k") == "var" and n.get("parm") is not None and frame is not None and frame.parent is not None and n["parm"] < len(frame.args):
        n, frame = strip_wrappers(frame.args[n["parm"]]), frame.parent
    return n, frame


def same_var(a, fa, b, fb_):
    """two `var` nodes name the same variable of the same expansion frame"""
    return a is not None and b is not None and a.get("k") == "var" and b.get("k") == "var" and fa is fb_ and a.get("d") == b.get("d")


def local_decl(fn, d):
    """the declaration record {n, d, t, init} of local variable d of function fn (None for parameters)"""
    for n in fn.nodes.values():
        if n.get("k") == "decl":
            for v in n["vars"]:
                if v.get("d") == d:
                    return v
    return None


def kvf(ctx, name):
    return ctx.fb().func(KV + "::" + name, file_suffix=KVF)


def path_leaf(n, frame=None):
    """the named thing a path expression is built from: looks through std::filesystem::path / std::string construction, .c_str()
    and — inside an expanded helper — through the helper's parameter to the caller's argument.  Returns (node, frame)."""
    n = strip_wrappers(n)
    for _ in range(12):
        if n is None:
            break
        if n.get("k") == "mcall" and last(n.get("callee", "")) == "c_str" and n.get("obj") is not None:
            n = strip_wrappers(n["obj"])
        elif n.get("k") == "ctor" and len(n.get("args") or []) >= 1:
            n = strip_wrappers(n["args"][0])
        elif n.get("k") == "var" and n.get("parm") is not None and frame is not None and frame.parent is not None:
            n2, frame2 = vresolve(n, frame)
            if n2 is n:
                break
            n, frame = n2, frame2
        else:
            break
    return n, frame


def leaf_name(n, fn):
    """which store path a leaf names: the field's name; `<field>+suffix` for a local that is initialised once as field + literal
    (the temp name derived from the durable name — no matter what the local is called); `local:<name>` for any other variable"""
    if n is None:
        return None
    f = field_of(n)
    if f:
        return last(f)
    if n.get("k") == "var":
        v = local_decl(fn, n.get("d")) if fn is not None and n.get("parm") is None else None
        i = strip_wrappers(v.get("init")) if v and v.get("init") is not None else None
        if i is not None and "const" in (v.get("t") or "") and i.get("k") == "opcall" and i.get("op") == "+" and len(i["args"]) == 2:
            base, suf = strip_wrappers(i["args"][0]), strip_wrappers(i["args"][1])
            if field_of(base) and suf is not None and suf.get("k") == "str":
                return last(field_of(base)) + "+suffix"
        return "local:" + n["n"]
    return show(n)[:40]


def path_name(n, frame=None, fn=None):
    """which store path an expression names"""
    leaf, fr = path_leaf(n, frame)
    return leaf_name(leaf, fr.fn if fr is not None else fn)


def const_local_value(n, fn):
    """constant value of an expression, looking through a `const` local of fn that is initialised with a constant (a named open mode)"""
    v = const_value(n)
    m = strip_wrappers(n) if n is not None else None
    if v is None and fn is not None and m is not None and m.get("k") == "var" and m.get("parm") is None:
        dv = local_decl(fn, m.get("d"))
        if dv and dv.get("init") is not None and "const" in (dv.get("t") or ""):
            v = const_value(dv["init"])
    return v


def mode_value(n, frame=None, fn=None):
    """the constant an open-mode expression evaluates to (through a helper's parameter, through a named const local); a mode that is
    not a constant cannot be judged against the table: refusal, not a verdict"""
    if n is None:
        return None
    m, fr = vresolve(n, frame) if frame is not None else (n, None)
    v = const_local_value(m, fr.fn if fr is not None else fn)
    if v is None:
        raise AnalysisBroken("open mode `%s` is not a compile-time constant" % show(n)[:40])
    return v


def site_of(e):
    """(kind, [path expressions], mode expression or None, mode default) if element e is a file-mutating call, else None"""
    n = e.node
    k = n.get("k")
    if k == "ctor" and n.get("cls") == "std::basic_ofstream" and n["args"]:
        return ("ofstream", [n["args"][0]], n["args"][1] if len(n["args"]) > 1 else None, IOS_OUT)
    if k == "mcall" and n.get("callee") in ("std::basic_ofstream::open", "std::basic_fstream::open") and n["args"]:
        return ("open", [n["args"][0]], n["args"][1] if len(n["args"]) > 1 else None, IOS_OUT)
    if k == "ctor" and n.get("cls") == "std::basic_fstream" and n["args"]:
        return ("fstream", [n["args"][0]], n["args"][1] if len(n["args"]) > 1 else None, None)
    if k == "call" and n.get("callee") in ("std::filesystem::rename", "rename"):
        return ("rename", [n["args"][0], n["args"][1]], None, None)
    if k == "call" and n.get("callee") in ("std::filesystem::remove", "std::filesystem::remove_all", "remove", "unlink"):
        return ("remove", [n["args"][0]], None, None)
    if k == "call" and n.get("callee") in ("std::filesystem::resize_file", "truncate", "ftruncate"):
        return ("resize", [n["args"][0]], None, None)
    if k == "call" and n.get("callee") in ("open", "creat", "fopen", "openat"):
        return (n["callee"], [n["args"][0]], n["args"][1] if len(n["args"]) > 1 else None, None)
    if k == "call" and n.get("callee") in ("std::filesystem::copy_file", "std::filesystem::copy", "std::filesystem::create_hard_link"):
        return ("copy", [n["args"][0], n["args"][1]], None, None)
    return None


def _site_mode(kind, mexpr, default, frame, fn=None):
    mode = mode_value(mexpr, frame, fn) if mexpr is not None else None
    if kind in ("ofstream", "open"):
        return (mode if mode is not None else IOS_OUT) | IOS_OUT        # ofstream always adds ios::out
    return mode


def file_sites(fb, files):
    """(Function, Elem, kind, path, mode) for every file-mutating call, each function on its own (no helper is followed)"""
    out = []
    for f in fb.functions:
        if not f.ok or not f.file.endswith(tuple(files)):
            continue
        for e in f.stmts():
            s = site_of(e)
            if s:
                kind, paths, mexpr, default = s
                names = [path_name(p, None, f) for p in paths]
                out.append((f, e, kind, names[0] if len(names) == 1 else tuple(names), _site_mode(kind, mexpr, default, None, f)))
    return out


def view_sites(v):
    """(VElem, kind, path, mode) for every file-mutating call a protocol step performs itself or through the helpers expanded in
    view v; a path / mode handed to a helper as a parameter is read at the call"""
    out = []
    for e in v.stmts():
        s = site_of(e)
        if s:
            kind, paths, mexpr, default = s
            names = [path_name(p, e.frame) for p in paths]
            out.append((e, kind, names[0] if len(names) == 1 else tuple(names), _site_mode(kind, mexpr, default, e.frame)))
    return out


STEPS = ("openLogFile", "compactLocked", "load", "flush", "saveToFile")      # the functions R1's table is keyed by: one protocol step each


def attributed_sites(fb, cg, files):
    """R1's enumeration: (step Function, Function holding the call, Elem, kind, path, mode, helper chain).  A file operation written
    in a private helper of a store class is the operation of the protocol step that calls the helper: it is attributed to every
    caller (transitively, until a function of the table / a public function / a function nobody calls is reached), with the
    helper's path and mode parameters replaced by the caller's arguments.  The operation set of a step is therefore the same
    whether a piece of it is spelled inline or moved verbatim into a helper, and a helper that is ALSO called from somewhere the
    table does not allow (clear() calling the log reset) is reported for that caller."""
    def is_helper(f):
        return f.kind == "method" and f.cls in (KV, JS) and f.access in ("private", "protected") and last(f.name) not in STEPS

    def up(f, leaves, mleaf, chain):
        """leaves: [(node, Function it is an expression of)]"""
        callers = [(g, n) for (g, e, n) in cg.callers.get(f.name, []) if g.ok and g.file.endswith(tuple(files)) and g is not f] if is_helper(f) else []
        if not callers:
            return [(f, leaves, mleaf, chain)]
        if len(chain) > 4 or f.name in chain:
            raise AnalysisBroken("file operation in %s: helper chain %s too deep / recursive to attribute to a protocol step" % (short(f.name), list(chain)))
        out = []
        for (g, n) in callers:
            args = n.get("args", [])

            def bind(x, owner):
                if x is not None and owner is f and x.get("k") == "var" and x.get("parm") is not None and x["parm"] < len(args):
                    return (path_leaf(args[x["parm"]])[0], g)
                return (x, owner)
            out += up(g, [bind(x, o) for (x, o) in leaves], bind(mleaf[0], mleaf[1]) if mleaf is not None else None, chain + (f.name,))
        return out
    res = []
    for f in fb.functions:
        if not f.ok or not f.file.endswith(tuple(files)):
            continue
        for e in f.stmts():
            s = site_of(e)
            if not s:
                continue
            kind, paths, mexpr, default = s
            leaves = [(path_leaf(p)[0], f) for p in paths]
            mleaf = (strip_wrappers(mexpr), f) if mexpr is not None else None
            for (g, lv, ml, chain) in up(f, leaves, mleaf, ()):
                names = [leaf_name(x, o) for (x, o) in lv]
                mode = mode_value(ml[0], None, ml[1]) if ml is not None and ml[0] is not None else None
                if kind in ("ofstream", "open"):
                    mode = (mode if mode is not None else IOS_OUT) | IOS_OUT
                res.append((g, f, e, kind, names[0] if len(names) == 1 else tuple(names), mode, chain))
    return res


def r1(ctx, r):
    fb = ctx.fb()
    sites = attributed_sites(fb, ctx.cg(), (KVF, JSF))
    if len({id(e) for (g, f, e, kind, path, mode, chain) in sites}) < 9:
        raise AnalysisBroken("only %d file-mutating sites found in the stores (floor 9)" % len(sites))
    allowed = {
        # (function, kind, path) -> predicate on mode
        ("openLogFile", "open", "_logPath"): lambda m: m is not None and m & IOS_APP and not m & IOS_TRUNC,
        ("compactLocked", "ofstream", "_tempPath"): lambda m: m is not None and m & IOS_TRUNC,
        ("compactLocked", "rename", ("_tempPath", "_path")): lambda m: True,
        ("compactLocked", "remove", "_tempPath"): lambda m: True,
        ("compactLocked", "ofstream", "_logPath"): lambda m: m is not None and m & IOS_TRUNC,    # log reset after the snapshot rename (order: R3)
        ("load", "resize", "_logPath"): lambda m: True,
        ("flush", "open", "_logPath"): lambda m: m is not None and (m & 0o2000) and not (m & 0o1000),   # O_APPEND, not O_TRUNC (fsync handle)
        # `_filename+suffix`: a const local initialised as _filename + "literal" (the temp name next to the durable file, whatever the local is called)
        ("saveToFile", "ofstream", "_filename+suffix"): lambda m: True,
        ("saveToFile", "rename", ("_filename+suffix", "_filename")): lambda m: True,
        ("saveToFile", "remove", "_filename+suffix"): lambda m: True,
    }
    for (g, f, e, kind, path, mode, chain) in sites:
        r.instance()
        key = (last(g.name), kind, path)
        ok = key in allowed and allowed[key](mode)
        via = (" (through %s)" % " → ".join(short(c) for c in reversed(chain))) if chain else ""
        r.expect(ok, g if g.file == f.file else f, e, "%s %s" % (kind, path if isinstance(path, str) else "→".join(map(str, path))),
                 "%s%s performs `%s` on %s (mode %s), which is not in the closed set of file operations the crash-consistency argument covers: the snapshot / JSON file may only be a "
                 "rename destination, the log may only be appended to, cut in load() or reset after a successful snapshot rename" % (short(g.name), via, kind, path, mode),
                 okdesc="%s%s: %s %s" % (short(g.name), via, kind, path))


MUTATORS_PUBLIC = ("set", "remove", "setBatch", "expireAt", "persist")


def r2(ctx, r):
    fb = ctx.fb()
    n = 0
    for f in fb.methods_of(KV):
        if not f.ok or f.access != "public" or last(f.name) not in MUTATORS_PUBLIC:
            continue
        n += 1
        muts = [e for fld in ("_kv", "_expiry") for (e, nn, k) in common.field_writes(f, KV + "::" + fld)]
        logs = [e for e in f.stmts() if e.node.get("k") == "mcall" and e.node.get("callee") == KV + "::writeLogEntry"]
        vocab = Vocab(["dirty", "logged"])

        def eff(e, muts=muts, logs=logs):
            if e in logs:
                return [("set", "logged", True)]
            if e in muts and not e.catch_id:
                return [("set", "dirty", True)]
            return None
        pa = PredAbs(f, vocab, lambda nn: None, eff, init=And(Not(A("dirty")), Not(A("logged"))), eh_after=False)
        r.instance()
        bad = [ret for ret in common.returns(f) if not pa.entails(ret, Or(Not(A("dirty")), A("logged")))]
        okexit = pa.exit_entails(Or(Not(A("dirty")), A("logged")))
        if not okexit and not bad:
            # batch form: memory is updated in one range-for over the batch and the log is written in a second range-for over
            # the SAME container (zero iterations of the second loop imply zero of the first)
            loops = [b for b in f.blocks.values() if b.term and b.term["k"] == "CXXForRangeStmt"]
            ranges = {}
            for e in f.stmts():
                if e.node.get("k") == "decl":
                    for v in e.node["vars"]:
                        if v["n"].startswith("__range") and v.get("init") is not None:
                            ranges[v["n"]] = show(strip_wrappers(v["init"]))

            def loop_of(e):
                for b in loops:
                    body = b.succs[0]
                    if body is not None and search(f, ("block", body), lambda x: x is e, stop=lambda x, b=b: x in b.elems, eh=False) is not None:
                        return b
                return None

            def range_of(b):
                for x in walk(b.cond or {}):
                    if x.get("k") == "var" and x["n"].startswith("__begin"):
                        return ranges.get("__range" + x["n"][len("__begin"):])
                return None
            ml = {id(loop_of(e)): loop_of(e) for e in muts if not e.catch_id}
            ll = {id(loop_of(e)): loop_of(e) for e in logs}
            if len(ml) == 1 and len(ll) == 1 and None not in ml.values() and None not in ll.values():
                mb, lb = list(ml.values())[0], list(ll.values())[0]
                same = range_of(mb) is not None and range_of(mb) == range_of(lb) and mb is not lb
                body = lb.succs[0]
                every = body is not None and search(f, ("block", body), lambda x: x in lb.elems, stop=lambda x: x in logs, eh=False) is None
                after = search(f, ("block", lb.succs[1]), lambda x: x in mb.elems, eh=False) is None if lb.succs[1] is not None else True
                noret = not any(search(f, ("block", mb.succs[1]), lambda x, rr=rr: x is rr, stop=lambda x: x in lb.elems, eh=False) is not None for rr in common.returns(f)) if mb.succs[1] is not None else False
                if same and every and after and noret:
                    okexit = True
                    r.note("%s: batch form — log loop over the same container `%s` as the mutation loop" % (last(f.name), range_of(mb)))
        # exits through a catch handler end in `throw`, never in a normal return: make sure of it
        handlers_ok = True
        for b in f.blocks.values():
            if b.label and b.label.get("k") == "catch":
                if search(f, ("block", b.id), "exit", stop=lambda x: x.kind == "stmt" and x.node.get("k") == "throw", eh=False) is not None:
                    handlers_ok = False
        r.expect(not bad and okexit and handlers_ok, f, bad[0] if bad else None, "%s acknowledges without logging" % last(f.name),
                 "KVStore::%s(%s) can return normally after changing the in-memory state without a writeLogEntry for it (or swallows a failed log write): the acknowledged change is lost by a crash" % (
                     last(f.name), ",".join(p["n"] for p in f.params)), okdesc="%s(%d args): every normal return after a mutation passed writeLogEntry" % (last(f.name), len(f.params)))
    if n < 7:
        raise AnalysisBroken("only %d public mutators of KVStore found" % n)
    # writeLogEntry: three checked writes, throw on failure, flush on the way out
    wl = kvf(ctx, "writeLogEntry")
    writes = [e for e in wl.stmts() if e.node.get("k") == "mcall" and last(e.node.get("callee", "")) == "write" and field_of(e.node.get("obj")) == KV + "::_logStream"]
    flushes = [e for e in wl.stmts() if e.node.get("k") == "mcall" and last(e.node.get("callee", "")) == "flush" and field_of(e.node.get("obj")) == KV + "::_logStream"]
    r.instance()
    r.expect(len(writes) == 3, wl, None, "log record pieces", "writeLogEntry writes %d pieces, expected length, payload, checksum" % len(writes), okdesc="three writes: length, payload, crc")
    for wcall in writes:
        r.instance()
        # the write is part of a branch condition whose failing edge throws
        blk = [b for b in wl.blocks.values() if b.cond is not None and any(x is wcall.node for x in walk(b.cond))]
        ok = False
        for b in blk:
            c = b.cond
            neg = c.get("k") in ("un", "opcall") and (c.get("op") == "!")
            fail = 0 if neg else 1
            s = b.succs[fail]
            if s is not None and search(wl, ("block", s), "exit", stop=lambda x: x.kind == "stmt" and x.node.get("k") == "throw", eh=False) is None:
                ok = True
        r.expect(ok, wl, wcall, "write result dropped", "a failed _logStream.write in writeLogEntry does not lead to a throw: the storage error is dropped and the write acknowledged",
                 okdesc="failed write ⇒ throw")
    r.instance()
    w = search(wl, writes[-1], "exit", stop=lambda x: x in flushes, eh=False, edge_ok=None) if writes else None
    # the throwing exits are not normal exits: search() stops at throw elements implicitly? make them stops
    w = search(wl, writes[0], "exit", stop=lambda x: x in flushes or (x.kind == "stmt" and x.node.get("k") == "throw"), eh=False) if writes else None
    r.expect(bool(flushes) and w is None, wl, None, "no flush", "writeLogEntry can return normally without flushing the log stream: the record may still be in the process's buffer when the call is acknowledged",
             witness=witness_str(wl, w), okdesc="normal exit passes _logStream.flush()")
    # payload protected by the checksum that load() verifies
    crc = [e for e in wl.stmts() if e.node.get("k") == "mcall" and e.node.get("callee") == KV + "::crc32"]
    r.instance()
    # (over the very variable whose bytes one of the writes puts out: `crc32(X)` … `write(X.data(), X.size())` — whatever X is called)
    def written_vars():
        out = set()
        for wcall in writes:
            for x in walk(wcall.node["args"][0]) if wcall.node.get("args") else ():
                if x.get("k") == "mcall" and last(x.get("callee", "")) == "data" and strip_wrappers(x.get("obj") or {}).get("k") == "var":
                    out.add(strip_wrappers(x["obj"]).get("d"))
        return out
    carg = strip_wrappers(crc[0].node["args"][0]) if len(crc) == 1 and crc[0].node.get("args") else None
    r.expect(carg is not None and carg.get("k") == "var" and carg.get("d") in written_vars() and all(elem_dominates(wl, crc[0], x) for x in writes), wl, None, "checksum",
             "the record checksum is not computed over the whole payload before it is written", okdesc="crc32(payload) before the writes, over the buffer that is written")


def branch_ok(b):
    """common.branch with the overloaded `!` of streams removed as well (`!log.read(…)` is basic_ios::operator!, true when the
    operation FAILED): (operand, successor when the operand converts to true, successor when it does not)"""
    c, st, sf = common.branch(b)
    while c is not None and c.get("k") == "opcall" and c.get("op") == "!" and len(c.get("args") or []) == 1:
        c, st, sf = strip_casts(c["args"][0]), sf, st
        while c is not None and c.get("k") == "un" and c.get("op") == "!" and isinstance(c.get("v"), dict):
            c, st, sf = strip_casts(c["v"]), sf, st
    return c, st, sf


def is_ec_test(c):
    """the variable node if condition c (top-level `!` removed) tests a std::error_code for 'an error happened', else None"""
    c, _odd = _neg_strip(c)
    if c is not None and c.get("k") == "mcall" and c.get("callee") == "std::error_code::operator bool" and strip_wrappers(c.get("obj") or {}).get("k") == "var":
        return strip_wrappers(c["obj"])
    return None


def ec_arg(call_node):
    """the std::error_code variable a std::filesystem call reports into (its last argument), or None"""
    args = [a for a in call_node.get("args", []) if not a.get("def")]
    a = strip_wrappers(args[-1]) if args else None
    return a if a is not None and a.get("k") == "var" and "error_code" in (a.get("t") or "") else None


def stream_var_of(v, site):
    """the local variable (decl record) a stream-constructing site initialises, in the site's function"""
    for e in v.stmts():
        if e.frame is site.frame and e.node.get("k") == "decl":
            for dv in e.node["vars"]:
                if dv.get("init") is site.node:
                    return dv
    return None


def r3_r4(ctx, r3, r4):
    fb, la = ctx.fb(), ctx.locks()
    f = kvf(ctx, "compactLocked")
    # the order is decided over compactLocked with its helpers expanded: a step written in a private helper (the temp snapshot
    # write, the log reset) is at the position of the call, with the helper's path parameter read as the caller's argument
    v = view_of(ctx, f)
    sites = {}
    for (e, kind, path, mode) in view_sites(v):
        sites.setdefault((kind, path), []).append(e)
    if any(len(sites.get(k, [])) > 1 for k in (("ofstream", "_tempPath"), ("rename", ("_tempPath", "_path")), ("ofstream", "_logPath"))):
        raise AnalysisBroken("compactLocked: more than one temp open / rename / log reset (a helper expanded twice?)")
    tmp = (sites.get(("ofstream", "_tempPath")) or [None])[0]
    ren = (sites.get(("rename", ("_tempPath", "_path"))) or [None])[0]
    clr = (sites.get(("ofstream", "_logPath")) or [None])[0]
    if not (tmp and ren and clr):
        raise AnalysisBroken("compactLocked: temp open / rename / log reset not all found")
    tmpvar = stream_var_of(v, tmp)

    def on_tmp(n):
        o = strip_wrappers(n.get("obj") or {})
        return tmpvar is not None and o.get("k") == "var" and o.get("d") == tmpvar["d"]
    flushes = [e for e in v.stmts() if e.frame is tmp.frame and e.node.get("k") == "mcall" and last(e.node.get("callee", "")) == "flush" and on_tmp(e.node)]
    goods = [b for b in v.blocks.values() if b.frame is tmp.frame and b.cond is not None and any(x.get("k") == "mcall" and last(x.get("callee", "")) == "good" and on_tmp(x) for x in walk(b.cond))]
    wkv = [e for e in v.stmts() if e.node.get("k") == "mcall" and e.node.get("callee") in (KV + "::writeKeyValue", KV + "::writeHeader")]
    dtor = [e for e in v.elems() if e.kind == "dtor" and e.frame is tmp.frame and tmpvar and e.raw.get("d") == tmpvar["d"]]
    opens = [e for e in v.stmts() if e.node.get("k") == "mcall" and e.node.get("callee") == KV + "::openLogFile"]
    # the test of the rename's own error code (the variable handed to the rename call, whatever it is called)
    rec = ec_arg(ren.node)
    ectest = [b for b in v.blocks.values() if b.frame is ren.frame and b.cond is not None and rec is not None and same_var(is_ec_test(b.cond), b.frame, rec, ren.frame) and b.elems and elem_dominates(v, ren, b.elems[-1], eh=False)]
    chain = [("temp file opened with trunc", [tmp]), ("snapshot records written", wkv), ("flush", flushes), ("temp stream destroyed (closed)", dtor), ("rename temp → snapshot", [ren]),
             ("log truncated", [clr]), ("log reopened for append", opens)]
    for i in range(len(chain) - 1):
        a, b = chain[i], chain[i + 1]
        r3.instance()
        ok = bool(a[1]) and bool(b[1])
        if ok:
            # every b is preceded by some a on all paths, and no b can run before a
            for y in b[1]:
                if search(v, ("entry",), lambda x, y=y: x is y, stop=lambda x, a=a: x in a[1], eh=False) is not None:
                    ok = False
        r3.expect(ok, f, (b[1] or a[1] or [None])[0], "%s before %s" % (b[0], a[0]), "compaction order broken: `%s` can happen without `%s` having happened first — a crash in between leaves neither the "
                  "old snapshot+log nor the new snapshot complete" % (b[0], a[0]), okdesc="%s ≺ %s" % (a[0], b[0]))
    r3.instance()
    r3.expect(bool(goods) and all(search(v, ("entry",), lambda x: x is ren, stop=lambda x, b=b: x in b.elems, eh=False) is None for b in goods), f, ren, "rename without good()",
              "the snapshot rename is reachable without the temp stream's state having been tested after the flush", okdesc="good() tested before rename")
    r3.instance()
    ok = False
    for b in ectest:
        # on the error edge the log is NOT truncated
        c, st, sf = common.branch(b)
        if st is not None and search(v, ("block", st), lambda x: x is clr, eh=False) is None:
            ok = True
    r3.expect(ok, f, ren, "rename error ignored", "the log is reset although the snapshot rename may have failed: both copies of the data are then gone", okdesc="rename error ⇒ throw before the log reset")
    # between the moment the new snapshot is complete and the rename nothing else touches the snapshot path: the replacement is
    # ONE atomic rename (an unlink / truncation of _path in front of it opens a window with no snapshot at all)
    r3.instance()
    pre = [e for (k, es) in sites.items() for e in es if e is not ren and "_path" in (k[1] if isinstance(k[1], tuple) else (k[1],))]
    r3.expect(not pre, f, pre[0] if pre else None, "snapshot path touched outside the rename", "compaction performs another file operation on the snapshot path besides the rename that replaces it: the replacement is "
              "no longer a single atomic step, and a crash between the two leaves no (or a damaged) snapshot while the log holds only the records since the previous compaction",
              okdesc="_path is written by nothing but the rename")
    # dropped keys leave memory only after the snapshot is in place
    er = [e for e in common.member_calls_on(v, KV + "::_kv", ("erase",))]
    r3.instance()
    r3.expect(er and all(search(v, ("entry",), lambda x, e=e: x is e, stop=lambda x: x is ren, eh=False) is None for e in er), f, er[0] if er else None, "memory pruned before rename",
              "expired keys are erased from memory before the new snapshot is in place", okdesc="in-memory pruning after the rename")
    # R4: one exclusive hold
    r4.instance()
    ent = {m for (m, md, h) in la.entry(f) if md == "x"}
    r4.expect(M in ent, f, None, "compaction without the store mutex", "compactLocked is reachable without KVStore::_mutex held exclusively (callers: %s): a concurrent write between the survivor scan and the "
              "log reset would be in neither the snapshot nor the log" % sorted({short(g.name) for (g, e, n) in ctx.cg().callers.get(f.name, [])}),
              okdesc="every caller of compactLocked holds _mutex exclusively")
    for e in [tmp, ren, clr] + opens:
        # (a step inside a helper: the helper's entry lock set is what all its call sites hold — locks.LockAnalysis)
        r4.instance()
        r4.expect(la.holds(e.fn, e.orig, M, "x"), f, e, "file step outside the mutex", "a compaction file step runs without the exclusive store mutex", okdesc="compaction step under _mutex")


def r5(ctx, r):
    f = kvf(ctx, "load")
    # the decoder's cursor set-up, found by its shape (not by what the locals are called): the limit `T *E = <base> + <record>.size()`
    # and the cursor `T *P = <base>` over the same base pointer
    decls = [dv for e in f.stmts() if e.node.get("k") == "decl" for dv in e.node["vars"] if dv.get("init") is not None and "*" in (dv.get("t") or "")]
    lims = []
    for dv in decls:
        i = strip_casts(dv["init"])
        if i.get("k") == "bin" and i["op"] == "+" and strip_casts(i["lhs"]).get("k") == "var":
            sz = strip_casts(i["rhs"])
            if sz.get("k") == "mcall" and last(sz.get("callee", "")) == "size" and strip_wrappers(sz.get("obj") or {}).get("k") == "var":
                lims.append((dv, strip_casts(i["lhs"]), strip_wrappers(sz["obj"])))
    curs = [dv for dv in decls for (ev, base, rec) in lims if dv is not ev and strip_casts(dv["init"]).get("k") == "var" and strip_casts(dv["init"]).get("d") == base.get("d") and "const *" not in dv["t"].replace("*const", "* const").replace(" * const", " const *")]
    if len(lims) != 1 or len(curs) != 1:
        raise AnalysisBroken("load(): the decoder's cursor set-up (`ptr = base`, `end = base + <record>.size()`) not found (%d limits, %d cursors)" % (len(lims), len(curs)))
    END, PTR, recvar = lims[0][0]["n"], curs[0]["n"], lims[0][2]

    def edge(c, truth):
        # A branch on a value that was computed as a short-circuit expression and only tested once (`const bool bad = a || b; if (bad)`
        # — Block.cond puts the initialiser in place of the local) is read as its operands: the false edge of `a || b` means both were
        # evaluated and false, the true edge of `a && b` both true; `!x` swaps the edge.  (The other edge of each says nothing.)
        c = strip_casts(c)
        if c is None:
            return []
        if c.get("k") == "un" and c.get("op") == "!" and isinstance(c.get("v"), dict):
            return edge(c["v"], not truth)
        if c.get("k") == "bin" and c.get("op") in ("||", "&&"):
            if truth is (c["op"] == "&&"):
                return edge(c["lhs"], truth) + edge(c["rhs"], truth)
            return []
        ops = []
        cp = common.cmp_parts(c)
        if cp:
            op, l, rr = cp
            ls, rs = strip_casts(l), strip_casts(rr)
            # `ptr + E > end`  (false edge: avail >= E)
            if rs.get("k") == "var" and rs["n"] == END and ls.get("k") == "bin" and ls["op"] == "+":
                fm = lin(ls)
                if fm is not None and PTR in fm[1]:
                    rest = form(fm[0], [s for s in fm[1] if s != PTR] + [])
                    if list(fm[1]).count(PTR) == 1:
                        if op == ">" and truth is False:
                            ops.append(("atleast", rest))
                        if op == "<=" and truth is True:
                            ops.append(("atleast", rest))
        return ops

    def elem(e):
        if e.kind != "stmt":
            return None
        n = e.node
        ops = []
        k = n.get("k")
        if "root" not in e.raw:
            return None
        for x in walk(n):
            xk = x.get("k")
            if xk == "call" and x.get("callee") in ("memcpy", "std::memcpy") and len(x["args"]) == 3:
                src = strip_casts(strip_wrappers(x["args"][1]))
                if src.get("k") == "var" and src["n"] == PTR:
                    ops.append(("need", lin(x["args"][2]), "memcpy(%s, ptr, %s)" % (show(x["args"][0])[:20], show(x["args"][2]))))
                dst = strip_casts(strip_wrappers(x["args"][0]))
                if dst.get("k") == "un" and dst["op"] == "&" and dst["v"].get("k") == "var":
                    ops.append(("kill", dst["v"]["n"]))
            if xk == "ctor" and x.get("cls") == "std::basic_string" and len([a for a in x["args"] if not a.get("def")]) == 2:
                a0 = strip_casts(strip_wrappers(x["args"][0]))
                if a0.get("k") == "var" and a0["n"] == PTR:
                    ops.append(("need", lin(x["args"][1]), "std::string(ptr, %s)" % show(x["args"][1])))
            if xk == "un" and x["op"] == "*" and strip_casts(x["v"]).get("k") == "un" and strip_casts(x["v"])["op"] == "post++" and strip_casts(strip_casts(x["v"])["v"]).get("n") == PTR:
                ops.append(("need", form(1), "*ptr++"))
                ops.append(("adv", form(1)))
            if xk == "bin" and x["op"] == "+=" and strip_casts(x["lhs"]).get("k") == "var" and strip_casts(x["lhs"])["n"] == PTR:
                ops.append(("adv", lin(x["rhs"]), "ptr += %s" % show(x["rhs"])))
        if k == "decl":
            for v in n["vars"]:
                if v["n"] == PTR and v.get("init") is not None:
                    # ptr = base; end = base + buffer.size(): the window is the whole record, whose minimum size was checked
                    ops.append(("reset", form(0, ("record",))))
        return ops
    # The window starts as the whole record (`ptr = base; end = base + <record>.size()`), whose minimum size was checked on the way:
    # a guard `<record>.size() < K` whose 'not smaller' edge every path to the decoder takes.  The guard may stand in load() or in
    # a boolean helper load() branches on (`if (!recordIntact(buffer, n)) continue;` — the helper's parameter is read as load()'s
    # buffer and its `return false` paths never reach the decoder): decided on the expanded view by edge dominance.
    v = view_of(ctx, f)
    ptrdecls = [e for e in v.stmts() if e.frame is v.root_frame and e.node.get("k") == "decl" and any(dv is curs[0] for dv in e.node["vars"])]
    if len(ptrdecls) != 1:
        raise AnalysisBroken("load(): the cursor declaration is not an element of load()'s own body")
    floor = 0
    for b in v.blocks.values():
        co = common.cmp_oriented(b.cond, lambda x: const_value(x) is not None) if b.cond is not None else None
        if not co:
            continue
        l = strip_casts(co[1])
        if not (l.get("k") == "mcall" and last(l.get("callee", "")) == "size" and l.get("obj") is not None):
            continue
        o, ofr = vresolve(l["obj"], b.frame)
        if not same_var(o, ofr, recvar, v.root_frame):
            continue
        k = const_value(co[2])
        # (succs[0] is the edge on which the stored condition holds)
        if co[0] in ("<", "<=") and dominated_by_edge(v, ptrdecls[0], b, 1, eh=False):
            floor = max(floor, k if co[0] == "<" else k + 1)
        if co[0] in (">=", ">") and dominated_by_edge(v, ptrdecls[0], b, 0, eh=False):
            floor = max(floor, k if co[0] == ">=" else k + 1)

    r.note("load(): record size floor %d at the decoder" % floor)

    def elem2(e):
        ops = elem(e)
        if ops:
            ops = [("reset", form(floor)) if (o[0] == "reset") else o for o in ops]
        return ops
    w = Window(f, edge, elem2, init=None)
    nreq = len(w.checked) + len(w.violations)
    if nreq < 8:
        raise AnalysisBroken("load(): only %d cursor reads recognised in the log decoder (floor 8)" % nreq)
    r.instance(nreq)
    for (e, what) in w.checked:
        r.ok("load(): %s inside the record window" % what)
    def under(call):
        """blocks of the view that belong to the expansion of the helper call `call` (at any depth)"""
        out = []
        for b in v.blocks.values():
            fr = b.frame
            while fr is not None and fr.call is not call:
                fr = fr.parent
            if fr is not None:
                out.append(b)
        return out

    def is_size_guard(b):
        co = common.cmp_oriented(b.cond, lambda x: const_value(x) is not None) if b.cond is not None else None
        l = strip_casts(co[1]) if co else None
        if l is None or not (l.get("k") == "mcall" and last(l.get("callee", "")) == "size" and l.get("obj") is not None):
            return False
        o, ofr = vresolve(l["obj"], b.frame)
        return same_var(o, ofr, recvar, v.root_frame)
    if w.violations and any(is_size_guard(b) for (call, g) in v.joined_bool for b in under(call)):
        # the record's size IS checked, but inside a boolean helper whose result reaches the decoder's guard in a way the view cannot
        # follow (stored, combined, passed on): what the helper established is unknown here — not a verdict
        raise AnalysisBroken("load(): the record-size guard sits in a boolean helper (%s) whose result is not the condition of the branch that protects the decoder" % ", ".join(sorted({short(g.name) for (c_, g) in v.joined_bool})))
    # the window analysis reads load()'s own body: when the cursor or the limit is handed to a function (a bounds-check or
    # field-reader helper) the guards / advances made there are not seen, so missing knowledge is not a verdict
    escapes = [x for e in f.stmts() if "root" in e.raw for x in walk(e.node) if x.get("k") in ("call", "mcall") and x.get("callee") not in ("memcpy", "std::memcpy") and
               any(y.get("k") == "var" and y["n"] in (PTR, END) for a in x.get("args", []) for y in [strip_casts(strip_wrappers(a))] + ([strip_casts(strip_wrappers(a))["v"]] if strip_casts(strip_wrappers(a)).get("k") == "un" else []) if isinstance(y, dict))]
    if w.violations and escapes:
        raise AnalysisBroken("load(): the decoder hands its cursor / limit to %s: bounds established there are not followed" % ", ".join(sorted({short(x.get("callee", "?")) for x in escapes})))
    for (e, need, have, what) in w.violations:
        r.fail(f, e, "read outside record: %s" % what.split("(")[0], "the log decoder performs `%s` needing %s bytes while only %s are known to remain before `end`: a corrupt or torn record "
               "makes replay read outside the record buffer" % (what, show_form(need), show_form(have)))
    # every symbolic length is bounded by a constant before it is added to the cursor
    # (the bound only has to keep `ptr + len` from wrapping: any constant below 2^31; that it is also LARGE enough is R8)
    bounds = {}
    # the record's total length is found by dataflow, whatever it is called and wherever the frame is read (load() or a frame-reader
    # helper the replay loop branches on): the size argument of the read on the _logPath stream that fills a buffer's data()
    logs = [(e.frame, dv) for e in v.stmts() if e.node.get("k") == "decl" for dv in e.node["vars"]
            if (dv.get("init") or {}).get("k") == "ctor" and dv["init"].get("cls") == "std::basic_ifstream" and dv["init"].get("args") and path_name(dv["init"]["args"][0], e.frame) == "_logPath"]
    total = []
    for e in v.stmts():
        n = e.node
        if n.get("k") == "mcall" and last(n.get("callee", "")) == "read" and len(n.get("args", [])) == 2 and len(logs) == 1:
            o, ofr = vresolve(n.get("obj") or {}, e.frame)
            if o is not None and o.get("k") == "var" and o.get("d") == logs[0][1]["d"] and ofr is logs[0][0] and any(x.get("k") == "mcall" and last(x.get("callee", "")) == "data" for x in walk(n["args"][0])):
                tv, tfr = vresolve(strip_casts(n["args"][1]), e.frame)
                if tv is not None and tv.get("k") == "var":
                    total.append((tv, tfr))
    if len(total) != 1:
        raise AnalysisBroken("load(): the read of the record body from the log (`<log>.read(<buffer>.data(), <length>)`) not found exactly once (%d)" % len(total))
    for sym in ("keyLen", "valLen", "totalLen"):
        r.instance()
        ok = False
        for b in v.blocks.values():
            # (in load() itself, or in a helper that is handed the length: the helper's parameter is read as load()'s variable)
            co = common.cmp_oriented(b.cond, lambda x: const_value(x) is not None) if b.cond is not None else None
            lv, lfr = vresolve(strip_casts(co[1]), b.frame) if co else (None, None)
            is_sym = lv is not None and lv.get("k") == "var" and (same_var(lv, lfr, total[0][0], total[0][1]) if sym == "totalLen" else (lfr is v.root_frame and lv["n"] == sym))
            if co and co[0] in (">", ">=") and is_sym and const_value(co[2]) < 2 ** 31:
                ok = True
                bounds.setdefault(sym, []).append(const_value(co[2]) - (1 if co[0] == ">=" else 0))
        r.expect(ok, f, None, "%s unbounded" % sym, "the decoded length %s is not compared with a constant upper bound before it is used in `ptr + %s` (pointer arithmetic could wrap)" % (sym, sym),
                 okdesc="%s bounded by a constant" % sym)
    ctx._c11_replay_bounds = bounds
    # the CRC is verified before any field is used: the decoder is reachable only over the 'equal' edge of a comparison of
    # crc32(<payload>) with the stored value (in load() itself or in a boolean helper it branches on)
    crc = []
    for b in v.blocks.values():
        cp = common.cmp_parts(strip_casts(b.cond)) if b.cond is not None else None
        if cp and cp[0] in ("==", "!=") and any(strip_casts(x).get("k") in ("mcall", "call") and strip_casts(x).get("callee") == KV + "::crc32" for x in cp[1:]):
            crc.append((b, 0 if cp[0] == "==" else 1))
    if not crc and any(x.get("k") in ("bin", "opcall") and x.get("op") in ("==", "!=") and any(y.get("callee") == KV + "::crc32" for y in walk(x)) for e in v.stmts() if "root" in e.raw for x in walk(e.node)):
        # the comparison exists but its result is not branched on where it is computed (stored / returned through a join): cannot be followed
        raise AnalysisBroken("load(): the checksum comparison is not the condition of a branch (its result is stored or passed through a helper the view cannot correlate)")
    r.instance()
    r.expect(len(crc) == 1 and dominated_by_edge(v, ptrdecls[0], crc[0][0], crc[0][1], eh=False), f, None, "CRC after use",
             "record fields are decoded before the checksum was verified", okdesc="crc verified before decoding")


def _conv_strip(n):
    """look through value conversions (casts, converting constructors, std::move) to the converted expression"""
    n = strip_wrappers(n)
    while n is not None and n.get("k") in ("cast", "ctor") and (n.get("v") or n.get("args")):
        n = strip_wrappers(n.get("v") or n["args"][0])
    return n


def _assignments(elems, d):
    """elements that assign to / step the local variable d"""
    out = []
    for e in elems:
        n = e.node
        if n.get("k") in ("bin", "opcall") and n.get("op", "").endswith("=") and n.get("op") not in ("==", "!=", "<=", ">="):
            lhs = strip_wrappers(n.get("lhs") or (n.get("args") or [None])[0])
            if lhs is not None and lhs.get("k") == "var" and lhs.get("d") == d:
                out.append(e)
        elif n.get("k") == "un" and ("++" in n["op"] or "--" in n["op"]) and strip_wrappers(n["v"]).get("k") == "var" and strip_wrappers(n["v"]).get("d") == d:
            out.append(e)
    return out


def reach_blocks(v, start):
    """ids of the blocks control can be in after element `start` (a block counts from its first element; nothing continues behind a throw)"""
    def dead(es):
        return any(x.kind == "stmt" and x.node.get("k") == "throw" and "root" in x.raw for x in es)
    seen, work = set(), []
    b0 = start.block
    if not dead(b0.elems[start.idx + 1:]) and not b0.raw.get("noreturn"):
        work = [s for s in b0.succs if s is not None]
    while work:
        bid = work.pop()
        if bid in seen:
            continue
        seen.add(bid)
        b = v.blocks[bid]
        if dead(b.elems) or b.raw.get("noreturn"):
            continue
        work += [s for s in b.succs if s is not None]
    return seen


def r6(ctx, r):
    fb = ctx.fb()
    f = kvf(ctx, "load")
    # decided over load() with its helpers expanded: the cut (and the test that guards it) may stand in load() or in a helper that
    # load() calls behind the replay loop with the recorded offset as argument
    v = view_of(ctx, f)
    rs = [e for (e, kind, path, mode) in view_sites(v) if kind == "resize"]
    r.instance()
    if not rs:
        r.fail(f, None, "torn tail not cut", "load() no longer truncates the log to the end of the last complete record: records appended after a torn tail are framed by the torn record's "
               "length on the next replay and an acknowledged write is lost")
        return
    rz = rs[0]
    size_arg = _conv_strip(rz.node["args"][1])
    # the variable the cut position comes from: through conversions, a helper's parameter (→ the caller's argument) and
    # single-assignment locals initialised from another variable (`const auto keep = static_cast<...>(validEnd)`)
    cur, cfr, aliases = size_arg, rz.frame, []
    for _ in range(8):
        if cur is None or cur.get("k") != "var":
            break
        aliases.append((cfr, cur.get("d")))
        if cur.get("parm") is not None:
            if cfr.parent is None or cur["parm"] >= len(cfr.args):
                break
            cur, cfr = _conv_strip(cfr.args[cur["parm"]]), cfr.parent
            continue
        dv = local_decl(cfr.fn, cur.get("d"))
        init = _conv_strip(dv["init"]) if dv and dv.get("init") is not None else None
        if init is not None and init.get("k") == "var" and not _assignments(cfr.fn.stmts(), cur.get("d")):
            cur = init
            continue
        break
    vn = cur["n"] if cur is not None and cur.get("k") == "var" else None
    r.expect(vn is not None, f, rz, "cut position", "the log is cut at `%s`, not at a recorded end-of-record offset" % show(size_arg), okdesc="log cut at %s" % vn)
    if vn is None:
        return
    # the replayed log: the input stream opened on _logPath; its reads
    logvar = [(e.frame, dv) for e in v.stmts() if e.node.get("k") == "decl" for dv in e.node["vars"]
              if (dv.get("init") or {}).get("k") == "ctor" and dv["init"].get("cls") == "std::basic_ifstream" and dv["init"].get("args") and path_name(dv["init"]["args"][0], e.frame) == "_logPath"]
    if len(logvar) != 1:
        raise AnalysisBroken("load(): %d input streams on _logPath (expected the one the replay reads)" % len(logvar))
    lfr, ldv = logvar[0]

    def on_log(n, fr):
        """the receiver of member call n is the replayed stream (also when a helper got it as a reference parameter)"""
        o, ofr = vresolve(n.get("obj") or {}, fr)
        return o is not None and o.get("k") == "var" and o.get("d") == ldv["d"] and ofr is lfr
    # the offset is only advanced after a record was read completely (both reads succeeded)
    asg = _assignments([e for e in v.stmts() if e.frame is cfr], cur.get("d"))
    reads = [e for e in v.stmts() if e.node.get("k") == "mcall" and last(e.node.get("callee", "")) == "read" and on_log(e.node, e.frame)]
    # shapes that are not followed (a refusal, not a verdict): the offset is what a function returned, or the stream is handed to
    # a function that was not expanded (its reads are not seen)
    expanded_calls = {id(c.node) for (c, g) in v.expanded}
    dv0 = local_decl(cfr.fn, cur.get("d")) if cur.get("parm") is None else None
    i0 = _conv_strip(dv0["init"]) if dv0 and dv0.get("init") is not None else None
    if not asg and i0 is not None and i0.get("k") in ("call", "mcall") and last(i0.get("callee", "")) != "tellg":
        raise AnalysisBroken("load(): the cut offset `%s` is the value returned by %s — where it was recorded is not followed" % (vn, short(i0.get("callee", "?"))))
    away = [x for e in v.stmts() if "root" in e.raw for x in walk(e.node) if x.get("k") in ("call", "mcall", "ctor") and id(x) not in expanded_calls and
            any(same_var(*vresolve(a, e.frame), {"k": "var", "d": ldv["d"]}, lfr) for a in x.get("args", []))]
    if len(reads) != 2 and away:
        raise AnalysisBroken("load(): the replayed stream is handed to %s, whose reads are not followed" % ", ".join(sorted({short(x.get("callee") or x.get("cls") or "?") for x in away})))
    r.instance()
    ok = len(asg) >= 1 and len(reads) == 2
    for a in asg:
        if not any(x.get("k") == "mcall" and last(x.get("callee", "")) == "tellg" and on_log(x, a.frame) for x in walk(a.node)):
            ok = False
        # not reachable through the failing edge of either read
        for b in v.blocks.values():
            c = b.cond
            if c is not None and any(any(x is rd.node for x in walk(c)) for rd in reads):
                op, st, sf = branch_ok(b)       # the stream converts to true when the read succeeded
                if sf is not None and search(v, ("block", sf), lambda x, a=a: x is a, stop=lambda x: x in reads, eh=False) is not None:
                    ok = False
        if not all(elem_dominates(v, rd, a, eh=False) for rd in reads):
            ok = False      # written at a point that is not behind both reads of the same iteration
    r.expect(ok, f, asg[0] if asg else None, "end-of-record offset", "%s is not advanced exactly when a record was read completely (after both reads succeeded)" % vn,
             okdesc="%s = tellg() after a complete record" % vn)
    # every way out of the replay loop reaches the cut decision (no early return between loop and cut), and an incomplete
    # read never skips it
    r.instance()
    behind = set.union(*[reach_blocks(v, rd) for rd in reads]) if reads else set()
    to_read = {bid for bid in behind if any(search(v, ("block", bid), lambda x, rd=rd: x is rd, eh=False) is not None for rd in reads)}
    after_loop = [v.blocks[bid] for bid in behind - to_read]

    def reaches_cut(bid):
        return bid is not None and search(v, ("block", bid), lambda x: x is rz, eh=False) is not None
    # the branches behind the loop that DECIDE whether the cut is reached: one successor can reach it, another cannot (a loop of
    # the expiry sweep between the replay and the cut reaches it on both edges and decides nothing)
    to_cut = {b.id for b in after_loop if b.cond is not None and len({reaches_cut(s) for s in b.succs}) == 2}
    alias_set = {(id(fr), d) for (fr, d) in aliases}

    def cond_vars(b):
        return [(x, b.frame) for x in walk(b.cond) if x.get("k") == "var"]

    def is_ec(x):
        return "error_code" in (x.get("t") or "")

    def is_log_size(x, fr):
        dv = local_decl(fr.fn, x.get("d")) if x.get("parm") is None else None
        i = strip_wrappers(dv["init"]) if dv and dv.get("init") is not None else None
        return i is not None and i.get("k") == "call" and i.get("callee") == "std::filesystem::file_size" and i.get("args") and path_name(i["args"][0], fr) == "_logPath"
    tests = [b for b in after_loop if b.cond is not None and b.id in to_cut and any((id(fr), x.get("d")) in alias_set or is_ec(x) for (x, fr) in cond_vars(b))]
    tset = {b.id for b in tests}
    w = None
    for rd in reads:
        w = w or search(v, rd, "exit", stop=lambda x: x.block.id in tset or (x.kind == "stmt" and x.node.get("k") == "throw"), edge_ok=lambda b, si: b.id not in tset, eh=False)
    r.expect(bool(tests) and w is None, f, rz, "cut skipped", "a path from the replay loop leaves load() without deciding whether the log tail must be cut", witness=witness_str(v, w),
             okdesc="every exit of the replay loop reaches the cut decision")
    # the decision does not depend on WHY the loop ended: behind the loop, whether the cut is reached is decided only by the
    # recorded offset, the file's size (a value std::filesystem::file_size(_logPath) initialised) and error codes
    r.instance()
    other = sorted({x["n"] for b in after_loop if b.cond is not None and b.id in to_cut for (x, fr) in cond_vars(b)
                    if not ((id(fr), x.get("d")) in alias_set or is_ec(x) or is_log_size(x, fr))})
    r.expect(not other, f, rz, "cut depends on loop exit reason", "whether the tail is cut depends on %s: every way the replay can stop (short length prefix, short body, bad length) "
             "leaves bytes that must be cut" % other, okdesc="cut decided only by offset < file size")
    # constructor: load before the append-mode open
    ct = fb.func(KV + "::<ctor>")
    vc = view_of(ctx, ct)
    ld = [e for e in vc.stmts() if e.node.get("k") == "mcall" and e.node.get("callee") == KV + "::load"]
    op = [e for e in vc.stmts() if e.node.get("k") == "mcall" and e.node.get("callee") == KV + "::openLogFile"]
    r.instance()
    r.expect(ld and op and all(any(elem_dominates(vc, l, o, eh=False) for l in ld) for o in op), ct, None, "open before load", "the constructor opens the log for appending before load() has cut the torn tail", okdesc="ctor: load() ≺ openLogFile()")
    # a failed cut is an error, not ignored
    r.instance()
    rec = ec_arg(rz.node)
    ect = [b for b in v.blocks.values() if b.frame is rz.frame and b.cond is not None and rec is not None and same_var(is_ec_test(b.cond), b.frame, rec, rz.frame) and b.elems and elem_dominates(v, rz, b.elems[-1], eh=False)]
    okc = False
    for b in ect:
        c, st, sf = common.branch(b)
        if st is not None and search(v, ("block", st), "exit", stop=lambda x: x.kind == "stmt" and x.node.get("k") == "throw", eh=False) is None:
            okc = True
    r.expect(okc, f, rz, "cut failure ignored", "a failing truncation is ignored and appending continues behind the torn tail", okdesc="failed cut ⇒ throw")


def r7(ctx, r):
    fb = ctx.fb()
    sv0 = fb.func(JS + "::saveToFile", file_suffix=JSF)
    sv = view_of(ctx, sv0)
    sites = [(e, kind, path) for (e, kind, path, mode) in view_sites(sv)]
    opens = [e for (e, k, p) in sites if k == "ofstream"]
    rens = [e for (e, k, p) in sites if k == "rename"]
    r.instance()
    if not (opens and rens):
        r.fail(sv0, None, "in-place rewrite", "JsonFileStore::saveToFile does not write a temp file and rename it over the store: the durable file is truncated in place")
        return
    r.ok("saveToFile: temp file + rename")
    fv = stream_var_of(sv, opens[0])
    ffr = opens[0].frame

    def on_file(n):
        """n names the temp stream variable"""
        n = strip_wrappers(n or {})
        return fv is not None and n.get("k") == "var" and n.get("d") == fv["d"]
    writes = [e for e in sv.stmts() if e.frame is ffr and e.node.get("k") in ("opcall", "mcall") and (e.node.get("op") == "<<" or last(e.node.get("callee", "")) == "write") and
              any(on_file(x) for x in walk(e.node))]
    closes = [e for e in sv.stmts() if e.frame is ffr and e.node.get("k") == "mcall" and last(e.node.get("callee", "")) in ("close",) and on_file(e.node.get("obj"))] + \
             [e for e in sv.elems() if e.kind == "dtor" and e.frame is ffr and fv and e.raw.get("d") == fv["d"]]

    def state_expr(c):
        """(True if the expression is true when the stream is good / False if true when it failed) for good() / fail() / bad() /
        operator bool / operator! on the temp stream under any number of `!`; None for anything else"""
        c, odd = _neg_strip(c)
        if c is None or c.get("k") not in ("mcall", "opcall"):
            return None
        nm = last(c.get("callee", ""))
        o = c.get("obj") if c.get("k") == "mcall" else (c.get("args") or [None])[0]
        if not on_file(o) or nm not in ("good", "fail", "bad", "operator bool", "operator!"):
            return None
        return (nm in ("good", "operator bool")) != odd
    # the tests of the stream state: a branch on the state itself (evaluated at the branch), or on a `const bool` local that was
    # initialised with the state (evaluated at the declaration — that is where it must be behind the close)
    goods = []      # (block, element at which the state is read, condition true ⇒ stream good?)
    for b in sv.blocks.values():
        if b.frame is not ffr or b.cond is None or len(b.succs) != 2:
            continue
        c, st, sf = common.branch(b)
        pol = state_expr(c)
        if pol is not None and b.elems:
            goods.append((b, b.elems[-1], pol, st, sf))
        elif c is not None and c.get("k") == "var" and c.get("parm") is None:
            for e in sv.stmts():
                if e.frame is ffr and e.node.get("k") == "decl":
                    for dv in e.node["vars"]:
                        if dv.get("d") == c.get("d") and (dv.get("t") or "").strip() in ("const bool", "bool const") and dv.get("init") is not None and state_expr(dv["init"]) is not None:
                            goods.append((b, e, state_expr(dv["init"]), st, sf))
    for ren in rens:
        r.instance()
        ok = bool(writes) and all(search(sv, ("entry",), lambda x: x is ren, stop=lambda x, w=w: x is w, eh=False) is None for w in writes)
        r.expect(ok, sv0, ren, "rename before write", "the temp file is renamed over the store before the new contents were written", okdesc="write ≺ rename")
        r.instance()
        ok = bool(closes) and search(sv, ("entry",), lambda x: x is ren, stop=lambda x: x in closes, eh=False) is None
        r.expect(ok, sv0, ren, "rename before close", "the temp file is renamed over the store while its stream is still open: small contents can still sit in the stream buffer, so a crash right after the "
                 "rename leaves an empty store file", okdesc="stream closed ≺ rename")
        r.instance()
        ok = False
        for (b, at, pol, st, sf) in goods:
            # every path to the rename takes the 'stream is good' edge of a test whose value was read behind the close (a test that
            # only follows the rename, or whose failing edge merely does not loop back to it, protects nothing)
            bad, good = (sf, st) if pol else (st, sf)
            gi = [i for i, x in enumerate(b.succs) if x == good]
            if good is not None and good != bad and len(gi) == 1 and dominated_by_edge(sv, ren, b, gi[0], eh=False) and \
                    (bad is None or search(sv, ("block", bad), lambda x: x is ren, eh=False) is None) and any(c.kind == "stmt" and (c is at or elem_dominates(sv, c, at, eh=False)) for c in closes):
                ok = True
        r.expect(ok, sv0, ren, "rename without state check", "the rename is reachable although the stream reported a write/close failure (or the state is tested before close flushed the buffer)",
                 okdesc="good() tested after close, failure ⇒ no rename")


def r8(ctx, r):
    """Writer/reader agreement on sizes: whatever set()/setBatch()/expireAt() accept and journal, the replay must admit.  The
    widest record writeLogEntry frames is op(1) + keyLen(4) + key + expiry(8) + valLen(4) + value + crc(4); a replay bound below
    that takes a complete record for a torn tail and truncates it AND every later record away."""
    fb = ctx.fb()
    vk = [g for g in fb.in_file(KVF) if g.ok and last(g.name) == "validateKeyValue"]
    if not vk:
        raise AnalysisBroken("validateKeyValue not found")
    lim = {}
    for b in vk[0].blocks.values():
        co = common.cmp_oriented(b.cond, lambda x: const_value(x) is not None) if b.cond is not None else None
        if co and co[0] in (">", ">="):
            t = show(co[1])
            which = "key" if t.startswith("key.") else ("value" if t.startswith("value.") else None)
            if which:
                lim[which] = const_value(co[2]) - (1 if co[0] == ">=" else 0)
    if set(lim) != {"key", "value"}:
        raise AnalysisBroken("validateKeyValue: key/value size limits not identified (%s)" % lim)
    bounds = getattr(ctx, "_c11_replay_bounds", None)
    if not bounds:
        raise AnalysisBroken("replay bounds not collected (C11-R5 did not run)")
    # expiry values: the replay applies only 'plausible' epoch milliseconds (ms > 0 …); every value a writer journals must be one,
    # or the sentinel — a deadline journalled as ms <= 0 is ignored on replay and the key comes back after a crash
    from ..finite import compile_expr, NotPure
    te = [g for g in fb.in_file(KVF) if g.ok and last(g.name) == "toEpochMs"]
    if len(te) != 1:
        raise AnalysisBroken("toEpochMs: %d definitions" % len(te))
    rets = common.returns(te[0])
    inits = {dv["d"]: dv for e in te[0].stmts() if e.node.get("k") == "decl" for dv in e.node["vars"]}
    r.instance()
    okv, why = True, ""
    for e in rets:
        v = strip_casts(e.node.get("v") or {})
        free = sorted({x["n"] for x in walk(v) if x.get("k") == "var"})
        if v.get("k") == "mcall" and last(v.get("callee", "")) == "count":
            okv, why = False, "the raw millisecond count of the time point (any sign)"
            continue
        margs = [a for a in v.get("args", []) if not a.get("def")] if v.get("k") == "call" and v.get("callee") in ("std::max", "std::min") else None
        try:
            if margs is not None and len(margs) == 2:
                # the clamp spelled std::max(ms, 1) / std::min(…): evaluated exactly, like the conditional expression it replaces
                (fa, _t, _c), (fb_, _t2, _c2) = compile_expr(strip_casts(margs[0]), free), compile_expr(strip_casts(margs[1]), free)
                pick = max if v["callee"] == "std::max" else min
                fnv = lambda *vals, fa=fa, fb_=fb_, pick=pick: pick(fa(*vals), fb_(*vals))
            elif v.get("k") in ("mcall", "call"):
                raise AnalysisBroken("toEpochMs: return value `%s` is a call the rule does not evaluate" % show(v)[:40])
            else:
                fnv, _t, _c = compile_expr(v, free)
        except NotPure as ex:
            raise AnalysisBroken("toEpochMs: return value `%s` not evaluable (%s)" % (show(v)[:40], ex))
        import itertools
        dom = [-2 ** 62, -86400000, -1, 0, 1, 2, 1700000000000, 2 ** 62]
        for vals in itertools.product(dom, repeat=len(free)):
            if fnv(*vals) <= 0:
                okv, why = False, "%s for %s" % (fnv(*vals), dict(zip(free, vals)))
                break
    r.expect(okv, te[0], rets[0] if rets else None, "journalled expiry the replay ignores", "toEpochMs can return %s, and the writers journal it as the record's expiry: the replay applies only ms > 0 (isPlausibleEpochMs) and ignores "
             "the record otherwise — expireAt(key, time_point{}) hides the key in memory, but after a crash before the eviction worker's 'D' record it is back, eternal" % why, okdesc="every journalled expiry is > 0")
    wl = [g for g in fb.in_file(KVF) if g.ok]
    nexp = 0
    for g in wl:
        for e in g.stmts():
            n = e.node
            if n.get("k") == "mcall" and n.get("callee") == KV + "::writeLogEntry" and len([a for a in n.get("args", []) if not a.get("def")]) >= 4:
                a = strip_casts(strip_wrappers(n["args"][3]))
                nexp += 1
                r.instance()
                r.expect((a.get("k") in ("call", "mcall") and last(a.get("callee", "")) == "toEpochMs") or "NO_EXPIRY" in show(a), g, e, "expiry journalled raw", "%s journals the expiry `%s`, not through toEpochMs / the sentinel" % (short(g.name), show(a)[:40]),
                         okdesc="%s: expiry through toEpochMs" % short(g.name))
    if nexp < 3:
        raise AnalysisBroken("only %d journal writes with an expiry found" % nexp)
    need = {"keyLen": lim["key"], "valLen": lim["value"], "totalLen": 1 + 4 + lim["key"] + 8 + 4 + lim["value"] + 4}
    for sym, n in need.items():
        r.instance()
        got = max(bounds.get(sym, [0]))
        r.expect(got >= n, fb.func(KV + "::load"), None, "replay refuses what the writer accepts: %s" % sym,
                 "load() stops the replay at a record whose %s exceeds %d, but the setters accept and journal records up to %d (key <= %d, value <= %d bytes): such a record — and every record after it — is taken for "
                 "a torn tail and truncated away on the next open (values lost, removed keys come back)" % (sym, got, n, lim["key"], lim["value"]), okdesc="replay admits %s up to %d (writer max %d)" % (sym, got, n))


def run(ctx, ck):
    ck.run_rule("C11-R1", "closed set of file-mutating sites with their paths and modes", "A3 + A10", lambda r: r1(ctx, r))
    ck.run_rule("C11-R2", "acknowledge only after log write + flush; failed writes throw", "A5 ghost + A2", lambda r: r2(ctx, r))
    r3 = ck.rule("C11-R3", "snapshot replacement order", "A2 dominance chain")
    r4 = ck.rule("C11-R4", "compaction runs under one exclusive hold of the store mutex", "A1")
    try:
        r3_r4(ctx, r3, r4)
    except AnalysisBroken as ex:
        r3.broken = str(ex)
        ck.broken.append("C11-R3/R4: %s" % ex)
    ck.run_rule("C11-R5", "the log decoder never reads outside a record", "A7 cursor-window abstract interpretation", lambda r: r5(ctx, r))
    ck.run_rule("C11-R8", "the log replay admits every record size the setters accept (writer/reader size agreement)", "table agreement over the extracted constants", lambda r: r8(ctx, r))
    ck.run_rule("C11-R6", "a torn tail is cut before new records follow it", "A2 + dataflow shape", lambda r: r6(ctx, r))
    ck.run_rule("C11-R7", "whole-file stores are replaced atomically", "A10 + A2", lambda r: r7(ctx, r))


# Rules whose verdict stays valid when code is moved into (or a change is made inside) a helper the inventory has never seen:
FOLLOWS_HELPERS = {
    "C11-R1": "every file-mutating call of both store headers is enumerated wherever it stands; one in a private helper is attributed to the callers (parameters read as their arguments)",
    "C11-R3": "decided over compactLocked with every same-class callee expanded in place (View); a path parameter of a helper is read at the call",
    "C11-R4": "the steps are taken from the expanded view and the lock set of a helper is the intersection over its call sites (LockAnalysis)",
    "C11-R5": "guard and CRC dominance are decided on the expanded view with boolean helpers correlated to the branch they decide; the window clause refuses by itself when the cursor is handed to a function or a guard sits in a helper it cannot correlate",
    "C11-R6": "decided over load() / the constructor with same-class callees expanded; the cut position is followed through helper parameters",
    "C11-R7": "decided over saveToFile with same-class callees expanded; the stream state is followed through a const bool local",
}
