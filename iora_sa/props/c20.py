"""C20 — Static asset and template lookup never escapes its root directory (DESIGN.md §2 C20)."""
from ..cfg import search, witness_str, dominated_by_edge, elem_dominates
from ..expr import show, walk, last, field_of, strip_wrappers, strip_casts, short, const_value, is_assign, assign_parts as _ap, strip_views
from ..facts import AnalysisBroken
from ..finite import dominating_facts
from ..rules import common
from .c15 import asg, key_of, _reach_until_ret

TITLE = "Static asset and template lookup never escapes its root directory"
TECHNIQUE = 'sanitiser-flow analysis over dominating branch facts at every lookup site (resolved path -> error test -> containment of that same variable -> regular file -> read); closed set of file readers with a constant O_NOFOLLOW flag word; deny list of string-prefix path comparisons'
AS = "iora::web::Assets"
AF = "iora/web/assets.hpp"
O_NOFOLLOW, O_CLOEXEC, O_ACCMODE = 0o400000, 0o2000000, 0o3
READ_PRIMS = ("open", "openat", "fopen", "creat", "read", "pread", "mmap", "readlink")
STREAMS = ("std::basic_ifstream", "std::basic_fstream", "std::basic_filebuf")

EXPLANATION = (
    "Containment is a sanitiser-flow statement and is decided from the shape of assets.hpp. R1 closed set of file readers: the only "
    "primitives that open or read a file are in readFile (::open with a constant flag word containing O_NOFOLLOW and O_CLOEXEC, read-only; "
    "::read on that descriptor); readFile is called only from buildEntry and getTemplateFilesystem, buildEntry only from the three "
    "lookup sites. R2 lexical gate: getStatic/getTemplate call lexicallyRejected(name) first and leave on its true edge; the four "
    "rejections (leading '/', NUL, backslash, a '..' segment found by splitting on '/') are present. R3 sanitiser flow at each lookup "
    "site: the path handed to buildEntry/readFile is the variable assigned from weakly_canonical(candidate, ec); ec was tested; that "
    "same variable was the TARGET argument of a dominating isContained(base, resolved) on its true edge; is_regular_file on the same "
    "variable dominates the read; base is the canonical root (stored at construction, or canonicalised on the spot for the external "
    "directory); candidate = root / request. R4 isContained is component-wise (lexically_relative + first-component '..' test), no "
    "string-prefix comparison on paths anywhere in the file. R5 the caches are consulted only behind R3's checks. R6 the roots are "
    "canonicalised in fromDirectory before the object exists. R7 the gzip sibling is read through the same O_NOFOLLOW reader.")
NOT_DECIDED = ["what weakly_canonical and the kernel do (trusted base)", "swaps of intermediate directories between check and open (documented residual; O_NOFOLLOW covers the leaf, the clause the property states)",
               "percent-decoding (done by the caller, by contract)"]


def af(ctx, name):
    fs = [f for f in ctx.fb().funcs(AS + "::" + name, AF) if f.ok]
    if len(fs) != 1:
        raise AnalysisBroken("Assets::%s: %d definitions" % (name, len(fs)))
    return fs[0]


def r1(ctx, r):
    fb = ctx.fb()
    n = 0
    rf = af(ctx, "readFile")
    for f in fb.in_file(AF):
        if not f.ok:
            continue
        n += 1
        for e in f.stmts():
            nn = e.node
            c = nn.get("callee") or nn.get("cls") or ""
            is_prim = (nn.get("k") == "call" and last(c) in READ_PRIMS and "::" not in c.replace("::" + last(c), "").strip(":")) or (nn.get("k") == "ctor" and c in STREAMS) or \
                (nn.get("k") == "call" and c.startswith("std::filesystem::") and last(c) in ("copy", "copy_file", "read_symlink"))
            if not is_prim:
                continue
            r.instance()
            inside = f is rf or (f.enclosing is rf if hasattr(f, "enclosing") else False)
            r.expect(inside, f, e, "file reader outside readFile: %s" % last(c), "%s opens/reads a file with %s outside Assets::readFile: the read is not covered by the O_NOFOLLOW leaf protection and the containment flow of the lookup sites"
                     % (short(f.name), c), okdesc="%s inside readFile" % last(c))
    if n < 20:
        raise AnalysisBroken("only %d functions of assets.hpp analysed (floor 20)" % n)
    op = [e for e in rf.stmts() if e.node.get("k") == "call" and last(e.node.get("callee", "")) == "open"]
    r.instance()
    if r.expect(len(op) == 1, rf, None, "readFile open", "readFile does not open the file with exactly one ::open call (found %d)" % len(op)):
        flags = const_value(strip_casts(op[0].node["args"][1])) if len(op[0].node["args"]) > 1 else None
        r.instance()
        r.expect(flags is not None and flags & O_NOFOLLOW and flags & O_CLOEXEC and (flags & O_ACCMODE) == 0, rf, op[0], "open flags", "readFile opens the leaf with flags %s: without O_NOFOLLOW a file swapped for a symbolic link after the containment "
                 "check (or a .gz sibling that is a link) is followed to a location outside the root" % (oct(flags) if flags is not None else "that are not constant"), okdesc="open(O_RDONLY|O_NOFOLLOW|O_CLOEXEC)")
        r.instance()
        r.expect(show(strip_casts(op[0].node["args"][0])) == "p.c_str()", rf, op[0], "open path", "readFile opens something other than its argument", okdesc="open(p.c_str(), …)")
    # who calls readFile / buildEntry
    callers = {"readFile": set(), "buildEntry": set()}
    for f in fb.in_file(AF):
        if not f.ok:
            continue
        for e in f.stmts():
            if e.node.get("k") in ("call", "mcall") and last(e.node.get("callee", "")) in callers and e.node.get("callee", "").startswith(AS):
                callers[last(e.node["callee"])].add(last(f.name))
    r.instance()
    r.expect(callers["readFile"] == {"buildEntry", "getTemplateFilesystem"}, rf, None, "readFile callers", "readFile is called from %s (closed set: buildEntry, getTemplateFilesystem)" % sorted(callers["readFile"]), okdesc="readFile ← buildEntry, getTemplateFilesystem")
    r.instance()
    r.expect(callers["buildEntry"] == {"getStaticFilesystem", "getStaticEmbedded"}, rf, None, "buildEntry callers", "buildEntry is called from %s (closed set: getStaticFilesystem, getStaticEmbedded)" % sorted(callers["buildEntry"]),
             okdesc="buildEntry ← getStaticFilesystem, getStaticEmbedded")


def r2(ctx, r):
    for nm in ("getStatic", "getTemplate"):
        f = af(ctx, nm)
        gate = [b for b in f.blocks.values() if b.cond is not None and strip_casts(b.cond).get("k") in ("call", "mcall") and last(strip_casts(b.cond).get("callee", "")) == "lexicallyRejected"]
        others = [e for e in f.stmts() if e.node.get("k") in ("call", "mcall") and last(e.node.get("callee", "")) in ("getStaticEmbedded", "getStaticFilesystem", "getTemplateFilesystem", "findTemplate", "findStatic")]
        r.instance()
        ok = len(gate) == 1 and len(others) >= 2 and all(dominated_by_edge(f, e, gate[0], 1, eh=False) for e in others) and key_of(strip_views(strip_casts(gate[0].cond)["args"][0])) == f.params[0]["n"]
        if ok:
            ok = any(x.kind == "stmt" and x.node.get("k") == "ret" for x in f.blocks[gate[0].succs[0]].elems)
        r.expect(ok, f, None, "lexical gate: %s" % nm, "%s reaches a lookup without lexicallyRejected(%s) having returned false" % (nm, f.params[0]["n"] if f.params else "name"), okdesc="%s: lexicallyRejected first, true edge returns" % nm)
    lx = af(ctx, "lexicallyRejected")
    conds = [show(strip_casts(b.cond)) for b in lx.blocks.values() if b.cond is not None]
    need = {"leading '/'": lambda c: "front()" in c and "'/'" in c and "==" in c, "NUL byte": lambda c: "find('\\x00')" in c and "npos" in c and "!=" in c, "backslash": lambda c: "find('\\\\')" in c and "npos" in c and "!=" in c,
            "'..' segment": lambda c: "seg" in c and '".."' in c and "==" in c}
    for k, pred in need.items():
        r.instance()
        b = [x for x in lx.blocks.values() if x.cond is not None and pred(show(strip_casts(x.cond)))]
        ok = len(b) == 1 and any(e.kind == "stmt" and e.node.get("k") == "ret" and const_value(strip_casts(e.node.get("v") or {})) == 1 for e in lx.blocks[b[0].succs[0]].elems)
        r.expect(ok, lx, None, "lexical rejection: %s" % k, "lexicallyRejected does not reject a %s (conditions: %s)" % (k, conds), okdesc="rejects %s" % k)
    # segments are split on '/'
    sp = [e for e in lx.stmts() if e.node.get("k") == "mcall" and last(e.node.get("callee", "")) == "find" and "'/'" in show(e.node) and "start" in show(e.node)]
    adv = [e for e in lx.stmts() if asg(e.node) and key_of(asg(e.node)[0]) == "start" and "slash + 1" in show(asg(e.node)[1])]
    r.instance()
    r.expect(len(sp) == 1 and len(adv) == 1, lx, None, "segment split", "the '..' test is not applied to every '/'-separated segment", okdesc="every '/'-separated segment tested")


def site_flow(r, f, reader_names, label, base_ok):
    """the sanitiser flow at one lookup site"""
    reads = [e for e in f.stmts() if e.node.get("k") in ("call", "mcall") and last(e.node.get("callee", "")) in reader_names and e.node.get("callee", "").startswith(AS)]
    if not reads:
        raise AnalysisBroken("%s: no read found" % label)
    for e in reads:
        arg = strip_views(e.node["args"][0])
        r.instance()
        if not r.expect(arg.get("k") == "var", f, e, "%s: read argument" % label, "%s reads `%s`, which is not a local path variable" % (label, show(arg)[:40])):
            continue
        v = arg["n"]
        decl = [(d, x) for d in f.stmts() if d.node.get("k") == "decl" for x in d.node["vars"] if x["n"] == v and x.get("d") == arg.get("d")]
        writes = [d for d in f.stmts() if asg(d.node) and key_of(asg(d.node)[0]) == v]
        ok = len(decl) == 1 and not writes
        init = strip_views(decl[0][1].get("init")) if ok and decl[0][1].get("init") is not None else None
        ok = ok and init is not None and init.get("k") == "call" and last(init.get("callee", "")) == "weakly_canonical" and len(init["args"]) >= 2
        r.expect(ok, f, e, "%s: unresolved path read" % label, "%s reads `%s`, which is not the unmodified result of weakly_canonical(candidate, ec): symbolic links in the request are not resolved before the containment check "
                 "applies to what is opened" % (label, v), okdesc="%s: read(%s), %s = weakly_canonical(candidate, ec)" % (label, v, v))
        if not ok:
            continue
        cand, ecv = key_of(strip_views(init["args"][0])), key_of(init["args"][1])
        facts = dominating_facts(f, e)
        # ec tested
        r.instance()
        r.expect(any(key_of(strip_views(c)) == ecv or (strip_casts(c).get("k") == "mcall" and key_of(strip_casts(c).get("obj")) == ecv) for c, t in facts if t is False), f, e, "%s: error code ignored" % label,
                 "%s reads without having tested the error code of weakly_canonical" % label, okdesc="%s: ec tested" % label)
        # containment of the SAME variable
        cont = [(c, t) for c, t in facts if strip_casts(c).get("k") in ("call", "mcall") and last(strip_casts(c).get("callee", "")) == "isContained"]
        r.instance()
        okc = False
        why = "no dominating isContained(…) on its true edge"
        for (c, t) in cont:
            a = strip_casts(c)["args"]
            tgt = key_of(strip_views(a[1]))
            why = "the containment check is applied to `%s`, not to the resolved path `%s` that is opened" % (tgt, v)
            if t and tgt == v:
                okc = True
                bname = key_of(strip_views(a[0]))
                r.instance()
                r.expect(base_ok(f, bname), f, e, "%s: containment base" % label, "%s checks containment against `%s`, which is not the canonical root" % (label, bname), okdesc="%s: base `%s` is the canonical root" % (label, bname))
        r.expect(okc, f, e, "%s: containment bypass" % label, "%s reads `%s` although %s: a request naming a symbolic link that leads outside the root is served" % (label, v, why), okdesc="%s: isContained(base, %s) before the read" % (label, v))
        # regular file on the same variable
        r.instance()
        r.expect(any(t and strip_casts(c).get("k") == "call" and last(strip_casts(c).get("callee", "")) == "is_regular_file" and key_of(strip_views(strip_casts(c)["args"][0])) == v for c, t in facts), f, e, "%s: file type" % label,
                 "%s reads `%s` without is_regular_file(%s)" % (label, v, v), okdesc="%s: is_regular_file(%s)" % (label, v))
        # candidate = root / request
        cd = [x for d in f.stmts() if d.node.get("k") == "decl" for x in d.node["vars"] if x["n"] == cand]
        r.instance()
        okd = len(cd) == 1 and cd[0].get("init") is not None
        if okd:
            i = strip_views(cd[0]["init"])
            okd = i.get("k") == "opcall" and i.get("op") == "/" and f.params[0]["n"] in show(i["args"][1])
        r.expect(okd, f, e, "%s: candidate" % label, "the candidate path is not root / request", okdesc="%s: candidate = root / %s" % (label, f.params[0]["n"]))


def r3(ctx, r):
    sf, tf, ef = af(ctx, "getStaticFilesystem"), af(ctx, "getTemplateFilesystem"), af(ctx, "getStaticEmbedded")

    def member_root(field):
        def ok(f, name):
            d = [x for e in f.stmts() if e.node.get("k") == "decl" for x in e.node["vars"] if x["n"] == name]
            return len(d) == 1 and d[0].get("init") is not None and show(strip_views(d[0]["init"])).endswith(field)
        return ok

    def canon_external(f, name):
        d = [x for e in f.stmts() if e.node.get("k") == "decl" for x in e.node["vars"] if x["n"] == name]
        if len(d) != 1 or d[0].get("init") is None:
            return False
        i = strip_views(d[0]["init"])
        return i.get("k") == "call" and last(i.get("callee", "")) in ("weakly_canonical", "canonical") and key_of(strip_views(i["args"][0])) == "externalDir"
    site_flow(r, sf, ("buildEntry",), "getStaticFilesystem", member_root("staticsRoot"))
    site_flow(r, tf, ("readFile",), "getTemplateFilesystem", member_root("templatesRoot"))
    site_flow(r, ef, ("buildEntry",), "getStaticEmbedded(external)", canon_external)
    # external branch only for listed paths
    eb = [e for e in ef.stmts() if e.node.get("k") in ("call", "mcall") and last(e.node.get("callee", "")) == "buildEntry"]
    r.instance()
    r.expect(eb and any("isExternalPath(" in show(c) and "path" in show(c) and t for c, t in dominating_facts(ef, eb[0])), ef, None, "external allow-list", "the external directory is read for a path that is not in the registry's externalPaths list", okdesc="external read only for listed paths")


def r4(ctx, r):
    fb = ctx.fb()
    ic = af(ctx, "isContained")
    rel = [v for e in ic.stmts() if e.node.get("k") == "decl" for v in e.node["vars"] if v.get("init") is not None and "lexically_relative" in show(v["init"])]
    r.instance()
    ok = len(rel) == 1 and "target.lexically_relative(base)" in show(rel[0]["init"])
    rets = common.returns(ic)
    fin = [e for e in rets if '".."' in show(e.node) or "\"..\"" in show(e.node)]
    ok = ok and len(fin) == 1 and "!=" in show(fin[0].node) and "*it" in show(fin[0].node)
    # the emptiness test is on the variable that holds the relative path, whatever it is called
    rd = rel[0]["d"] if len(rel) == 1 else None
    empt = [b for b in ic.blocks.values() if b.cond is not None and any(x.get("k") == "mcall" and last(x.get("callee", "")) == "empty" and strip_casts(x.get("obj") or {}).get("d") == rd for x in walk(b.cond))]
    ok = ok and len(empt) == 1
    r.expect(ok, ic, None, "component-wise containment", "isContained is not `rel = target.lexically_relative(base); !rel.empty() && first component != \"..\"`", okdesc="isContained: lexically_relative + first component != '..'")
    deny = ("starts_with", "rfind", "compare", "find", "substr")
    bad = []
    for f in fb.in_file(AF):
        if not f.ok or last(f.name) in ("lexicallyRejected", "extensionOf", "mimeForExtension", "equalsIgnoreCase"):
            continue
        for e in f.stmts():
            n = e.node
            if n.get("k") == "mcall" and last(n.get("callee", "")) in deny and ("filesystem::path" in (strip_casts(n.get("obj") or {}).get("t") or "") or ".string()" in show(n.get("obj") or {}) or ".native()" in show(n.get("obj") or {})):
                bad.append((f, e))
    r.instance()
    r.expect(not bad, bad[0][0] if bad else ic, bad[0][1] if bad else None, "string-prefix containment", "%s compares paths as strings (`%s`): a sibling directory whose name starts with the root's name passes a prefix test" %
             ((short(bad[0][0].name), show(bad[0][1].node)[:50]) if bad else ("", "")), okdesc="no string-prefix comparison on paths")


def r5(ctx, r):
    for nm, cache, reader in (("getStaticFilesystem", "staticCache", "buildEntry"), ("getTemplateFilesystem", "templateCache", "readFile")):
        f = af(ctx, nm)
        look = [e for e in f.stmts() if e.node.get("k") == "mcall" and last(e.node.get("callee", "")) in ("find", "at", "operator[]", "count") and cache in show(e.node.get("obj") or {})]
        if not look:
            raise AnalysisBroken("%s: no cache lookup" % nm)
        for e in look:
            facts = dominating_facts(f, e)
            r.instance()
            ok = any(t and strip_casts(c).get("k") in ("call", "mcall") and last(strip_casts(c).get("callee", "")) == "isContained" for c, t in facts) and \
                any(t and strip_casts(c).get("k") == "call" and last(strip_casts(c).get("callee", "")) == "is_regular_file" for c, t in facts)
            r.expect(ok, f, e, "cache before the gate: %s" % nm, "%s consults %s before the containment and file-type checks of this request: a name cached earlier is served without being re-validated" % (nm, cache),
                     okdesc="%s: cache lookup behind isContained + is_regular_file" % nm)
        # what is stored under the key is what was read for this request's resolved path
        ins = [e for e in f.stmts() if e.node.get("k") == "mcall" and last(e.node.get("callee", "")) in ("emplace", "insert", "try_emplace", "insert_or_assign") and cache in show(e.node.get("obj") or {})]
        rd = [e for e in f.stmts() if e.node.get("k") in ("call", "mcall") and last(e.node.get("callee", "")) == reader]
        r.instance()
        r.expect(len(ins) == 1 and rd and all(search(f, ("entry",), lambda x, e=ins[0]: x is e, stop=lambda x: x in rd, eh=False) is None for _ in [0]) and key_of(strip_views(ins[0].node["args"][0])) == "key", f, ins[0] if ins else None,
                 "cache fill: %s" % nm, "%s fills %s on a path that did not read the file for this request" % (nm, cache), okdesc="%s: cache filled only after the read" % nm)


def r6(ctx, r):
    fd = af(ctx, "fromDirectory")
    cr = [v for e in fd.stmts() if e.node.get("k") == "decl" for v in e.node["vars"] if v["n"] == "canonicalRoot"]
    r.instance()
    r.expect(len(cr) == 1 and cr[0].get("init") is not None and last(strip_views(cr[0]["init"]).get("callee", "")) == "canonical" and key_of(strip_views(strip_views(cr[0]["init"])["args"][0])) == "root", fd, None, "canonical root",
             "fromDirectory does not canonicalise the root", okdesc="canonicalRoot = canonical(root)")
    for fld, sub in (("staticsRoot", "static"), ("templatesRoot", "templates")):
        ws = [e for e in fd.stmts() if asg(e.node) and show(strip_casts(asg(e.node)[0])).endswith(fld)]
        r.instance()
        ok = len(ws) >= 1 and any("weakly_canonical(canonicalRoot / " in show(asg(e.node)[1]) and sub in show(asg(e.node)[1]) for e in ws) and all("canonicalRoot" in show(asg(e.node)[1]) and sub in show(asg(e.node)[1]) for e in ws)
        r.expect(ok, fd, ws[0] if ws else None, "root: %s" % fld, "%s is not derived from the canonical root" % fld, okdesc="%s = weakly_canonical(canonicalRoot / \"%s\")" % (fld, sub))
    # the roots are written nowhere else
    fb = ctx.fb()
    others = [(f, e) for f in fb.in_file(AF) if f.ok and f is not fd for e in f.stmts() if asg(e.node) and show(strip_casts(asg(e.node)[0])).endswith(("staticsRoot", "templatesRoot", "->root"))]
    # … nor handed to anything that could write them: a root passed as a NON-CONST reference (or its address taken) lets the callee
    # re-point it — `refreshRoot(dir, _fs->staticsRoot)` — without a single assignment to the field appearing anywhere
    def root_member(x):
        return x.get("k") == "member" and x["n"].endswith(("::staticsRoot", "::templatesRoot", "FsState::root"))
    for f in fb.in_file(AF):
        if not f.ok or f is fd:
            continue
        for e in f.stmts():
            n = e.node
            if n.get("k") in ("call", "mcall") and n.get("callee"):
                cal = [g for g in fb.by_name.get(n["callee"], []) if g.ok]
                for ai, a in enumerate(n.get("args", [])):
                    a0 = strip_casts(a)
                    if a0 is None or not root_member(a0):
                        continue
                    ptypes = {g.params[ai]["t"] for g in cal if ai < len(g.params)}
                    if any(t.rstrip().endswith("&") and not t.lstrip().startswith("const ") for t in ptypes):
                        others.append((f, e))
            if n.get("k") == "un" and n.get("op") == "&" and root_member(strip_casts(n.get("v") or {})):
                others.append((f, e))
            if n.get("k") == "mcall" and root_member(strip_casts(n.get("obj") or {})) and last(n.get("callee", "")) in ("assign", "swap", "clear", "operator=", "operator/=", "operator+=", "append", "concat", "replace_filename", "remove_filename", "make_preferred"):
                others.append((f, e))
    r.instance()
    r.expect(not others, others[0][0] if others else fd, others[0][1] if others else None, "root rewritten", "a containment root is written (or handed out by non-const reference) outside fromDirectory: the base every lookup is contained "
             "in is no longer pinned at construction — re-resolved after `static/` was replaced by a symlink, it follows the link and lookups are 'contained' in an outside directory", okdesc="roots written only at construction")


def r7(ctx, r):
    be = af(ctx, "buildEntry")
    rd = [e for e in be.stmts() if e.node.get("k") in ("call", "mcall") and last(e.node.get("callee", "")) == "readFile"]
    r.instance()
    ok = len(rd) == 2
    if ok:
        args = [key_of(strip_views(e.node["args"][0])) for e in rd]
        gz = [v for e in be.stmts() if e.node.get("k") == "decl" for v in e.node["vars"] if v["n"] == "gz"]
        ap = [e for e in be.stmts() if e.node.get("k") == "opcall" and e.node.get("op") == "+=" and key_of(e.node["args"][0]) == "gz"]
        ok = sorted(args) == ["file", "gz"] and len(gz) == 1 and key_of(strip_views(gz[0]["init"])) == "file" and len(ap) == 1 and [x.get("v") for x in walk(ap[0].node["args"][1]) if x.get("k") == "str"] == [".gz"]
    r.expect(ok, be, None, "gzip sibling", "buildEntry does not read exactly the checked file and its `.gz` sibling (same directory) through readFile", okdesc="reads: file and file + \".gz\", both through readFile (O_NOFOLLOW leaf)")
    # no other path derivation
    others = [e for e in be.stmts() if e.node.get("k") == "opcall" and e.node.get("op") in ("/", "/=")]
    r.instance()
    r.expect(not others, be, others[0] if others else None, "path derived in buildEntry", "buildEntry derives another path from the checked one", okdesc="no further path derivation")


def anchors(ctx, r):
    tab = [(af(ctx, "buildEntry"), ["gz", "file"]), (af(ctx, "fromDirectory"), ["canonicalRoot", "root"]), (af(ctx, "isContained"), ["target", "base"]), (af(ctx, "lexicallyRejected"), ["p", "seg", "start", "slash"]),
           (af(ctx, "readFile"), ["p"]), (af(ctx, "getStaticFilesystem"), ["key"]), (af(ctx, "getTemplateFilesystem"), ["key"])]
    for f, names in tab:
        common.require_names(f, names)
        r.instance()
        r.ok("%s: %s" % (last(f.name), ", ".join(names)))


def run(ctx, ck):
    r0 = ck.run_rule("C20-R0", "the local names the rules are anchored on exist (a rename makes the analysis refuse — exit 2 — instead of raising a false alarm)", "anchor table", lambda r: anchors(ctx, r))
    if r0.broken:
        return
    ck.run_rule("C20-R1", "closed set of file readers; leaf opened read-only with O_NOFOLLOW", "A3 who-may-call + constant flag word", lambda r: r1(ctx, r))
    ck.run_rule("C20-R2", "lexical gate first, with its four rejections", "A2 dominance + table", lambda r: r2(ctx, r))
    ck.run_rule("C20-R3", "sanitiser flow at every lookup site: resolved path → error test → containment of that variable → regular file → read", "A12 sanitiser flow over dominating facts", lambda r: r3(ctx, r))
    ck.run_rule("C20-R4", "containment is component-wise, never a string prefix", "A10 + deny list", lambda r: r4(ctx, r))
    ck.run_rule("C20-R5", "caches are consulted and filled only behind the per-request checks", "A2", lambda r: r5(ctx, r))
    ck.run_rule("C20-R6", "roots are canonicalised at construction and never rewritten", "A2 + who-may-write", lambda r: r6(ctx, r))
    ck.run_rule("C20-R7", "the gzip sibling is read through the same reader; no other derived paths", "A2", lambda r: r7(ctx, r))
