"""C20 — Static asset and template lookup never escapes its root directory (DESIGN.md §2 C20)."""
import re

from ..cfg import search, dominated_by_edge, Forward
from ..expr import show, walk, last, strip_casts, short, const_value, is_assign, assign_parts as _ap, strip_views
from ..facts import AnalysisBroken
from ..finite import dominating_facts, flatten_fact
from ..rules import common

TITLE = "Static asset and template lookup never escapes its root directory"
TECHNIQUE = 'sanitiser-flow analysis (forward must-analysis of path values: how a path was derived + which checks hold for it, followed through helper functions by return-value-conditional summaries) at every call that reaches a file reader; closed set of file readers with a constant O_NOFOLLOW flag word; deny list of string-prefix path comparisons'
AS = "iora::web::Assets"
AF = "iora/web/assets.hpp"
O_NOFOLLOW, O_CLOEXEC, O_ACCMODE = 0o400000, 0o2000000, 0o3
READ_PRIMS = ("open", "openat", "fopen", "creat", "read", "pread", "mmap", "readlink")
FD_PRIMS = ("read", "pread", "mmap")
STREAMS = ("std::basic_ifstream", "std::basic_fstream", "std::basic_filebuf")
PATH_MUTATORS = ("assign", "swap", "clear", "operator=", "operator/=", "operator+=", "append", "concat", "replace_filename", "remove_filename", "replace_extension", "make_preferred")
CANON = ("std::filesystem::weakly_canonical", "std::filesystem::canonical")

EXPLANATION = (
    "Containment is a sanitiser-flow statement and is decided from the shape of assets.hpp by a forward must-analysis of path values "
    "(how each path variable was derived — root / request, weakly_canonical(…), parent_path, + \".gz\" — and which checks hold for its current "
    "value: error code tested, isContained(base, it) true, is_regular_file(it) true), followed into helper functions of the class through "
    "summaries that are conditional on the helper's return value (bool / enum / out-parameter). R1 closed set of file readers: the only "
    "primitives that open or read a file are in readFile (::open of its own parameter with a constant flag word containing O_NOFOLLOW and "
    "O_CLOEXEC, read-only); every function that hands its own path parameter on to a reader is private, so every path that can reach the "
    "open starts at a call site R3 or R7 judges. R2 lexical gate: getStatic/getTemplate call lexicallyRejected(request) first and leave on "
    "its true edge; the four rejections (leading '/', NUL, backslash, a '..' segment found by splitting on '/') are present, wherever in "
    "the gate or its helpers they are written. R3 sanitiser flow at each call that passes a locally computed path to a reader: the value "
    "is the result of weakly_canonical(root / request, ec); ec was tested; that same value passed isContained(base, value) on its true edge; "
    "is_regular_file(value) holds; base is the canonical root of that lookup (stored at construction, or canonicalised on the spot for "
    "the external directory). R4 isContained is component-wise (lexically_relative + first-component '..' test), no string-prefix "
    "comparison on paths anywhere in the file. R5 the caches are consulted only behind R3's checks and filled only after the read. R6 the "
    "roots are canonicalised in fromDirectory before the object exists and written nowhere else. R7 a function that forwards its path "
    "parameter to a reader reads nothing but that path and its constant-suffix sibling (.gz) through the same O_NOFOLLOW reader.")
NOT_DECIDED = ["what weakly_canonical and the kernel do (trusted base)", "swaps of intermediate directories between check and open (documented residual; O_NOFOLLOW covers the leaf, the clause the property states)",
               "percent-decoding (done by the caller, by contract)"]
# exempt from the function-inventory guard (report.py): these rules look into / hold inside functions they have never seen
FOLLOWS_HELPERS = {
    "C20-R1": "universal: a file-opening primitive outside the one opener is a violation wherever it is written; the opener and the set of functions that forward a path to it are computed (fixpoint over all of assets.hpp), not listed",
    "C20-R2": "the conditions under which the gate rejects are collected wherever they are written: in lexicallyRejected or in any helper of the class whose result it returns; the segment-split clause is evaluated in whichever function holds the '..' comparison",
    "C20-R3": "every call in assets.hpp that passes a locally computed path to a (computed) reader is judged; checks done inside helpers are followed by return-value-conditional summaries, anything the summaries cannot express is a refusal, not a report",
    "C20-R5": "the state required at a cache access is computed by the same flow analysis; an access inside a helper is lifted to the helper's call sites",
    "C20-R6": "a root handed to ANY callee by non-const reference (or mutated / assigned) outside fromDirectory is reported at that call site, whatever the callee does; a root computed through a helper in fromDirectory is a refusal",
    "C20-R7": "applies to every function found to forward its path parameter to a reader, known or new",
}


def af(ctx, name):
    fs = [f for f in ctx.fb().funcs(AS + "::" + name, AF) if f.ok]
    if len(fs) != 1:
        raise AnalysisBroken("Assets::%s: %d definitions" % (name, len(fs)))
    return fs[0]


# ------------------------------------------------------------------ small expression helpers (no local-variable names anywhere)

def asg(n):
    """(lhs, rhs) of a plain assignment (built-in or overloaded)"""
    if n.get("k") in ("bin", "opcall") and is_assign(n) and n.get("op") == "=":
        p = _ap(n)
        return p[0], p[2]
    return None


def tyname(t):
    return re.sub(r"\bconst\b|&|\s", "", t) if isinstance(t, str) else ""


def is_path_type(t):
    return tyname(t) == "std::filesystem::path"


def is_ec_type(t):
    return tyname(t) == "std::error_code"


def xargs(n):
    """explicit arguments of a call-like node"""
    return [a for a in n.get("args", []) if not a.get("def")]


def var_d(n, views=True):
    """declaration id of the variable an expression names (looking through copies / conversions when views), else None"""
    n = strip_views(n) if views else strip_casts(n)
    return n.get("d") if n is not None and n.get("k") == "var" else None


def decl_vars(f):
    """declaration id -> [variable record of every declaration statement of it] (locals only)"""
    out = {}
    for e in f.stmts():
        if e.node.get("k") == "decl":
            for v in e.node["vars"]:
                out.setdefault(v["d"], []).append(v)
    return out


def assigned_ds(f):
    """declaration ids written after their declaration (assignment, compound assignment incl. overloaded ones, ++/--, a mutating path member)"""
    out = f.__dict__.get("_c20_assigned")
    if out is not None:
        return out
    out = set()
    for n in f.nodes.values():
        d = None
        if n.get("k") in ("bin", "opcall") and is_assign(n):
            d = var_d(_ap(n)[0], views=False)
        elif n.get("k") == "opcall" and n.get("memberop") and (n.get("op") or "").endswith("=") and n.get("op") not in ("==", "!=", "<=", ">=") and n.get("args"):
            d = var_d(n["args"][0], views=False)
        elif n.get("k") == "un" and ("++" in n.get("op", "") or "--" in n.get("op", "")):
            d = var_d(n.get("v"), views=False)
        elif n.get("k") == "mcall" and last(n.get("callee", "")) in PATH_MUTATORS:
            d = var_d(n.get("obj"), views=False)
        if d is not None:
            out.add(d)
    f.__dict__["_c20_assigned"] = out
    return out


def _subst(n, table):
    if not isinstance(n, dict):
        return n
    if n.get("k") == "var" and n.get("d") in table:
        return table[n["d"]]
    out = None
    for k, v in n.items():
        if isinstance(v, dict):
            nv = _subst(v, table)
            if nv is not v:
                out = out or dict(n)
                out[k] = nv
        elif isinstance(v, list):
            nl = [_subst(x, table) for x in v]
            if any(a is not b for a, b in zip(nl, v)):
                out = out or dict(n)
                out[k] = nl
    return out or n


def named_conditions(f):
    """`const bool hasNul = p.find('\\0') != npos; … if (hasNul || …)`, `const Resolution res = resolveBelow(…); switch (res)`: a local that is
    never re-assigned, initialised from a call / comparison / logical expression that reads only things which are never re-assigned in the
    function, stands for that initialiser wherever it is tested (naming a condition or a result changes nothing)."""
    tab = f.__dict__.get("_c20_named")
    if tab is None:
        tab = {}
        wr = assigned_ds(f)
        for d, vs in decl_vars(f).items():
            if len(vs) != 1 or d in wr or not isinstance(vs[0].get("init"), dict) or not isinstance(vs[0].get("t"), str) or vs[0]["t"].rstrip().endswith("&") or is_path_type(vs[0]["t"]):
                continue
            i = strip_casts(vs[0]["init"])
            if i is None or not (i.get("k") in ("call", "mcall", "un") or common.cmp_parts(i) or (i.get("k") == "bin" and i.get("op") in ("&&", "||"))):
                continue
            if tyname(vs[0]["t"]) != "bool" and not (i.get("k") in ("call", "mcall") and (i.get("callee") or "").startswith(AS + "::")):
                continue        # besides bools: the stored result of a function of the class (an enum / int verdict)
            if not any(x.get("k") == "var" and x.get("d") in wr for x in walk(i)):
                tab[d] = vs[0]["init"]
        f.__dict__["_c20_named"] = tab
    return tab


def unname(f, c):
    tab = named_conditions(f)
    for _ in range(4):
        if c is None or not tab or not any(x.get("k") == "var" and x.get("d") in tab for x in walk(c)):
            break
        c = _subst(c, tab)
    return c


def sufficient(c, truth):
    """leaves (node, truth) each of which ALONE makes `c` evaluate to `truth` (a || b is true when a is; a && b is false when a is);
    a conjunction that must hold as a whole yields nothing: `if (hasNul && other) reject` does not reject every NUL"""
    c = strip_casts(c)
    if c is None:
        return []
    if c.get("k") == "un" and c.get("op") == "!":
        return sufficient(c["v"], not truth)
    if c.get("k") == "bin" and c.get("op") == "||":
        return sufficient(c["lhs"], True) + sufficient(c["rhs"], True) if truth else []
    if c.get("k") == "bin" and c.get("op") == "&&":
        return sufficient(c["lhs"], False) + sufficient(c["rhs"], False) if not truth else []
    return [(c, truth)]


# ------------------------------------------------------------------ path-value flow analysis (A12, interprocedural)
#
# abstract value of a path variable = (term, flags)
#   term : how the current value was derived
#          ("param", i) | ("field", qualified name) | ("join", a, b) | ("canon", a) | ("parent", a) | ("filename", a) | ("concat", a, "lit")
#          | ("lex", op, a) (absolute / lexically_normal: no symlink resolution) | ("str", "lit") | ("new",) | ("unknown", why)
#          | ("sel", call id, alternatives)   — written by a helper; which alternative holds is decided where the helper's result is tested
#   flags: what is known to hold for that value on every path to this point
#          "ecok" (the error code of the resolving call was tested and clear) | ("ecpend", d) (not yet tested, error_code variable d)
#          | ("ecunk", d) (tested in a way the rule cannot read) | ("in", base term) (isContained(base, value) returned true) | "regular"

def has_unknown(t):
    return isinstance(t, tuple) and (t[:1] in (("unknown",), ("sel",)) or any(has_unknown(x) for x in t[1:] if isinstance(x, tuple)))


def subterm(a, b):
    """a occurs inside b"""
    return a == b or (isinstance(b, tuple) and any(subterm(a, x) for x in b[1:] if isinstance(x, tuple)))


def mentions(t, head):
    return isinstance(t, tuple) and (t[0] == head or any(mentions(x, head) for x in t[1:] if isinstance(x, tuple)))


def render(t, f=None):
    h = t[0]
    if h == "param":
        return f.params[t[1]]["n"] if f is not None and t[1] < len(f.params) else "parameter %d" % t[1]
    if h == "field":
        return short(t[1])
    if h == "join":
        return "%s / %s" % (render(t[1], f), render(t[2], f))
    if h == "canon":
        return "weakly_canonical(%s)" % render(t[1], f)
    if h in ("parent", "filename"):
        return "%s.%s()" % (render(t[1], f), "parent_path" if h == "parent" else "filename")
    if h == "concat":
        return '%s + "%s"' % (render(t[1], f), t[2])
    if h == "lex":
        return "%s(%s)" % (t[1], render(t[2], f))
    if h == "str":
        return '"%s"' % t[1]
    if h == "new":
        return "path()"
    if h == "sel":
        return "<written by a helper>"
    if h == "stored":
        return "<a path remembered in %s from an earlier lookup, not resolved and containment-checked now>" % t[1]
    return "<%s>" % (t[1] if len(t) > 1 else "?")


class PathFlow:
    def __init__(self, fb):
        self.fb = fb
        self.contain = None       # (Function, index of the base parameter, index of the target parameter) — set from R4's reading of isContained
        self._flow = {}
        self._sum = {}
        self._active = set()

    # ---- callee resolution: functions defined in assets.hpp
    def local_fn(self, n):
        c = n.get("callee") or ""
        if not c.startswith(AS + "::"):
            return None
        fs = [g for g in self.fb.by_name.get(c, []) if g.ok and g.file.endswith(AF)]
        if len(fs) > 1:
            fs = [g for g in fs if len(g.params) >= len(xargs(n))][:1] if len({(g.file, g.line) for g in fs}) == 1 else []
        return fs[0] if len(fs) == 1 else None

    # ---- state: tuple of (d, (term, flags)) sorted by d
    @staticmethod
    def sget(st, d):
        for k, av in st:
            if k == d:
                return av
        return None

    @staticmethod
    def sset(st, d, av):
        return tuple(sorted([(k, v) for k, v in st if k != d] + [(d, av)], key=lambda kv: kv[0]))

    @staticmethod
    def collapse(av):
        t, fl = av
        if t[0] != "sel":
            return av
        alts = list(t[2])
        if alts and all(a[1] == alts[0][1] for a in alts):
            fls = frozenset.intersection(*[a[2] for a in alts])
            return alts[0][1], fls
        return ("unknown", "which value the helper left depends on its result, which is not tested"), frozenset()

    @staticmethod
    def meet(fa, fb):
        """flags that hold on both ways in.  An error code tested on one way and still to be tested on the other (`ec || …` computed as a
        value: the short-circuit edge and the evaluated edge meet before the branch) is still to be tested."""
        pend = {x for x in fa | fb if isinstance(x, tuple) and x[0] == "ecpend" and (x in fa or "ecok" in fa) and (x in fb or "ecok" in fb)}
        return (fa & fb) | frozenset(pend) if not ("ecok" in fa and "ecok" in fb) else (fa & fb)

    @staticmethod
    def join(a, b):
        if a == b:
            return a
        db = dict(b)
        out = []
        for d, av in a:
            bv = db.get(d)
            if bv is None:
                continue
            if av == bv:
                out.append((d, av))
            elif av[0] == bv[0]:
                out.append((d, (av[0], PathFlow.meet(av[1], bv[1]))))
            else:
                ca, cb = PathFlow.collapse(av), PathFlow.collapse(bv)
                if ca[0] == cb[0]:
                    out.append((d, (ca[0], PathFlow.meet(ca[1], cb[1]))))
                elif mentions(ca[0], "stored") or mentions(cb[0], "stored"):
                    # one way in brings a remembered path: the value may be that one, with only what holds on both ways
                    out.append((d, (ca[0] if mentions(ca[0], "stored") else cb[0], PathFlow.meet(ca[1], cb[1]))))
                else:
                    out.append((d, (("unknown", "differs between the paths that meet here"), frozenset())))
        return tuple(out)

    # ---- expressions
    def term(self, f, st, n):
        n = strip_views(n)
        if n is None:
            return ("unknown", "nothing")
        k = n.get("k")
        if k == "var":
            av = self.sget(st, n.get("d"))
            if av is not None:
                return self.collapse(av)[0]
            if n.get("parm") is not None:
                return ("param", n["parm"])
            vs = decl_vars(f).get(n.get("d"), [])
            if len(vs) == 1 and isinstance(vs[0].get("init"), dict) and n.get("d") not in assigned_ds(f):
                return self.term(f, st, vs[0]["init"])      # a single-assignment local of another type (std::string name(…))
            return ("unknown", "variable %s" % n.get("n"))
        if k == "member":
            if last(n["n"]) in ("second", "first") and n["n"].startswith("std::pair"):
                # an element of an associative container (`it->second`): a path remembered from an earlier request.  Whatever was checked when
                # it was stored says nothing about the directory tree as it is now, so it carries no flags and is never a fresh resolution.
                src = sorted({x["n"] for x in walk(n.get("obj") or {}) if x.get("k") == "member" and x is not n} |
                             {y["n"] for x in walk(n.get("obj") or {}) if x.get("k") == "var" and x.get("d") not in assigned_ds(f)
                              for v in decl_vars(f).get(x.get("d"), [])[:1] if isinstance(v.get("init"), dict) for y in walk(v["init"]) if y.get("k") == "member"})
                return ("stored", ", ".join(short(x) for x in src) or "a container")
            return ("field", n["n"])
        if k == "str":
            return ("str", n.get("v", ""))
        if k == "ctor" and n.get("cls") == "std::filesystem::path":
            a = xargs(n)
            return ("new",) if not a else (self.term(f, st, a[0]) if len(a) == 1 else ("unknown", show(n)[:40]))
        if k == "opcall" and n.get("op") == "/" and len(n["args"]) == 2:
            return ("join", self.term(f, st, n["args"][0]), self.term(f, st, n["args"][1]))
        if k == "call" and n.get("callee") in CANON and n["args"]:
            return ("canon", self.term(f, st, n["args"][0]))
        if k == "call" and n.get("callee") == "std::filesystem::absolute" and n["args"]:
            return ("lex", "absolute", self.term(f, st, n["args"][0]))
        if k == "mcall" and (n.get("callee") or "").startswith("std::filesystem::path::"):
            m = last(n["callee"])
            if m in ("parent_path", "filename"):
                return ("parent" if m == "parent_path" else "filename", self.term(f, st, n.get("obj")))
            if m == "lexically_normal":
                return ("lex", m, self.term(f, st, n.get("obj")))
            if m in ("string", "native", "c_str", "generic_string", "u8string") or m.startswith("operator "):
                return self.term(f, st, n.get("obj"))
        return ("unknown", show(n)[:40])

    def value(self, f, st, n):
        """(term, flags) of an expression of path type"""
        n0 = strip_views(n)
        if n0 is not None and n0.get("k") == "var":
            av = self.sget(st, n0.get("d"))
            if av is not None:
                return self.collapse(av)
        if n0 is not None and n0.get("k") == "call" and n0.get("callee") in CANON and n0["args"]:
            ecs = [strip_casts(a)["d"] for a in n0["args"][1:] if strip_casts(a).get("k") == "var" and is_ec_type(strip_casts(a).get("t"))]
            # without an error_code argument the call throws on failure: the value exists only if it succeeded
            return ("canon", self.term(f, st, n0["args"][0])), frozenset([("ecpend", ecs[0])] if ecs else ["ecok"])
        return self.term(f, st, n), frozenset()

    # ---- transfer
    def _kill_ec(self, st, ecd):
        return tuple((d, (t, frozenset(x for x in fl if x != ("ecpend", ecd)))) for d, (t, fl) in st)

    def _test_ec(self, st, ecd, understood):
        out = []
        for d, (t, fl) in st:
            if ("ecpend", ecd) in fl:
                fl = (fl - {("ecpend", ecd)}) | {"ecok" if understood else ("ecunk", ecd)}
            out.append((d, (t, fl)))
        return tuple(out)

    def transfer(self, f, st, e):
        if e.kind != "stmt" or e.node is None:
            return st
        n = e.node
        k = n.get("k")
        if k == "decl":
            for v in n["vars"]:
                if is_path_type(v.get("t")):
                    av = self.value(f, st, v["init"]) if isinstance(v.get("init"), dict) else (("new",), frozenset())
                    if v["t"].rstrip().endswith("&") and isinstance(v.get("init"), dict) and var_d(v["init"], views=False) is not None and self.sget(st, var_d(v["init"], views=False)) is not None \
                            and strip_casts(v["init"]).get("parm") is None:
                        av = (("unknown", "a reference to another local, whose later changes the rule does not track"), frozenset())
                    st = self.sset(st, v["d"], av)
            return st
        if (k in ("bin", "opcall") and is_assign(n)) or (k == "opcall" and n.get("op") == "/=" and len(n.get("args", [])) == 2):
            lhs, op, rhs = _ap(n) if k == "bin" else (n["args"][0], n["op"], n["args"][1])
            l0 = strip_casts(lhs)
            if l0 is not None and l0.get("k") == "var" and (is_path_type(l0.get("t")) or self.sget(st, l0.get("d")) is not None):
                d = l0["d"]
                cur = self.collapse(self.sget(st, d) or (("unknown", "unset"), frozenset()))
                r0 = strip_views(rhs)
                if op == "=":
                    st = self.sset(st, d, self.value(f, st, rhs))
                elif op == "+=" and r0 is not None and r0.get("k") == "str":
                    st = self.sset(st, d, (("concat", cur[0], r0.get("v", "")), frozenset()))
                elif op == "/=":
                    st = self.sset(st, d, (("join", cur[0], self.term(f, st, rhs)), frozenset()))
                else:
                    st = self.sset(st, d, (("unknown", show(n)[:40]), frozenset()))
            return st
        if k in ("call", "mcall", "opcall", "ctor"):
            args = n.get("args", [])
            # an error_code handed to another call is overwritten: a result whose code was not tested by now never counts as tested
            for a in args:
                a0 = strip_casts(a)
                if a0 is not None and a0.get("k") == "var" and is_ec_type(a0.get("t")):
                    st = self._kill_ec(st, a0["d"])
            if k == "mcall":
                d = var_d(n.get("obj"), views=False)
                if d is not None and self.sget(st, d) is not None and last(n.get("callee", "")) in PATH_MUTATORS:
                    st = self.sset(st, d, (("unknown", "modified by %s()" % last(n["callee"])), frozenset()))
            g = self.local_fn(n) if k in ("call", "mcall") else None
            for i, a in enumerate(args):
                d = var_d(a, views=False)
                if d is None or self.sget(st, d) is None:
                    continue
                if g is not None:
                    pt = g.params[i]["t"] if i < len(g.params) else ""
                    if not (pt.rstrip().endswith("&") and not pt.lstrip().startswith("const ")):
                        continue
                    summ = self.summary(g)
                    if summ is None:
                        st = self.sset(st, d, (("unknown", "written by %s, which the rule cannot summarise" % last(g.name)), frozenset()))
                        continue
                    pre = self.collapse(self.sget(st, d))
                    alts = []
                    for (rk, infl, outs) in summ:
                        t, fl = outs.get(i, (("param", i), frozenset()))
                        alts.append((rk,) + (pre if t == ("param", i) else (self.subst(f, st, t, args), frozenset(self.subst_flag(f, st, x, args) for x in fl))))
                    st = self.sset(st, d, (("sel", n["id"], tuple(alts)), frozenset()))
                elif k in ("call", "mcall") and not (n.get("callee") or "").startswith("std::"):
                    # a function the rule cannot read (no body in assets.hpp) gets the variable itself: it may have written it
                    st = self.sset(st, d, (("unknown", "passed to %s" % last(n.get("callee") or "?")), frozenset()))
            return st
        return st

    def subst(self, f, st, t, args):
        """a callee's term in the caller's terms"""
        if t[0] == "param":
            return self.term(f, st, args[t[1]]) if t[1] < len(args) else ("unknown", "parameter %d" % t[1])
        return tuple(self.subst(f, st, x, args) if isinstance(x, tuple) else x for x in t)

    def subst_flag(self, f, st, fl, args):
        return ("in", self.subst(f, st, fl[1], args)) if isinstance(fl, tuple) and fl[0] == "in" else fl

    # ---- branch edges
    def call_summary(self, call):
        c = call.get("callee") or ""
        if self.contain is not None and c == self.contain[0].name:
            return [(1, {self.contain[2]: frozenset([("in", ("param", self.contain[1]))])}, {}), (0, {}, {})]
        if c == "std::filesystem::is_regular_file":
            return [(1, {0: frozenset(["regular"])}, {}), (0, {}, {})]
        g = self.local_fn(call)
        return self.summary(g) if g is not None else None

    def apply_result(self, f, st, call, accept):
        """the state on an edge where the result of `call` satisfies accept(value)"""
        summ = self.call_summary(call)
        if summ is None:
            return st
        compat = [r for r in summ if r[0] is None or accept(r[0])]
        if not compat:
            return st
        args = call.get("args", [])
        for i, a in enumerate(args):
            d = var_d(a)
            if d is None or self.sget(st, d) is None:
                continue
            fls = frozenset.intersection(*[r[1].get(i, frozenset()) for r in compat])
            if fls:
                t, cur = self.sget(st, d)
                add = frozenset(self.subst_flag(f, st, x, args) for x in fls)
                if t[0] == "sel":       # still one of several alternatives a helper left: whichever it is, it has passed this test
                    st = self.sset(st, d, (("sel", t[1], tuple((a[0], a[1], a[2] | add) for a in t[2])), cur))
                    continue
                st = self.sset(st, d, (t, cur | add))
        out = []
        for d, (t, fl) in st:
            if t[0] == "sel" and t[1] == call.get("id"):
                alts = tuple(a for a in t[2] if a[0] is None or accept(a[0]))
                if alts and all(a[1:] == alts[0][1:] for a in alts):
                    out.append((d, (alts[0][1], alts[0][2])))
                    continue
                out.append((d, (("sel", t[1], alts or t[2]), fl)))
            else:
                out.append((d, (t, fl)))
        return tuple(out)

    def apply_cond(self, f, st, c, truth):
        for leaf, t in flatten_fact(unname(f, c), truth):
            leaf = strip_casts(leaf)
            if leaf is None:
                continue
            # the error code of a resolving call: `if (ec)`, `ec.value() != 0`
            ecs = {x["d"] for x in walk(leaf) if x.get("k") == "var" and is_ec_type(x.get("t"))}
            if ecs and not any(x.get("k") in ("call", "mcall") and not (x.get("callee") or "").startswith("std::error_code::") for x in walk(leaf)):
                clear = None
                if leaf.get("k") == "var" or (leaf.get("k") == "mcall" and last(leaf.get("callee", "")) == "operator bool"):
                    clear = t is False
                else:
                    cp = common.cmp_oriented(leaf, lambda x: const_value(x) == 0)
                    if cp and cp[0] in ("==", "!=") and strip_casts(cp[1]).get("k") == "mcall" and last(strip_casts(cp[1]).get("callee", "")) == "value":
                        clear = (cp[0] == "==") == t
                for d in ecs:
                    if clear is None:
                        st = self._test_ec(st, d, False)
                    elif clear:
                        st = self._test_ec(st, d, True)
                continue
            if leaf.get("k") in ("call", "mcall"):
                st = self.apply_result(f, st, leaf, lambda rk, t=t: bool(rk) == t)
                continue
            cp = common.cmp_parts(leaf)
            if cp and cp[0] in ("==", "!="):
                for a, b in ((cp[1], cp[2]), (cp[2], cp[1])):
                    a0 = strip_casts(a)
                    if a0 is not None and a0.get("k") in ("call", "mcall") and const_value(b) is not None:
                        K = const_value(b)
                        st = self.apply_result(f, st, a0, lambda rk, K=K, eq=(cp[0] == "==") == t: (rk == K) == eq)
                        break
        return st

    def edge(self, f, st, b, si):
        c = b.cond
        if c is None:
            return st
        lab = b.edge_label(si)
        if lab is True or lab is False:
            return self.apply_cond(f, st, c, lab)
        c0 = strip_casts(unname(f, c))
        if c0 is not None and c0.get("k") in ("call", "mcall"):
            ks = [const_value(f.blocks[s].label["v"]) for s in b.succs if s is not None and f.blocks[s].label and f.blocks[s].label.get("k") == "case" and f.blocks[s].label.get("v")]
            if isinstance(lab, tuple) and lab[0] == "case" and const_value(lab[1]) is not None:
                return self.apply_result(f, st, c0, lambda rk, K=const_value(lab[1]): rk == K)
            if lab == "default":
                return self.apply_result(f, st, c0, lambda rk: rk not in ks)
        return st

    # ---- per function
    def flow(self, f):
        if f.sig not in self._flow:
            init = tuple(sorted(((p["d"], (("param", i), frozenset())) for i, p in enumerate(f.params) if is_path_type(p.get("t")) and p.get("d") is not None), key=lambda kv: kv[0]))
            self._flow[f.sig] = Forward(f, init, lambda st, e: self.transfer(f, st, e), self.join, edge=lambda st, b, si: self.edge(f, st, b, si), eh=False)
        return self._flow[f.sig]

    def summary(self, g):
        """[(returned constant | None, {index of a path parameter: flags its value has gained}, {index of a path out-parameter: (term, flags)})]
        one entry per way of returning; None when g cannot be summarised (recursion, too deep)"""
        if g.sig in self._sum:
            return self._sum[g.sig]
        if g.sig in self._active or len(self._active) > 3:
            return None
        self._active.add(g.sig)
        try:
            fl = self.flow(g)
            rets = []
            for e in g.stmts():
                if e.node.get("k") != "ret" or "root" not in e.raw:
                    continue
                st = fl.before(e)
                if st is None:
                    continue
                v = e.node.get("v")
                cv = const_value(strip_casts(v)) if isinstance(v, dict) else None
                if cv is not None:
                    variants = [(cv, st)]
                elif isinstance(v, dict) and g.raw.get("ret") == "bool":
                    # `return isContained(b, p) && is_regular_file(p);` — returning true means the expression held
                    variants = [(1, self.apply_cond(g, st, v, True)), (0, self.apply_cond(g, st, v, False))]
                else:
                    variants = [(None, st)]
                for rk, s in variants:
                    infl, outs = {}, {}
                    for i, p in enumerate(g.params):
                        av = self.sget(s, p.get("d"))
                        if av is None:
                            continue
                        t, fs = self.collapse(av)
                        fs = frozenset(x for x in fs if x in ("ecok", "regular") or (isinstance(x, tuple) and x[0] == "in"))
                        pt = p.get("t") or ""
                        if pt.rstrip().endswith("&") and not pt.lstrip().startswith("const "):
                            outs[i] = (t, fs)
                        elif t == ("param", i):
                            infl[i] = fs
                    rets.append((rk, infl, outs))
            if g.raw.get("ret") == "void" and fl.block_in.get(g.exit) is not None:
                # falling off the end (and every explicit `return;`) of a void helper: what holds on all ways out
                s = fl.block_in[g.exit]
                outs = {i: self.collapse(self.sget(s, p.get("d"))) for i, p in enumerate(g.params) if self.sget(s, p.get("d")) is not None and (p.get("t") or "").rstrip().endswith("&") and not (p.get("t") or "").lstrip().startswith("const ")}
                rets = [(None, {}, {i: (t, frozenset(x for x in fs if x in ("ecok", "regular") or (isinstance(x, tuple) and x[0] == "in"))) for i, (t, fs) in outs.items()})]
            self._sum[g.sig] = rets or None
        finally:
            self._active.discard(g.sig)
        return self._sum[g.sig]

    def return_terms(self, g):
        """the terms (in g's own parameters) of everything g can return, a conditional expression counting as both its arms; None when g
        cannot be read"""
        if not g.ok or g.sig in self._active:
            return None
        fl = self.flow(g)
        out = []

        def arms(n):
            n0 = strip_views(n)
            if n0 is not None and n0.get("k") == "cond" and isinstance(n0.get("t"), dict) and isinstance(n0.get("f"), dict):
                return arms(n0["t"]) + arms(n0["f"])
            return [n]
        for e in g.stmts():
            if e.node.get("k") == "ret" and "root" in e.raw and isinstance(e.node.get("v"), dict):
                st = fl.before(e)
                if st is None:
                    continue
                # (the arms of `c ? a : b` are evaluated in predecessor blocks; the variables they read are not written in between)
                out += [self.term(g, st, a) for a in arms(e.node["v"])]
        return out or None

    # ---- readers: functions that hand one of their own path parameters, unchanged, to the file-opening primitive (directly or through another reader)
    def readers(self, seed):
        """seed: {Function: {parameter index}} (readFile).  Returns (readers, sites): readers = {sig: (Function, {param index})};
        sites = [(F, elem, G, argument node, (term, flags), state, note)] for every call in assets.hpp that passes a path to a reader G"""
        rd = {g.sig: (g, set(ix)) for g, ix in seed.items()}
        for _ in range(8):
            changed = False
            sites = []
            for F in self.fb.in_file(AF):
                if not F.ok:
                    continue
                for e in F.stmts():
                    n = e.node
                    if n.get("k") not in ("call", "mcall"):
                        continue
                    g = self.local_fn(n)
                    if g is None or g.sig not in rd:
                        continue
                    st = self.flow(F).before(e)
                    if st is None:
                        continue
                    for j in sorted(rd[g.sig][1]):
                        if j >= len(n["args"]):
                            raise AnalysisBroken("%s calls %s without its path argument" % (short(F.name), short(g.name)))
                        av = self.value(F, st, n["args"][j])
                        # a value a helper wrote, with the helper's result not tested on the way here: it is whichever of the alternatives;
                        # the site is judged on the first alternative that has not passed every check
                        raw = self.sget(st, var_d(n["args"][j])) if var_d(n["args"][j]) is not None else None
                        note = ""
                        if raw is not None and raw[0][0] == "sel" and av[0][0] == "unknown":
                            worst = [a for a in raw[0][2] if not sanitised((a[1], a[2]))] or list(raw[0][2])
                            av = (worst[0][1], worst[0][2])
                            hc = [x for x in F.nodes.values() if x.get("id") == raw[0][1]]
                            note = " (the value left by %s when it returns %s — a result the caller does not exclude before the read)" % (last(hc[0].get("callee", "")) if hc else "a helper", worst[0][0])
                        sites.append((F, e, g, n["args"][j], av, st, note))
                        if av[0][0] == "param" and is_path_type(F.params[av[0][1]].get("t")):
                            ent = rd.setdefault(F.sig, (F, set()))
                            if av[0][1] not in ent[1]:
                                ent[1].add(av[0][1])
                                changed = True
            if not changed:
                return rd, sites
        raise AnalysisBroken("the set of functions that forward a path to readFile does not stabilise")


def analysis(ctx):
    """one PathFlow per fact base (configuration), with the containment primitive read from isContained (R4)"""
    fb = ctx.fb()
    cache = ctx.__dict__.setdefault("_c20_pf", {})
    if id(fb) not in cache:
        pf = PathFlow(fb)
        ic = af(ctx, "isContained")
        roles = contained_roles(ic)
        # when isContained is not built on lexically_relative R4 reports it; the flow rules then go by the declared order (base, target)
        pf.contain = (ic, roles[0], roles[1]) if roles else (ic, 0, 1)
        rf = opener(ctx)
        pi = reader_param(rf)
        if pi is None:
            raise AnalysisBroken("%s: the path handed to ::open is not one of its parameters" % last(rf.name))
        pf.rd, pf.sites = pf.readers({rf: {pi}})
        cache[id(fb)] = pf
    return cache[id(fb)]


def is_open(n):
    return n.get("k") == "call" and n.get("callee") in ("open", "::open", "open64", "openat")


def opener(ctx):
    """the one function of assets.hpp that opens files (readFile; if the ::open moves into a helper of its own, that helper): the seed of the
    reader set.  Every other primitive that opens or reads a file is R1's business."""
    fs = [f for f in ctx.fb().in_file(AF) if f.ok and any(is_open(e.node) for e in f.stmts())]
    named = [f for f in fs if last(f.name) == "readFile"]
    if named:
        return named[0]
    if len(fs) != 1:
        raise AnalysisBroken("assets.hpp: %d functions call ::open and none of them is readFile" % len(fs))
    return fs[0]


def reader_param(rf):
    """index of the parameter whose c_str() readFile opens"""
    for e in rf.stmts():
        if is_open(e.node) and e.node["args"]:
            a = strip_casts(e.node["args"][0])
            if a.get("k") == "mcall" and last(a.get("callee", "")) in ("c_str", "native"):
                o = strip_casts(a.get("obj") or {})
                if o.get("k") == "var" and o.get("parm") is not None:
                    return o["parm"]
    return None


def contained_roles(ic):
    """(base index, target index): isContained computes TARGET.lexically_relative(BASE) on two of its parameters"""
    for n in ic.nodes.values():
        if n.get("k") == "mcall" and last(n.get("callee", "")) == "lexically_relative" and n.get("args"):
            o, a = strip_casts(n.get("obj") or {}), strip_views(n["args"][0]) or {}
            if o.get("k") == "var" and a.get("k") == "var" and o.get("parm") is not None and a.get("parm") is not None and o["parm"] != a["parm"]:
                return a["parm"], o["parm"]
    return None


def local_name(f, d):
    for p in f.params:
        if p.get("d") == d:
            return p["n"]
    vs = decl_vars(f).get(d)
    return vs[0]["n"] if vs else "?"


def definition_text(f, d):
    """source rendering of what the variable is computed from (declaration initialiser, or its single assignment)"""
    vs = decl_vars(f).get(d, [])
    if len(vs) == 1 and isinstance(vs[0].get("init"), dict) and not (strip_views(vs[0]["init"]) or {}).get("k") == "ctor":
        return show(strip_views(vs[0]["init"]))[:90]
    ws = [asg(n) for n in f.nodes.values() if asg(n) and var_d(asg(n)[0], views=False) == d]
    return show(strip_views(ws[0][1]))[:90] if len(ws) == 1 else None


# ------------------------------------------------------------------ R1

def r1(ctx, r):
    fb = ctx.fb()
    n = 0
    rf = opener(ctx)
    rn = last(rf.name)
    pf = analysis(ctx)
    for f in fb.in_file(AF):
        if not f.ok:
            continue
        n += 1
        for e in f.stmts():
            nn = e.node
            c = nn.get("callee") or nn.get("cls") or ""
            is_prim = (nn.get("k") == "call" and last(c) in READ_PRIMS and "::" not in c.replace("::" + last(c), "").strip(":")) or (nn.get("k") == "ctor" and c in STREAMS) or \
                (nn.get("k") == "call" and c.startswith("std::filesystem::") and last(c) in ("copy", "copy_file", "read_symlink"))
            if not is_prim:
                continue
            r.instance()
            host = f.enclosing if getattr(f, "enclosing", None) is not None else f
            # primitives that take a PATH belong in the one opener; those that take a DESCRIPTOR (read, pread, mmap) in a function of the reader
            # set (the opener, or whoever forwards its path to it and reads what came back)
            inside = host is rf or (nn.get("k") == "call" and last(c) in FD_PRIMS and host.sig in pf.rd)
            r.expect(inside, f, e, "file reader outside %s: %s" % (rn, last(c)), "%s opens/reads a file with %s outside Assets::%s: the read is not covered by the O_NOFOLLOW leaf protection and the containment flow of the lookup sites"
                     % (short(f.name), c, rn), okdesc="%s inside %s" % (last(c), last(host.name)))
    if n < 20:
        raise AnalysisBroken("only %d functions of assets.hpp analysed (floor 20)" % n)
    op = [e for e in rf.stmts() if is_open(e.node)]
    r.instance()
    if r.expect(len(op) == 1, rf, None, "%s open" % rn, "%s does not open the file with exactly one ::open call (found %d)" % (rn, len(op))):
        flags = const_value(strip_casts(op[0].node["args"][1])) if len(op[0].node["args"]) > 1 else None
        r.instance()
        r.expect(flags is not None and flags & O_NOFOLLOW and flags & O_CLOEXEC and (flags & O_ACCMODE) == 0, rf, op[0], "open flags", "%s opens the leaf with flags %s: without O_NOFOLLOW a file swapped for a symbolic link after the containment "
                 "check (or a .gz sibling that is a link) is followed to a location outside the root" % (rn, oct(flags) if flags is not None else "that are not constant"), okdesc="open(O_RDONLY|O_NOFOLLOW|O_CLOEXEC)")
        r.instance()
        # what is opened is the function's own path parameter (whatever it is called), never written inside the function
        pi = reader_param(rf)
        r.expect(pi is not None and rf.params[pi].get("d") not in assigned_ds(rf), rf, op[0], "open path", "%s opens something other than its argument" % rn, okdesc="open(<path parameter>.c_str(), …)")
    # who can hand a path to the reader: computed, not listed.  A function that passes its OWN path parameter on to a reader is itself a reader
    # (buildEntry; a new readFresh(resolved, …) helper); every other call site computes the path locally and is judged by R3 / R7.  For the
    # set to be closed nothing outside the class may call a reader: each one must be private.
    for sig, (g, ix) in sorted(pf.rd.items()):
        r.instance()
        callers = sorted({last(F.name) for (F, e, g2, a, av, st, note) in pf.sites if g2 is g})
        r.expect(g.access == "private", g, None, "reader reachable from outside: %s" % last(g.name), "%s hands its path parameter `%s` to the file reader and is not private: a caller outside Assets can have any path opened, with none of the lookup sites' checks"
                 % (short(g.name), ", ".join(g.params[i]["n"] for i in sorted(ix))), okdesc="%s(%s) private, called from %s" % (last(g.name), ", ".join(g.params[i]["n"] for i in sorted(ix)), ", ".join(callers) or "nowhere"))
    # … and nobody takes a reader's address (a call through a pointer would not be seen as a call site)
    names = {g.name for g, ix in pf.rd.values()}
    taken = [(f, x) for f in fb.in_file(AF) if f.ok for x in f.nodes.values() if x.get("k") in ("fref", "gref") and x.get("n") in names and not
             (f.parent.get(x.get("id")) is not None and f.nodes[f.parent[x["id"]]].get("k") in ("call", "mcall"))]
    r.instance()
    r.expect(not taken, taken[0][0] if taken else rf, taken[0][1] if taken else None, "reader address taken", "the address of a file-reading function is taken in %s: calls through it are invisible to the call-site rules" % (short(taken[0][0].name) if taken else ""),
             okdesc="readers are only ever called directly")


# ------------------------------------------------------------------ R2

def reject_leaves(pf, f, pd, depth=0):
    """[(function, leaf node, truth, declaration id of the request string in that function)]: evaluating `leaf` to `truth` makes the gate
    return true.  Conditions are read wherever they are written: as a branch whose edge goes straight to `return true`, as (a disjunct of)
    a returned expression, through named const bools, and inside a helper of the class whose result is returned."""
    out = []

    def returns_true_at_once(bid):
        # straight-line code (a log line, a counter) may stand between the test and the `return true`; another branch may not
        for _ in range(6):
            b = f.blocks[bid]
            rets = [e for e in b.elems if e.kind == "stmt" and "root" in e.raw and e.node.get("k") == "ret"]
            if rets:
                return const_value(strip_casts(rets[0].node.get("v") or {})) == 1
            nxt = [x for x in b.succs if x is not None]
            if b.cond is not None or len(nxt) != 1:
                return False
            bid = nxt[0]
        return False

    def leaf(c, t):
        c0 = strip_casts(c)
        g = pf.local_fn(c0) if c0.get("k") in ("call", "mcall") else None
        if g is not None and t is True and depth < 2:
            for i, a in enumerate(c0.get("args", [])):
                if var_d(a) == pd and i < len(g.params):
                    out.extend(reject_leaves(pf, g, g.params[i]["d"], depth + 1))
                    return
        out.append((f, c0, t, pd))
    for b in f.blocks.values():
        c, st, sf = common.branch(b)
        if c is None or st is None or sf is None or st == sf:
            continue
        for succ, truth in ((st, True), (sf, False)):
            if returns_true_at_once(succ):
                for c1, t1 in sufficient(unname(f, c), truth):
                    leaf(c1, t1)
    for e in f.stmts():
        if e.node.get("k") == "ret" and "root" in e.raw and isinstance(e.node.get("v"), dict) and const_value(strip_casts(e.node["v"])) is None:
            for c1, t1 in sufficient(unname(f, e.node["v"]), True):
                leaf(c1, t1)
    return out


def _cmp_true(c, t):
    """(op, lhs, rhs) of a comparison leaf, with the operator negated when the leaf has to be false"""
    cp = common.cmp_parts(c)
    if not cp:
        return None
    op = cp[0] if t else {"==": "!=", "!=": "==", "<": ">=", ">=": "<", ">": "<=", "<=": ">"}[cp[0]]
    return op, cp[1], cp[2]


def _on_request(n, pd, methods):
    n = strip_views(n)
    return n is not None and n.get("k") == "mcall" and last(n.get("callee", "")) in methods and var_d(n.get("obj")) == pd


def _substr_forms(g, n, pd):
    """argument lists of the substr() calls on the request string that produce the compared segment (directly, or through the single-assignment
    local the segment was stored in)"""
    n = strip_views(n)
    if n is None:
        return []
    if n.get("k") == "var":
        vs = decl_vars(g).get(n.get("d"), [])
        if len(vs) != 1 or not isinstance(vs[0].get("init"), dict) or n.get("d") in assigned_ds(g):
            return []
        n = vs[0]["init"]
    return [xargs(x) for x in walk(n) if _on_request(x, pd, ("substr",))]


def r2(ctx, r):
    pf = analysis(ctx)
    lx = af(ctx, "lexicallyRejected")
    for nm in ("getStatic", "getTemplate"):
        f = af(ctx, nm)
        req = f.params[0]["d"] if f.params else None
        gate = []
        for b in f.blocks.values():
            c, st, sf = common.branch(b)
            if c is not None and c.get("k") in ("call", "mcall") and c.get("callee") == lx.name and c.get("args") and var_d(c["args"][0]) == req:
                gate.append((b, st, sf))
        # everything else of the class that receives the request
        others = [e for e in f.stmts() if e.node.get("k") in ("call", "mcall") and (e.node.get("callee") or "").startswith(AS + "::") and e.node.get("callee") != lx.name and any(var_d(a) == req for a in e.node.get("args", []))]
        r.instance()
        ok = len(gate) == 1 and len(others) >= 2 and gate[0][1] != gate[0][2] and all(dominated_by_edge(f, e, gate[0][0], gate[0][0].succs.index(gate[0][2]), eh=False) for e in others)
        if ok:
            ok = any(x.kind == "stmt" and x.node.get("k") == "ret" for x in f.blocks[gate[0][1]].elems)
        r.expect(ok, f, None, "lexical gate: %s" % nm, "%s reaches a lookup without lexicallyRejected(%s) having returned false" % (nm, f.params[0]["n"] if f.params else "name"), okdesc="%s: lexicallyRejected first, true edge returns" % nm)
    leaves = reject_leaves(pf, lx, lx.params[0]["d"]) if lx.params else []
    conds = sorted({("" if t else "!") + "(" + show(c)[:60] + ")" for (g, c, t, pd) in leaves})

    def is_char(n, v):
        n = strip_casts(n)
        return n is not None and n.get("k") in ("char", "int") and n.get("cv") == v

    def first_char(g, c, t, pd):
        cp = _cmp_true(c, t)
        if not cp or cp[0] != "==":
            return False
        for a, b in ((cp[1], cp[2]), (cp[2], cp[1])):
            a0 = strip_views(a)
            if is_char(b, 47) and (_on_request(a0, pd, ("front",)) or (a0 is not None and a0.get("k") == "opcall" and a0.get("op") == "[]" and var_d(a0["args"][0]) == pd and const_value(a0["args"][1]) == 0)):
                return True
        return False

    def const_chars(g, n, depth=0):
        """the characters of a constant string / string_view expression (a literal, possibly with an explicit length, possibly named by a const
        local), or None"""
        n = strip_casts(n)
        if n is None or depth > 4:
            return None
        if n.get("k") == "str":
            return n.get("v", "")
        if n.get("k") == "var" and n.get("parm") is None:
            vs = decl_vars(g).get(n.get("d"), [])
            return const_chars(g, vs[0]["init"], depth + 1) if len(vs) == 1 and "const" in (vs[0].get("t") or "") and isinstance(vs[0].get("init"), dict) else None
        if n.get("k") == "ctor" and n.get("cls") in ("std::basic_string_view", "std::basic_string"):
            a = xargs(n)
            if len(a) == 1:
                v = const_chars(g, a[0], depth + 1)
                # a bare literal converted without a length ends at its first NUL
                return v.split("\0")[0] if v is not None and strip_casts(a[0]).get("k") == "str" else v
            if len(a) == 2 and strip_casts(a[0]).get("k") == "str" and const_value(a[1]) is not None:
                return strip_casts(a[0]).get("v", "")[:const_value(a[1])]
        return None

    def contains_char(v):
        # p.find(c) != npos, or p.find_first_of(<constant set that holds c>) != npos
        def pred(g, c, t, pd):
            cp = _cmp_true(c, t)
            if not cp or cp[0] != "!=":
                return False
            for a, b in ((cp[1], cp[2]), (cp[2], cp[1])):
                a0, b0 = strip_views(a), strip_casts(b)
                if not (b0 is not None and b0.get("k") == "gvar" and last(b0.get("n", "")) == "npos") or not _on_request(a0, pd, ("find", "find_first_of")) or len(xargs(a0)) != 1:
                    continue
                if is_char(xargs(a0)[0], v):
                    return True
                cs = const_chars(g, xargs(a0)[0]) if last(a0.get("callee", "")) == "find_first_of" else None
                if cs is not None and chr(v) in cs:
                    return True
            return False
        return pred

    def dotdot(g, c, t, pd):
        cp = _cmp_true(c, t)
        if not cp or cp[0] != "==":
            return False
        for a, b in ((cp[1], cp[2]), (cp[2], cp[1])):
            lits = [x.get("v") for x in walk(b) if x.get("k") == "str"]
            if lits == [".."] and _substr_forms(g, a, pd):
                return True
        return False
    need = [("leading '/'", first_char), ("NUL byte", contains_char(0)), ("backslash", contains_char(92)), ("'..' segment", dotdot)]
    # a verdict the rule cannot read — a returned variable that is assigned along the way (`bad = true; … return bad;`), a helper that is not
    # handed the request itself — may hold any of the rejections: a rejection that is not found elsewhere is then a refusal, not a report
    opaque = {show(c)[:40] for (g, c, t, pd) in leaves if c.get("k") == "var" or (c.get("k") in ("call", "mcall") and pf.local_fn(c) is not None)}
    hits = {k: [(g, c, t, pd) for (g, c, t, pd) in leaves if pred(g, c, t, pd)] for k, pred in need}
    # … and so may a rejecting test on the request string itself that is none of the spellings the rule knows (`p.find_first_of(set)` with a
    # set it cannot evaluate, an <algorithm> call over p)
    matched = {id(c) for v in hits.values() for (g, c, t, pd) in v}
    opaque |= {show(c)[:40] for (g, c, t, pd) in leaves if id(c) not in matched and any(x.get("k") == "var" and x.get("d") == pd for x in walk(c))}
    opaque = sorted(opaque)
    for k, pred in need:
        r.instance()
        if not hits[k] and opaque:
            raise AnalysisBroken("lexicallyRejected: no rejection of a %s found, and part of its verdict is computed in a way the rule cannot follow (%s)" % (k, ", ".join(opaque)))
        r.expect(len(hits[k]) >= 1, lx, None, "lexical rejection: %s" % k, "lexicallyRejected does not reject a %s (conditions that make it return true: %s)" % (k, conds), okdesc="rejects %s" % k)
    # the '..' test is applied to every '/'-separated segment: one cursor starts at 0, the next separator is searched from the cursor, the cursor
    # moves one past it (and round again), and both the segments that end at a separator and the last one are compared
    r.instance()
    ok = bool(hits["'..' segment"])
    if ok:
        g, _, _, pd = hits["'..' segment"][0]
        # the roles (cursor, position of the separator) are identified from the one search for '/' that starts at a variable; a scan written
        # some other way is not one this clause can judge
        finds = [e for e in g.stmts() if _on_request(e.node, pd, ("find",)) and len(xargs(e.node)) == 2 and const_value(xargs(e.node)[0]) == 47 and var_d(xargs(e.node)[1], views=False) is not None]
        cur = var_d(xargs(finds[0].node)[1], views=False) if len(finds) == 1 else None
        # the position of the separator: the variable that holds the result of that search — as it is, or clamped to the end of the string
        # (`stop = std::min(p.find('/', start), p.size())`: then one spelling, substr(start, stop - start), covers the last segment too)
        def from_find(n):
            n = strip_casts(n)
            if n is None or len(finds) != 1:
                return None
            if n.get("id") == finds[0].node.get("id"):
                return "plain"
            if n.get("k") == "call" and n.get("callee") == "std::min" and len(n.get("args", [])) == 2:
                a = [strip_casts(x) for x in n["args"]]
                for x, y in ((a[0], a[1]), (a[1], a[0])):
                    if x.get("id") == finds[0].node.get("id") and _on_request(y, pd, ("size", "length")):
                        return "clamped"
            return None
        pos = [(d, from_find(v["init"])) for d, vs in decl_vars(g).items() for v in vs if isinstance(v.get("init"), dict) and from_find(v["init"])] + \
              [(var_d(asg(n)[0], views=False), from_find(asg(n)[1])) for n in g.nodes.values() if asg(n) and from_find(asg(n)[1])]
        adv = [e for e in g.stmts() if asg(e.node) and var_d(asg(e.node)[0], views=False) == cur] if cur is not None else []
        # a loop condition on the cursor may only be "not past the end of the string"
        loopc = [b for b in g.blocks.values() if b.term and b.term.get("k") in ("ForStmt", "WhileStmt", "DoStmt") and b.cond is not None and const_value(b.cond) is None]

        def within(c):
            cp = common.cmp_oriented(strip_casts(c), lambda x: _on_request(x, pd, ("size", "length")))
            return bool(cp) and cp[0] in ("<", "<=") and var_d(cp[1], views=False) == cur
        if len({g2.sig for (g2, c, t, pd2) in hits["'..' segment"]}) != 1 or len(finds) != 1 or len(pos) != 1 or pos[0][0] is None or len(adv) != 1 or not all(within(b.cond) for b in loopc):
            raise AnalysisBroken("%s: the scan for '..' segments has a shape the rule cannot read (searches for '/' from a cursor: %d, cursor updates: %d, loop conditions: %d)" % (last(g.name), len(finds), len(adv), len(loopc)))
        clamped = pos[0][1] == "clamped"
        pos = [pos[0][0]]
        cinit = decl_vars(g).get(cur, [])
        ok = len(cinit) == 1 and const_value(cinit[0].get("init")) == 0
    if ok:
        def is_next(n):
            n = strip_casts(n)
            return n is not None and n.get("k") == "bin" and n.get("op") == "+" and {(var_d(n["lhs"], views=False), const_value(n["rhs"])), (var_d(n["rhs"], views=False), const_value(n["lhs"]))} & {(pos[0], 1)}
        ok = bool(is_next(asg(adv[0].node)[1])) and search(g, adv[0], lambda x: x is finds[0], eh=False) is not None
    if ok:
        forms = set()
        for (g2, c, t, pd2) in hits["'..' segment"]:
            cp = common.cmp_parts(c)
            for side in (cp[1], cp[2]):
                for a in _substr_forms(g2, side, pd2):
                    if len(a) == 1 and var_d(a[0], views=False) == cur:
                        forms.add("last")
                    elif len(a) == 2 and var_d(a[0], views=False) == cur:
                        ln = strip_casts(a[1])
                        if ln.get("k") == "bin" and ln.get("op") == "-" and var_d(ln["lhs"], views=False) == pos[0] and var_d(ln["rhs"], views=False) == cur:
                            forms.add("inner")
        ok = "inner" in forms if clamped else forms == {"last", "inner"}
    r.expect(ok, lx, None, "segment split", "the '..' test is not applied to every '/'-separated segment", okdesc="every '/'-separated segment tested")


# ------------------------------------------------------------------ R3

SITE_LABEL = {"getStaticEmbedded": "getStaticEmbedded(external)"}
# the containment base each lookup has to use: the root stored (canonical) at construction, or the external directory canonicalised on the spot
SITE_BASE = {"getStaticFilesystem": (("field", AS + "::FsState::staticsRoot"),), "getTemplateFilesystem": (("field", AS + "::FsState::templatesRoot"),),
             "getStaticEmbedded": (("canon", ("field", "iora::web::EmbeddedAssetRegistry::externalDir")),)}


def callers_of(fb, F):
    return [(G, x) for G in fb.in_file(AF) if G.ok for x in G.stmts() if x.node.get("k") in ("call", "mcall") and x.node.get("callee") == F.name]


def site_owner(fb, F, depth=0):
    """the lookup whose root a read in F has to be contained in: F itself when it is one of the known lookups; for a private function that is
    called from exactly one of them (the external branch moved into a function of its own) that lookup; else None"""
    nm = last(F.name)
    if nm in SITE_BASE:
        return nm
    if depth >= 2 or F.access != "private":
        return None
    owners = {site_owner(fb, G, depth + 1) for G, x in callers_of(fb, F)}
    return owners.pop() if len(owners) == 1 else None


def forwarded(pf, F, t):
    """the path handed to a reader is one of F's own path parameters that make F a reader, or the constant-suffix sibling of one"""
    ix = pf.rd[F.sig][1] if F.sig in pf.rd else set()
    return (t[0] == "param" and t[1] in ix) or (t[0] == "concat" and t[1][0] == "param" and t[1][1] in ix)


def sanitised(av, bases=None):
    t, fl = av
    return t[0] == "canon" and "ecok" in fl and "regular" in fl and any(isinstance(x, tuple) and x[0] == "in" and (bases is None or x[1] in bases) for x in fl)


def site_flow(r, pf, F, e, g, arg, av, st, note="", owner=None):
    """the sanitiser flow at one call that hands a locally computed path to the reader g"""
    nm = owner or last(F.name)
    label = SITE_LABEL.get(nm, nm)
    t, fl = av
    d = var_d(arg)
    v = local_name(F, d) if d is not None else show(strip_views(arg))[:40]
    # every step of the derivation is an operation the rule knows; otherwise it can neither accept nor report the site
    if has_unknown(t) and not sanitised(av):
        raise AnalysisBroken("%s: the path `%s` handed to %s is computed in a way the rule cannot follow (%s)" % (label, v, last(g.name), render(t, F)))
    r.instance()
    ok = t[0] == "canon"
    r.expect(ok, F, e, "%s: unresolved path read" % label, "%s reads `%s` (= %s), which is not the unmodified result of weakly_canonical(candidate, ec): symbolic links in the request are not resolved before the containment check "
             "applies to what is opened" % (label, v, render(t, F)), okdesc="%s: %s(%s), %s = weakly_canonical(candidate, ec)" % (label, last(g.name), v, v))
    if not ok:
        return
    # ec tested
    r.instance()
    if not ("ecok" in fl) and any(isinstance(x, tuple) and x[0] == "ecunk" for x in fl):
        raise AnalysisBroken("%s: the error code of weakly_canonical is tested in a form the rule cannot read" % label)
    r.expect("ecok" in fl, F, e, "%s: error code ignored" % label, "%s reads without having tested the error code of weakly_canonical" % label, okdesc="%s: ec tested" % label)
    # containment of the SAME value
    bases = [x[1] for x in fl if isinstance(x, tuple) and x[0] == "in"]
    r.instance()
    if not bases:
        others = [(d2, pf.collapse(av2)) for d2, av2 in st if d2 != d and any(isinstance(x, tuple) and x[0] == "in" for x in pf.collapse(av2)[1])]
        if not others:
            why = "no isContained(…) has returned true for any path on the way here"
        else:
            d2, (t2, fl2) = others[0]
            w = local_name(F, d2)
            why = "the containment check is applied to `%s`, not to the resolved path `%s` that is opened" % (w, v)
            if subterm(t2, t) and t2 != t:
                dv, dw = definition_text(F, d), definition_text(F, d2)
                why += ": `%s`%s is computed FROM `%s`%s after that check, by a further resolution whose result is never tested" % (v, " = " + dv if dv else "", w, " = " + dw if dw else "")
                if mentions(t2, "parent"):
                    why += " (only the parent directory is canonicalised and checked; the final component is resolved afterwards, so a leaf that is a symbolic link to a file outside the root is followed)"
        r.fail(F, e, "%s: containment bypass" % label, "%s reads `%s`%s although %s: a request naming a symbolic link that leads outside the root is served" % (label, v, note, why))
    else:
        r.ok("%s: isContained(base, %s) before the read" % (label, v))
        want = SITE_BASE.get(nm)
        if want is None:
            raise AnalysisBroken("%s passes a locally resolved path to %s but is not one of the lookup sites whose root the rule knows (%s)" % (short(F.name), last(g.name), ", ".join(sorted(SITE_BASE))))
        # (contained in the right root is what counts; a further check against some other directory takes nothing away)
        good = [b for b in bases if b in want]
        r.instance()
        if not good and any(has_unknown(b) for b in bases):
            raise AnalysisBroken("%s: the containment base of `%s` is computed in a way the rule cannot follow (%s)" % (label, v, ", ".join(render(b, F) for b in bases)))
        r.expect(bool(good), F, e, "%s: containment base" % label, "%s checks containment against `%s`, which is not the canonical root of this lookup (%s)" % (label, render(bases[0], F), " / ".join(render(x, F) for x in want)),
                 okdesc="%s: base `%s` is the canonical root" % (label, render((good or bases)[0], F)))
    # regular file, same value
    r.instance()
    r.expect("regular" in fl, F, e, "%s: file type" % label, "%s reads `%s` without is_regular_file(%s)" % (label, v, v), okdesc="%s: is_regular_file(%s)" % (label, v))
    # what was resolved is root / request (judged only where the rest holds: a site that fails above has said what is wrong with it)
    if bases and "regular" in fl and "ecok" in fl:
        r.instance()
        x = t[1]
        if has_unknown(x):
            raise AnalysisBroken("%s: what is resolved into `%s` is computed in a way the rule cannot follow (%s)" % (label, v, render(x, F)))
        r.expect(x[0] == "join" and mentions(x[2], "param"), F, e, "%s: candidate" % label, "the path that is resolved (%s) is not root / request" % render(x, F), okdesc="%s: candidate = %s" % (label, render(x, F)))


def r3(ctx, r):
    pf = analysis(ctx)
    fb = ctx.fb()
    per, refused = {}, []
    for (F, e, g, arg, av, st, note) in pf.sites:
        if forwarded(pf, F, av[0]):
            continue        # a forwarded parameter (the obligation is the caller's, R1) or its sibling (R7)
        owner = site_owner(fb, F)
        per.setdefault(owner or last(F.name), []).append((F, e))
        try:
            site_flow(r, pf, F, e, g, arg, av, st, note, owner)
        except AnalysisBroken as ex:        # the other sites are still judged; the rule as a whole then refuses
            refused.append(str(ex))
    for nm in SITE_BASE:
        if nm not in per:
            refused.append("%s: no read found" % SITE_LABEL.get(nm, nm))
    # external branch only for listed paths: the read (or, when the branch is a function of its own, each call of it) is behind a test of the
    # request against the registry's externalPaths list — isExternalPath(request), or the binary search that function makes, written in place
    ef = af(ctx, "getStaticEmbedded")
    req = ef.params[0]["d"] if ef.params else None

    def listed(c, t):
        c = strip_casts(c)
        if not t or c.get("k") not in ("call", "mcall") or not c.get("args"):
            return False
        if last(c.get("callee", "")) == "isExternalPath" and (c.get("callee") or "").startswith(AS + "::"):
            return var_d(c["args"][0]) == req
        if c.get("callee") == "std::binary_search" and len(c["args"]) >= 3 and var_d(c["args"][2]) == req:
            first = strip_casts(c["args"][0])
            if first.get("k") == "var":
                vs = decl_vars(ef).get(first.get("d"), [])
                first = strip_casts(vs[0]["init"]) if len(vs) == 1 and isinstance(vs[0].get("init"), dict) and first.get("d") not in assigned_ds(ef) else first
            return first.get("k") == "member" and first.get("n", "").endswith("::externalPaths")
        return False
    for (F, e) in per.get("getStaticEmbedded", []):
        points = [e] if F is ef else [x for G, x in callers_of(fb, F) if G is ef]
        if F is not ef and len(points) != len(callers_of(fb, F)):
            refused.append("%s is not called from getStaticEmbedded alone: the rule cannot place its reads behind the externalPaths test" % last(F.name))
            continue
        r.instance()
        r.expect(bool(points) and all(any(listed(c, t) for c, t in dominating_facts(ef, x)) for x in points), F, e, "external allow-list", "the external directory is read for a path that is not in the registry's externalPaths list", okdesc="external read only for listed paths")
    if refused:
        raise AnalysisBroken("; ".join(refused))


# ------------------------------------------------------------------ R4

def r4(ctx, r):
    fb = ctx.fb()
    ic = af(ctx, "isContained")
    roles = contained_roles(ic)
    rel = [v for vs in decl_vars(ic).values() for v in vs if isinstance(v.get("init"), dict) and (strip_views(v["init"]) or {}).get("k") == "mcall" and last(strip_views(v["init"]).get("callee", "")) == "lexically_relative"]
    r.instance()
    ok = roles is not None and len(rel) == 1 and rel[0]["d"] not in assigned_ds(ic)
    rd = rel[0]["d"] if len(rel) == 1 else None
    rets = [e for e in common.returns(ic) if "root" in e.raw]
    # the one computed verdict: first component of the relative path != ".." — whatever the iterator is called, it is the one taken from
    # rel.begin() — computed only for a non-empty relative path (an empty one, i.e. no relation between the two paths, ends in `false`);
    # the two tests may be guard clauses or conjuncts of the returned expression
    fin = [e for e in rets if const_value(strip_casts(e.node.get("v") or {})) is None]
    if ok and len(fin) > 1:
        raise AnalysisBroken("isContained computes its verdict in %d places: a shape the rule cannot read" % len(fin))
    ok = ok and len(fin) == 1
    if ok:
        holds = flatten_fact(unname(ic, fin[0].node["v"]), True) + dominating_facts(ic, fin[0])

        def first_component_not_dotdot(c, t):
            cp = _cmp_true(strip_casts(c), t)
            if not cp or cp[0] != "!=":
                return False
            for a, b in ((cp[1], cp[2]), (cp[2], cp[1])):
                a0 = strip_casts(a)
                if [x.get("v") for x in walk(b) if x.get("k") == "str"] != [".."] or a0 is None or not (a0.get("k") == "opcall" and a0.get("op") == "*" and len(a0["args"]) == 1):
                    continue
                it = strip_views(a0["args"][0])
                if it is not None and it.get("k") == "var":
                    vs = decl_vars(ic).get(it.get("d"), [])
                    it = strip_views(vs[0]["init"]) if len(vs) == 1 and isinstance(vs[0].get("init"), dict) and it.get("d") not in assigned_ds(ic) else None
                if it is not None and it.get("k") == "mcall" and last(it.get("callee", "")) == "begin" and var_d(it.get("obj")) == rd:
                    return True
            return False
        ok = any(first_component_not_dotdot(c, t) for c, t in flatten_fact(unname(ic, fin[0].node["v"]), True))
        # every other way out says "not contained"
        ok = ok and all(const_value(strip_casts(e.node.get("v") or {})) == 0 for e in rets if e is not fin[0])
        ok = ok and any(t is False and strip_casts(c).get("k") == "mcall" and last(strip_casts(c).get("callee", "")) == "empty" and var_d(strip_casts(c).get("obj")) == rd for c, t in holds)
    r.expect(ok, ic, None, "component-wise containment", "isContained is not `rel = target.lexically_relative(base); !rel.empty() && first component != \"..\"`", okdesc="isContained: lexically_relative + first component != '..'")
    deny = ("starts_with", "rfind", "compare", "find", "substr")
    bad = []
    for f in fb.in_file(AF):
        if not f.ok:
            continue
        for e in f.stmts():
            n = e.node
            if n.get("k") == "mcall" and last(n.get("callee", "")) in deny and (is_path_type((strip_casts(n.get("obj") or {}) or {}).get("t") or "") or ".string()" in show(n.get("obj") or {}) or ".native()" in show(n.get("obj") or {})):
                bad.append((f, e))
    r.instance()
    r.expect(not bad, bad[0][0] if bad else ic, bad[0][1] if bad else None, "string-prefix containment", "%s compares paths as strings (`%s`): a sibling directory whose name starts with the root's name passes a prefix test" %
             ((short(bad[0][0].name), show(bad[0][1].node)[:50]) if bad else ("", "")), okdesc="no string-prefix comparison on paths")


# ------------------------------------------------------------------ R5

CACHES = ("FsState::staticCache", "FsState::templateCache")
CACHE_LOOKUP = ("find", "at", "operator[]", "count", "contains", "equal_range", "emplace", "insert", "try_emplace", "insert_or_assign", "emplace_hint", "extract", "erase")
CACHE_FILL = ("emplace", "insert", "try_emplace", "insert_or_assign", "emplace_hint", "operator[]")


def cache_of(n):
    """name of the cache a member call / subscript operates on"""
    o = None
    if n.get("k") == "mcall":
        o = n.get("obj")
    elif n.get("k") == "opcall" and n.get("op") == "[]" and n.get("args"):
        o = n["args"][0]
    o = strip_casts(o) if o is not None else None
    if o is not None and o.get("k") == "member" and o.get("n", "").endswith(CACHES):
        return last(o["n"])
    return None


def r5(ctx, r):
    pf = analysis(ctx)
    fb = ctx.fb()
    readers = {g.name for g, ix in pf.rd.values()}
    seen = set()

    def checks(av):
        t, fl = av
        return frozenset((["resolved"] if t[0] == "canon" else []) + [x if isinstance(x, str) else x[0] for x in fl if x in ("ecok", "regular") or (isinstance(x, tuple) and x[0] == "in")])
    FULL = frozenset(["resolved", "ecok", "in", "regular"])

    def gated(F, e, depth=0):
        """the cache is consulted for a request that has passed the checks: where the function reads the file itself (on a miss), the very
        path it reads has, at the cache access, every check it has at the read (R3 says which those must be — a site R3 reports is not
        reported a second time here); where it does not, a fully checked path (resolved, error code clear, contained, regular file) exists
        at the access — in this function or, for a private helper that was handed the checked path, at every call of that helper"""
        st = pf.flow(F).before(e)
        mine = [(arg, av) for (F2, e2, g, arg, av, st2, note) in pf.sites if F2 is F and not forwarded(pf, F, av[0])]
        if st is not None and any(checks(pf.collapse(av)) == FULL for d, av in st):
            return True
        if st is not None and mine:
            return all(var_d(arg) is not None and pf.sget(st, var_d(arg)) is not None and checks(pf.collapse(pf.sget(st, var_d(arg)))) >= checks(av) for arg, av in mine)
        if depth >= 3 or F.access != "private":
            return False
        calls = [(G, x) for G in fb.in_file(AF) if G.ok for x in G.stmts() if x.node.get("k") in ("call", "mcall") and x.node.get("callee") == F.name]
        return bool(calls) and all(gated(G, x, depth + 1) for G, x in calls)
    for f in fb.in_file(AF):
        if not f.ok or f.kind in ("ctor", "dtor"):
            continue
        acc = [(e, cache_of(e.node)) for e in f.stmts() if cache_of(e.node) and (last(e.node.get("callee", "")) in CACHE_LOOKUP or e.node.get("k") == "opcall")]
        for e, cache in acc:
            seen.add(cache)
            nm = last(f.name)
            r.instance()
            r.expect(gated(f, e), f, e, "cache before the gate: %s" % nm, "%s consults %s before the checks of this request (resolved path, error code, containment, file type) have been made: a name cached earlier is served without being re-validated" % (nm, cache),
                     okdesc="%s: %s.%s behind resolved + contained + regular file" % (nm, cache, last(e.node.get("callee", "")) or "[]"))
        # what is stored under the key is what was read for this request: every way to the insertion passes a call of a reader, and the key is
        # the request string itself (a copy of the function's string parameter)
        for cache in sorted({c for e, c in acc}):
            ins = [e for e, c in acc if c == cache and (last(e.node.get("callee", "")) in CACHE_FILL or e.node.get("k") == "opcall")]
            if not ins:
                continue

            def after_read(F, e, depth=0):
                """every way to e passes a call of a reader — in this function or, for a private helper that only stores what it is handed, on
                the way to each of its calls"""
                rd = [x for x in F.stmts() if x.node.get("k") in ("call", "mcall") and x.node.get("callee") in readers]
                if rd:
                    return search(F, ("entry",), lambda x: x is e, stop=lambda x: x in rd, eh=False) is None
                if depth >= 2 or F.access != "private":
                    return False
                calls = [(G, x) for G in fb.in_file(AF) if G.ok for x in G.stmts() if x.node.get("k") in ("call", "mcall") and x.node.get("callee") == F.name]
                return bool(calls) and all(after_read(G, x, depth + 1) for G, x in calls)

            def key_is_request(e):
                a = e.node.get("args", [])
                k = strip_views(a[1] if e.node.get("k") == "opcall" and len(a) > 1 else (a[0] if a else None))
                if k is not None and k.get("k") == "var" and k.get("parm") is None:
                    vs = decl_vars(f).get(k.get("d"), [])
                    k = strip_views(vs[0]["init"]) if len(vs) == 1 and isinstance(vs[0].get("init"), dict) and k.get("d") not in assigned_ds(f) else None
                    if k is not None and k.get("k") == "ctor" and len(xargs(k)) == 1:
                        k = strip_views(xargs(k)[0])
                return k is not None and k.get("k") == "var" and k.get("parm") is not None and "string" in (k.get("t") or "")
            r.instance()
            r.expect(all(after_read(f, e) and key_is_request(e) for e in ins), f, ins[0],
                     "cache fill: %s" % last(f.name), "%s fills %s on a path that did not read the file for this request, or under a key that is not the requested name" % (last(f.name), cache), okdesc="%s: %s filled only after the read, under the request" % (last(f.name), cache))
    if len(seen) < 2:
        raise AnalysisBroken("cache lookups found for %s only (expected staticCache and templateCache)" % (sorted(seen) or "no cache"))


# ------------------------------------------------------------------ R6

def r6(ctx, r):
    fd = af(ctx, "fromDirectory")
    # the canonical root is the local initialised from canonical(<path parameter>), whatever either is called
    cr = [v for vs in decl_vars(fd).values() for v in vs if isinstance(v.get("init"), dict) and (strip_views(v["init"]) or {}).get("k") == "call" and strip_views(v["init"]).get("callee") == "std::filesystem::canonical" and
          strip_views(v["init"])["args"] and (strip_views(strip_views(v["init"])["args"][0]) or {}).get("parm") is not None and is_path_type((strip_views(strip_views(v["init"])["args"][0]) or {}).get("t"))]
    # (what fromDirectory delegates to a helper of the class the rule does not follow: a clause that fails while such a call is present is a
    # refusal, not a report)
    helpers = sorted({last(e.node["callee"]) for e in fd.stmts() if e.node.get("k") in ("call", "mcall") and (e.node.get("callee") or "").startswith(AS + "::")})

    def expect(cond, where, construct, msg, okdesc, unread=True):
        if not cond and helpers and unread:
            raise AnalysisBroken("fromDirectory [%s]: not found in fromDirectory itself, which now calls %s — the rule does not follow the construction of the roots into helpers" % (construct, ", ".join(helpers)))
        return r.expect(cond, fd, where, construct, msg, okdesc=okdesc)
    r.instance()
    okc = len(cr) == 1 and cr[0]["d"] not in assigned_ds(fd)
    expect(okc, None, "canonical root", "fromDirectory does not canonicalise the root", "canonicalRoot = canonical(root)",
           unread=any(isinstance(v.get("init"), dict) and (strip_views(v["init"]) or {}).get("k") in ("call", "mcall") and ((strip_views(v["init"]) or {}).get("callee") or "").startswith(AS + "::") for vs in decl_vars(fd).values() for v in vs))
    crd = cr[0]["d"] if len(cr) == 1 else None

    pf = analysis(ctx)

    def via_helper(n, sub):
        """the value is computed by a helper of the class from the canonical root and the sub-directory name: what the helper returns, written
        in the caller's terms ("root" for the canonical root) — or None when n is no such call / the helper cannot be read"""
        n = strip_views(n)
        g = pf.local_fn(n) if n is not None and n.get("k") in ("call", "mcall") else None
        ts = pf.return_terms(g) if g is not None else None
        if ts is None:
            return None

        def sub_(t):
            if t[0] == "param":
                a = strip_views(n["args"][t[1]]) if t[1] < len(n.get("args", [])) else None
                if a is not None and a.get("k") == "var" and a.get("d") == crd:
                    return ("root",)
                return ("str", a.get("v", "")) if a is not None and a.get("k") == "str" else ("unknown", "argument %d" % t[1])
            return tuple(sub_(x) if isinstance(x, tuple) else x for x in t)
        return [sub_(t) for t in ts]

    def from_root(n, sub):
        ts = via_helper(n, sub)
        if ts is not None:
            return all(t in (("canon", ("join", ("root",), ("str", sub))), ("join", ("root",), ("str", sub))) for t in ts)
        return any(x.get("k") == "var" and x.get("d") == crd for x in walk(n)) and sub in [x.get("v") for x in walk(n) if x.get("k") == "str"]

    def canon_sub(n, sub):
        ts = via_helper(n, sub)
        if ts is not None:
            return ("canon", ("join", ("root",), ("str", sub))) in ts
        n = strip_views(n)
        if n is None or n.get("k") != "call" or n.get("callee") not in CANON or not n["args"]:
            return False
        j = strip_views(n["args"][0])
        return j is not None and j.get("k") == "opcall" and j.get("op") == "/" and var_d(j["args"][0]) == crd and sub in [x.get("v") for x in walk(j["args"][1]) if x.get("k") == "str"]
    for fld, sub in (("staticsRoot", "static"), ("templatesRoot", "templates")):
        ws = [e for e in fd.stmts() if asg(e.node) and show(strip_casts(asg(e.node)[0])).endswith(fld)]
        r.instance()
        ok = crd is not None and len(ws) >= 1 and any(canon_sub(asg(e.node)[1], sub) for e in ws) and all(from_root(asg(e.node)[1], sub) for e in ws)
        # a helper the rule could read and that does something else is a report like any other; one it could not read (or no write at all
        # while helpers are called) is a refusal
        unread = not ws or any((strip_views(asg(e.node)[1]) or {}).get("k") in ("call", "mcall") and ((strip_views(asg(e.node)[1]) or {}).get("callee") or "").startswith(AS + "::") and via_helper(asg(e.node)[1], sub) is None for e in ws)
        expect(ok, ws[0] if ws else None, "root: %s" % fld, "%s is not derived from the canonical root" % fld, "%s = weakly_canonical(canonicalRoot / \"%s\")" % (fld, sub), unread=unread)
    # the roots are written nowhere else
    fb = ctx.fb()
    others = [(f, e) for f in fb.in_file(AF) if f.ok and f is not fd for e in f.stmts() if asg(e.node) and show(strip_casts(asg(e.node)[0])).endswith(("staticsRoot", "templatesRoot", "->root"))]
    # … nor handed to anything that could write them: a root passed as a NON-CONST reference (or its address taken) lets the callee
    # re-point it — `refreshRoot(dir, _fs->staticsRoot)` — without a single assignment to the field appearing anywhere
    def root_member(x):
        return x.get("k") == "member" and x["n"].endswith(("::staticsRoot", "::templatesRoot", "FsState::root"))
    for f in fb.in_file(AF):
        if not f.ok or f is fd:
            continue
        for e in f.stmts():
            n = e.node
            if n.get("k") in ("call", "mcall") and n.get("callee"):
                cal = [g for g in fb.by_name.get(n["callee"], []) if g.ok]
                for ai, a in enumerate(n.get("args", [])):
                    a0 = strip_casts(a)
                    if a0 is None or not root_member(a0):
                        continue
                    ptypes = {g.params[ai]["t"] for g in cal if ai < len(g.params)}
                    if any(t.rstrip().endswith("&") and not t.lstrip().startswith("const ") for t in ptypes):
                        others.append((f, e))
            if n.get("k") == "un" and n.get("op") == "&" and root_member(strip_casts(n.get("v") or {})):
                others.append((f, e))
            if n.get("k") == "mcall" and root_member(strip_casts(n.get("obj") or {})) and last(n.get("callee", "")) in PATH_MUTATORS + ("concat",):
                others.append((f, e))
    r.instance()
    r.expect(not others, others[0][0] if others else fd, others[0][1] if others else None, "root rewritten", "a containment root is written (or handed out by non-const reference) outside fromDirectory: the base every lookup is contained "
             "in is no longer pinned at construction — re-resolved after `static/` was replaced by a symlink, it follows the link and lookups are 'contained' in an outside directory", okdesc="roots written only at construction")


# ------------------------------------------------------------------ R7

def r7(ctx, r):
    pf = analysis(ctx)
    be = af(ctx, "buildEntry")
    # every function that forwards its path parameter to a reader (buildEntry; any new wrapper) hands readers nothing but that parameter and its
    # constant-suffix sibling in the same directory: the containment decision the caller made covers exactly those, and both go through the
    # O_NOFOLLOW open.  A re-resolved, joined or otherwise derived path is a new location that nobody has checked.
    for sig, (g, ix) in sorted(pf.rd.items()):
        mine = [(e, arg, av) for (F, e, g2, arg, av, st, note) in pf.sites if F is g]
        if not mine:
            continue
        terms = [av[0] for (e, arg, av) in mine]

        def allowed(t):
            return (t[0] == "param" and t[1] in ix) or (t[0] == "concat" and t[1][0] == "param" and t[1][1] in ix and "/" not in t[2] and ".." not in t[2])
        unk = [t for t in terms if has_unknown(t) and not allowed(t)]
        if unk:
            raise AnalysisBroken("%s hands a reader a path computed in a way the rule cannot follow (%s)" % (last(g.name), render(unk[0], g)))
        r.instance()
        # (that the file it was handed is among them is what makes it a forwarding reader; whether a sibling is looked for at all is not a
        # containment matter)
        ok = all(allowed(t) for t in terms) and any(t[0] == "param" for t in terms)
        bad = [(e, av) for (e, arg, av) in mine if not allowed(av[0])]
        r.expect(ok, g, bad[0][0] if bad and g is not be else None, "gzip sibling", "%s does not read exactly the checked file%s through readFile%s" % (last(g.name), " and its `.gz` sibling (same directory)" if g is be else " it was handed",
                 (": it also reads `%s`" % render(bad[0][1][0], g)) if bad else ""), okdesc="%s reads: %s (O_NOFOLLOW leaf)" % (last(g.name), ", ".join(sorted(render(t, g) for t in terms))))
    if be.sig not in pf.rd:
        raise AnalysisBroken("buildEntry no longer forwards its parameter to readFile")
    # no other path derivation
    others = [e for e in be.stmts() if e.node.get("k") == "opcall" and e.node.get("op") in ("/", "/=")]
    r.instance()
    r.expect(not others, be, others[0] if others else None, "path derived in buildEntry", "buildEntry derives another path from the checked one", okdesc="no further path derivation")


def run(ctx, ck):
    # (no anchor table: no rule of this property identifies a construct through the name of a local variable or parameter; what a rule needs —
    # "the resolved path", "the cursor of the segment scan", "the relative path", "the canonical root" — is found by dataflow)
    ck.run_rule("C20-R1", "closed set of file readers; leaf opened read-only with O_NOFOLLOW", "A3 who-may-call (computed forwarder set) + constant flag word", lambda r: r1(ctx, r))
    ck.run_rule("C20-R2", "lexical gate first, with its four rejections", "A2 dominance + table", lambda r: r2(ctx, r))
    ck.run_rule("C20-R3", "sanitiser flow at every lookup site: resolved path → error test → containment of that value → regular file → read", "A12 sanitiser flow (forward must-analysis, helper summaries)", lambda r: r3(ctx, r))
    ck.run_rule("C20-R4", "containment is component-wise, never a string prefix", "A10 + deny list", lambda r: r4(ctx, r))
    ck.run_rule("C20-R5", "caches are consulted and filled only behind the per-request checks", "A2 + A12", lambda r: r5(ctx, r))
    ck.run_rule("C20-R6", "roots are canonicalised at construction and never rewritten", "A2 + who-may-write", lambda r: r6(ctx, r))
    ck.run_rule("C20-R7", "forwarding readers read the checked file and its constant-suffix sibling only; no other derived paths", "A2 + A12", lambda r: r7(ctx, r))
