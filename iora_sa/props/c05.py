"""C05 — Stopping or destroying a transport never strands, crashes or races (DESIGN.md §2 C05)."""
import re

from .. import access
from ..cfg import search, witness_str, elem_dominates, Forward
from ..expr import show, walk, last, field_of, strip_wrappers, strip_casts, short, const_value, access_path
from ..facts import AnalysisBroken
from ..locks import LOCK_TYPES, mutex_id
from ..predabs import Vocab, PredAbs, A, Not, And, Or, T, F
from ..rules import common
from . import c03
from .c02 import cb_invocations, TCP, UDP, FILES

TITLE = "Stopping or destroying a transport never strands, crashes or races"
TECHNIQUE = 'custom static analysis over clang-14 CFG facts: must-lockset + lock-order table, thread-root confinement over the call graph, no-callback-under-lock summaries, may-free typestate for Session*'
IMPL, SYNC, SRB, SCO = c03.IMPL, c03.SYNC, c03.SRB, c03.SCO
TR = "iora::network::Transport"
TFILE = c03.FILE
QUEUE = {TCP: ("_cmds", "_cmdsClosed", "_cmdMutex"), UDP: ("_q", "_qClosed", "_qmx")}
CONFINED = {TCP: ("_fdTags", "_timerFd", "_epollFd", "_selfDestruct", "_sslSrv", "_sslCli"),
            UDP: ("_tags", "_peerIndex", "_timerFd", "_epollFd", "_selfDestruct")}
SYNC_LAMBDA_CALLEES = ("iora::network::EventBatchProcessor::processBatchWithSpecialFDs",)

EXPLANATION = (
    "Static obligations over both engines and the transport: R1 lock tables (command queue + closed flag + wake-up write under the queue "
    "mutex, callbacks under _cbMutex, session/listener maps mutated only under the unique and read off-thread only under the shared "
    "session lock, sticky error under its mutex, transport callback/observer/user-data tables under their mutexes); R2 state that the "
    "code keeps lock-free is touched only by functions every call chain to which starts at the I/O thread body, start() or the "
    "destructor (thread-root analysis over the call graph, escaping lambdas are roots of their own); R3 no engine/transport lock is "
    "acquired while another is held, no std::function is invoked under any of them, and the repository-wide lock-order graph is acyclic; "
    "R4 the condition variables of Transport::Impl are exactly the three known ones, every wait on a connect/receive cv is preceded by "
    "the matching ParkGuard(s), guards are created and destroyed under syncMutex, the flush is covered by a FlushGuard, teardown sets the "
    "fence before notifying and waits for all three counters; R5 closing the command queue, draining it and closing the wake-up "
    "descriptor are one critical section, as are test/push/wake-up in enqueue, and every queued promise is fulfilled on every path; R6 "
    "I/O-thread guards on stop/addListener, and every return of stop() is behind this caller's join of the I/O thread or a wait for the caller that is joining it "
    "(only a call on the I/O thread itself, or nothing to join, is let through); R7 no Session* is dereferenced after a call that may free it without a re-lookup (typestate), "
    "and ~Transport touches nothing after handing itself to the engine; R8 engine callbacks are invoked only on I/O-confined paths.")
NOT_DECIDED = ["absence of deadlock beyond lock-order acyclicity (the join-versus-callback ownership argument is about shared_ptr counts)",
               "'within a bounded time'", "data races on objects the tables do not list"]


def _la(ctx):
    return c03._la(ctx)


# ------------------------------------------------------------------ thread roots

def thread_roots(ctx, cls):
    """for every function of the engine: the set of roots (thread entry points / public API) that can reach it"""
    fb, cg = ctx.fb(), ctx.cg()
    cache = {}

    def is_sync_lambda(f):
        role = cg.lambda_role.get(f.name, {})
        if role.get("role") in ("cv_pred", "sync_arg", "immediate", "local"):
            return True
        return role.get("role") == "arg" and role.get("callee") in SYNC_LAMBDA_CALLEES

    def roots(name, seen):
        if name in cache:
            return cache[name]
        if name in seen:
            return set()
        seen = seen | {name}
        out = set()
        fs = fb.by_name.get(name, [])
        f = fs[0] if fs else None
        if f is not None and f.kind == "lambda":
            if is_sync_lambda(f) and f.enclosing is not None:
                out |= roots(f.enclosing.name, seen)
            else:
                role = cg.lambda_role.get(f.name, {})
                out.add(("λ[%s %s]@%s" % (role.get("role"), last(role.get("callee") or role.get("field") or ""), short(f.enclosing.name if f.enclosing else "?"))).replace(" ]", "]"))
            cache[name] = out
            return out
        callers = {g.name for (g, e, n) in cg.callers.get(name, [])}
        if f is not None and f.access == "public" and f.kind in ("method", "function") and f.cls == cls:
            # the engine's public API is where foreign threads enter: a root, and the climb stops here
            cache[name] = {short(name)}
            return cache[name]
        if f is not None and f.kind in ("ctor", "dtor"):
            out.add(short(name))
        if not callers and not out:
            out.add(short(name))
        for c in callers:
            out |= roots(c, seen)
        cache[name] = out
        return out
    res = {}
    for f in fb.in_file(FILES[cls]):
        if f.ok:
            res[f.sig] = roots(f.name, frozenset())
    return res


def io_confined(roots, cls):
    c = last(cls)
    # start(): before the I/O thread exists; scheduleSelfDestruct/detachForTermination: documented (and asserted) to be
    # called on the I/O thread only, from the transport's self-destruction path
    ok = {"λ[thread]@%s::start" % c, "%s::start" % c, "%s::<ctor>" % c, "%s::<dtor>" % c, "%s::scheduleSelfDestruct" % c, "%s::detachForTermination" % c}
    return roots <= ok, roots - ok


# ------------------------------------------------------------------ R1

def r1(ctx, r):
    fb, la = ctx.fb(), _la(ctx)
    for cls in (TCP, UDP):
        q, qc, qm = QUEUE[cls]
        file_ = [FILES[cls]]
        common.guarded_by(r, fb, la, cls + "::" + q, cls + "::" + qm, files=file_)
        common.guarded_by(r, fb, la, cls + "::" + qc, cls + "::" + qm, files=file_)
        common.guarded_by(r, fb, la, cls + "::_cbs", cls + "::_cbMutex", files=file_)
        roots = thread_roots(ctx, cls)

        def confined(f, roots=roots, cls=cls):
            rs = roots.get(f.sig)
            if rs is None and f.enclosing is not None:
                rs = roots.get(f.enclosing.sig)
            ok, extra = io_confined(rs or {"?"}, cls)
            return "I/O-thread confined" if ok else None
        for fld in ("_sessions", "_listeners"):
            common.guarded_by(r, fb, la, cls + "::" + fld, cls + "::_sessionRwMutex", mode_for_write="x", mode_for_read="s", confined=confined, files=file_,
                              exempt={UDP + "::readFromListener": "`_sessions[sid]` is a lookup: C06-R6 proves every indexed id is in the table, so operator[] never inserts"}
                              if (cls == UDP and fld == "_sessions") else None)
        # the wake-up write happens under the queue mutex (serialised with the close in shutdownDrain)
        for f in fb.funcs(cls + "::enqueue", FILES[cls]):
            for e in f.stmts():
                if e.node.get("k") == "call" and e.node.get("callee") == "write" and field_of(e.node["args"][0]) == cls + "::_eventFd":
                    r.instance()
                    r.expect(la.holds(f, e, cls + "::" + qm), f, e, "wake-up write unlocked", "the eventfd wake-up write is not under the queue mutex: it can hit a descriptor "
                             "that shutdownDrain has closed (and the kernel may have reused)", okdesc="%s::enqueue: ::write(_eventFd) under %s" % (last(cls), qm))
    common.guarded_by(r, fb, la, TCP + "::_lastFatal", TCP + "::_fatalMx", files=[FILES[TCP]])
    for fld in ("onAcceptCb", "onConnectCb", "onDataCb", "onCloseCb", "onErrorCb"):
        common.guarded_by(r, fb, la, IMPL + "::" + fld, IMPL + "::callbackMutex", files=[TFILE])
    for fld in ("observers", "observerToSession"):
        common.guarded_by(r, fb, la, IMPL + "::" + fld, IMPL + "::observerMutex", files=[TFILE])
    common.guarded_by(r, fb, la, IMPL + "::sessionData", IMPL + "::userDataMutex", files=[TFILE])
    r.floor(120, "guarded access sites")


# ------------------------------------------------------------------ R2

def r2(ctx, r):
    fb = ctx.fb()
    for cls in (TCP, UDP):
        roots = thread_roots(ctx, cls)
        for fld in CONFINED[cls]:
            for (f, e, n, kind) in access.accesses(fb, cls + "::" + fld, [FILES[cls]]):
                if e is None:
                    continue
                r.instance()
                rs = roots.get(f.sig) or (roots.get(f.enclosing.sig) if f.enclosing is not None else None) or {"?"}
                ok, extra = io_confined(rs, cls)
                r.expect(ok, f, e, "%s touched off the I/O thread" % fld,
                         "%s %s %s, which is kept without a lock because only the I/O thread may touch it, but %s is reachable from %s" % (
                             short(f.name), "writes" if kind != "read" else "reads", fld, short(f.name), ", ".join(sorted(extra))),
                         okdesc="%s: %s only on I/O-confined paths" % (short(f.name), fld))
    r.floor(60, "accesses to I/O-thread-confined state")


# ------------------------------------------------------------------ R3

ENGINE_LOCKS = {TCP + "::_cmdMutex", TCP + "::_cbMutex", TCP + "::_sessionRwMutex", TCP + "::_fatalMx",
                UDP + "::_qmx", UDP + "::_cbMutex", UDP + "::_sessionRwMutex", UDP + "::_errMutex",
                SYNC, IMPL + "::callbackMutex", IMPL + "::observerMutex", IMPL + "::userDataMutex"}


def lock_acquisitions(f, la):
    """(elem, mutex id) for every acquisition in f"""
    fl = la.fn(f)
    out = []
    for e in f.stmts():
        n = e.node
        if n.get("k") == "decl":
            for v in n["vars"]:
                lv = fl.lockvars.get(v["d"])
                if lv and not lv[2]:
                    for m in lv[0]:
                        out.append((e, m))
        if n.get("k") == "mcall" and n.get("callee") in ("std::unique_lock::lock", "std::shared_lock::lock"):
            o = strip_wrappers(n.get("obj"))
            if o is not None and o.get("k") == "var" and o.get("d") in fl.lockvars:
                for m in fl.lockvars[o["d"]][0]:
                    out.append((e, m))
        if n.get("k") == "mcall" and n.get("callee") in ("std::mutex::lock", "std::shared_mutex::lock", "std::shared_mutex::lock_shared"):
            m = mutex_id(n.get("obj"), la.aliases)
            if m:
                out.append((e, m))
    return out


def r3(ctx, r):
    fb, la = ctx.fb(), _la(ctx)
    edges = {}
    nacq = 0
    for f in fb.functions:
        if not f.ok or not f.file.startswith(("/")):
            continue
        if "/include/iora/" not in f.file:
            continue
        for (e, m) in lock_acquisitions(f, la):
            held = la.mutexes(f, e)
            for h in held:
                if h != m:
                    edges.setdefault((h, m), []).append((f, e))
            if m in ENGINE_LOCKS:
                nacq += 1
                r.instance()
                other = {h for h in held if h in ENGINE_LOCKS and h != m}
                r.expect(not other, f, e, "nested engine lock", "%s acquires %s while holding %s: the engine/transport locks are documented leaves (at most one at a time)" % (
                    short(f.name), last(m), ",".join(last(x) for x in other)), okdesc="%s takes %s with no other engine lock held" % (short(f.name), last(m)))
    if nacq < 80:
        raise AnalysisBroken("only %d engine/transport lock acquisitions seen" % nacq)
    # interprocedural: a call made with an engine lock held must not reach another acquisition or a callback
    cg = ctx.cg()
    acq, inv = {}, {}
    scope = [f for f in fb.functions if f.ok and f.file.endswith((FILES[TCP], FILES[UDP], TFILE))]
    # elements inside catch handlers are left out of the summaries: the only handlers on these paths report allocation
    # failures of the queue push through onError (DESIGN 1.3 A9: bad_alloc from ordinary growth is out of scope)
    for f in scope:
        acq[f.name] = acq.get(f.name, set()) | {m for (e, m) in lock_acquisitions(f, la) if m in ENGINE_LOCKS and not e.catch_id}
        inv[f.name] = inv.get(f.name, False) or any(not e.catch_id for (e, t) in common.fn_invocations(f))
    changed = True
    while changed:
        changed = False
        for f in scope:
            for (e, n, c) in cg.callees_of(f):
                if e.catch_id:
                    continue
                if c in acq and not acq[c] <= acq[f.name]:
                    acq[f.name] |= acq[c]
                    changed = True
                if inv.get(c) and not inv[f.name]:
                    inv[f.name] = True
                    changed = True
    for f in scope:
        for (e, n, c) in cg.callees_of(f):
            if c not in acq:
                continue
            held = la.mutexes(f, e) & ENGINE_LOCKS
            if not held:
                continue
            r.instance()
            more = acq[c] - held
            # documented order (transport_impl.hpp, connectSync): syncMutex → the engine's command-queue mutex, taken by
            # connect()'s enqueue only; nothing under the queue mutex ever takes syncMutex (checked by the acyclicity test below)
            if held == {SYNC} and last(c) == "connect" and more <= {TCP + "::_cmdMutex", UDP + "::_qmx"} and not inv.get(c):
                r.note("%s → %s under syncMutex takes only the command-queue mutex (documented order)" % (short(f.name), short(c)))
                r.ok()
                continue
            r.expect(not more and not inv.get(c), f, e, "call under lock reaches lock/callback",
                     "%s calls %s while holding %s, and that call %s: the engine/transport locks are leaves" % (
                         short(f.name), short(c), ",".join(last(x) for x in held),
                         ("acquires " + ",".join(last(x) for x in more)) if more else "can invoke a user callback"),
                     okdesc="%s → %s under %s takes no further lock" % (short(f.name), short(c), ",".join(last(x) for x in held)))
    # callbacks outside locks
    scope_files = (FILES[TCP], FILES[UDP], TFILE)
    ninv = 0
    for f in fb.functions:
        if not f.ok or not f.file.endswith(scope_files):
            continue
        for (e, tgt) in common.fn_invocations(f):
            ninv += 1
            r.instance()
            held = la.mutexes(f, e) & ENGINE_LOCKS
            r.expect(not held, f, e, "callback under lock", "%s invokes the std::function `%s` while holding %s: a callback that re-enters the transport deadlocks" % (
                short(f.name), show(tgt), ",".join(last(x) for x in held)), okdesc="%s invokes %s lock-free" % (short(f.name), show(tgt)))
    if ninv < 40:
        raise AnalysisBroken("only %d std::function invocations seen in the transport layer" % ninv)
    # repository-wide lock order is acyclic
    graph = {}
    for (a, b) in edges:
        graph.setdefault(a, set()).add(b)
    r.instance()
    cyc = _find_cycle(graph)
    if cyc:
        f, e = edges[(cyc[0], cyc[1])][0]
        r.fail(f, e, "lock-order cycle", "lock order cycle: %s" % " → ".join(last(x) for x in cyc + [cyc[0]]))
    else:
        r.ok("lock-order graph: %d edges, acyclic (%s)" % (len(edges), "; ".join("%s→%s" % (last(a), last(b)) for (a, b) in sorted(edges)[:8])))


def _find_cycle(g):
    color = {}
    stack = []

    def dfs(u):
        color[u] = 1
        stack.append(u)
        for v in g.get(u, ()):
            if color.get(v) == 1:
                return stack[stack.index(v):]
            if color.get(v) is None:
                c = dfs(v)
                if c:
                    return c
        color[u] = 2
        stack.pop()
        return None
    for u in list(g):
        if color.get(u) is None:
            c = dfs(u)
            if c:
                return c
    return None


# ------------------------------------------------------------------ R4

def r4(ctx, r):
    fb, la = ctx.fb(), _la(ctx)
    # closed set of condition variables
    cvs = set()
    for name, recs in fb.records.items():
        if name == IMPL or name.startswith(IMPL + "::"):
            for fld in recs[0]["fields"]:
                if fld["t"].startswith("std::condition_variable") and not fld["t"].rstrip().endswith("&"):
                    cvs.add(name + "::" + fld["n"])
    r.instance()
    known = {SCO + "::cv", SRB + "::cv", IMPL + "::teardownCv"}
    r.expect(cvs == known, IMPL, None, "new condition variable", "Transport::Impl has condition variables %s; the teardown handshake only knows %s — a new parker class is not waited out" % (
        sorted(last(x) for x in cvs - known) or sorted(cvs), sorted(last(x) for x in known)), okdesc="condition variables of Impl = {connect cv, receive cv, teardownCv}")
    counters = {SCO + "::cv": ["activeConnects"], SRB + "::cv": ["waiters", "activeReceives"]}
    nw = 0
    for f in fb.in_file(TFILE):
        if not f.ok:
            continue
        for e in f.stmts():
            n = e.node
            if n.get("k") == "mcall" and n.get("callee", "").startswith("std::condition_variable") and last(n["callee"]) in common.CV_WAIT:
                cv = field_of(n.get("obj"))
                if cv not in counters:
                    continue
                nw += 1
                guards = [(g, v) for g in f.stmts() if g.node.get("k") == "decl" for v in g.node["vars"] if v["t"].endswith("ParkGuard")]
                for cnt in counters[cv]:
                    r.instance()
                    ok = any(elem_dominates(f, g, e) and cnt in show(v.get("init") or {}) and la.holds(f, g, SYNC) and common.same_section(f, la, g, e, SYNC)[0] for (g, v) in guards)
                    r.expect(ok, f, e, "wait without ParkGuard(%s)" % cnt, "%s parks on %s without a ParkGuard on %s constructed under syncMutex before the wait: teardown can destroy "
                             "the transport under this caller" % (short(f.name), last(cv), cnt), okdesc="%s: ParkGuard(%s) before wait on %s" % (short(f.name), cnt, last(cv)))
    if nw < 2:
        raise AnalysisBroken("expected waits on the connect and receive condition variables, found %d" % nw)
    # guards are created and destroyed under the lock (precondition used by C03-R1)
    for f in fb.in_file(TFILE):
        if not f.ok:
            continue
        for e in f.elems():
            if e.kind == "stmt" and e.node.get("k") == "decl" and any(v["t"].endswith("ParkGuard") for v in e.node["vars"]):
                r.instance()
                r.expect(la.holds(f, e, SYNC), f, e, "ParkGuard created unlocked", "ParkGuard constructed without syncMutex", okdesc="ParkGuard ctor under syncMutex (%s)" % short(f.name))
            if e.kind == "dtor" and e.raw.get("t", "").endswith("ParkGuard"):
                r.instance()
                r.expect(la.holds(f, e, SYNC), f, e, "ParkGuard destroyed unlocked", "a ParkGuard is destroyed (counter decrement + teardown notify) without syncMutex held",
                         okdesc="~ParkGuard under syncMutex (%s line %s)" % (short(f.name), e.line))
            if e.kind == "stmt" and ((e.node.get("k") == "call" and e.node.get("callee") == "std::make_unique" and "FlushGuard" in e.node.get("t", "")) or
                                     (e.node.get("k") == "ctor" and e.node.get("cls", "").endswith("FlushGuard"))):
                r.instance()
                r.expect(la.holds(f, e, SYNC), f, e, "FlushGuard created unlocked", "FlushGuard constructed without syncMutex", okdesc="FlushGuard ctor under syncMutex")
    # FlushGuard's destructor takes the lock itself before touching the counters
    fgd = fb.func(IMPL + "::FlushGuard::<dtor>")
    for (e, n, k) in common.field_writes(fgd, IMPL + "::FlushGuard::activeFlushes") + common.field_writes(fgd, SRB + "::flushing"):
        r.instance()
        r.expect(la.holds(fgd, e, SYNC), fgd, e, "~FlushGuard unlocked", "~FlushGuard updates teardown state without taking the mutex", okdesc="~FlushGuard locks before clearing")
    # every notify on teardownCv holds syncMutex: once a counter is seen zero under the lock nothing keeps Impl alive, so a
    # notifier that has released the lock may signal a destroyed condition variable
    nn = 0
    for f in fb.in_file(TFILE):
        if not f.ok:
            continue
        for e in f.stmts():
            n = e.node
            if n.get("k") == "mcall" and last(n.get("callee", "")) in ("notify_one", "notify_all") and (field_of(n.get("obj")) or "").endswith("::teardownCv"):
                nn += 1
                r.instance()
                r.expect(la.holds(f, e, SYNC), f, e, "teardown notify outside lock", "%s signals teardownCv after releasing syncMutex: the teardown thread can already have seen the counters at zero "
                         "and destroyed the Impl (and this condition variable)" % short(f.name), okdesc="%s: teardownCv notified under syncMutex" % short(f.name))
    if nn < 2:
        raise AnalysisBroken("expected teardownCv notifications in ~ParkGuard and ~FlushGuard, found %d" % nn)
    # a guard's destructor touches nothing of Impl after its critical section ends
    for gname in ("FlushGuard",):
        gd = fb.func(IMPL + "::" + gname + "::<dtor>")
        for e in gd.stmts():
            if "root" in e.raw and e.node.get("k") != "decl" and any(x.get("k") == "member" and x["n"].startswith(IMPL + "::" + gname + "::") for x in walk(e.node)):
                r.instance()
                r.expect(la.holds(gd, e, SYNC), gd, e, "guard epilogue outside lock", "~%s touches transport state (`%s`) outside its critical section" % (gname, show(e.node)[:60]),
                         okdesc="~%s: `%s` under the lock" % (gname, show(e.node)[:40]))
    # teardownWaitOut: fence before notify, waits for all three counters
    tw = fb.func(IMPL + "::teardownWaitOut")
    sets = [e for (e, n, k) in common.field_writes(tw, IMPL + "::shuttingDown")]
    nots = [e for e in tw.stmts() if e.node.get("k") == "mcall" and last(e.node.get("callee", "")) in ("notify_all", "notify_one")]
    r.instance()
    r.expect(len(sets) == 1 and nots and all(elem_dominates(tw, sets[0], x) for x in nots) and la.holds(tw, sets[0], SYNC), tw, sets[0] if sets else None, "fence after notify",
             "teardownWaitOut does not set shuttingDown (under syncMutex) before it wakes the parked callers: a woken caller re-parks", okdesc="teardownWaitOut: shuttingDown = true before notify")
    waits = common.cv_waits(fb, lambda f: f is tw)
    r.instance()
    if len(waits) != 1 or waits[0]["pred"] is None:
        r.fail(tw, None, "teardown wait", "teardownWaitOut no longer waits on teardownCv with a predicate")
    else:
        flds = {last(n["n"]) for n in waits[0]["pred"].nodes.values() if n.get("k") == "member"}
        r.expect({"activeReceives", "activeConnects", "activeFlushes"} <= flds, tw, waits[0]["e"], "teardown gate incomplete",
                 "the teardown wait predicate reads %s; it must wait for activeReceives, activeConnects and activeFlushes" % sorted(flds), okdesc="teardown waits for all three counters")
    # performTeardown: fence → stop → wait
    pt = fb.func(IMPL + "::performTeardown")
    stops = [e for e in pt.stmts() if e.node.get("k") == "mcall" and last(e.node.get("callee", "")) == "stop"]
    tws = [e for e in pt.stmts() if e.node.get("k") == "mcall" and e.node.get("callee") == IMPL + "::teardownWaitOut"]
    fences = [e for e in pt.stmts() if e.node.get("k") == "mcall" and e.node.get("callee") == IMPL + "::setTeardownFence"]
    r.instance()
    ok = len(stops) == 1 and fences and elem_dominates(pt, fences[0], stops[0]) and search(pt, stops[0], "exit", stop=lambda x: x in tws, eh=False) is None and \
        search(pt, ("entry",), "exit", stop=lambda x: x in tws, eh=False) is None and not la.mutexes(pt, stops[0])
    r.expect(ok, pt, stops[0] if stops else None, "teardown order", "performTeardown does not do fence → engine stop (no lock held) → wait-out on every path", okdesc="performTeardown: fence, stop, wait-out")
    # ~Transport reaches a teardown on every path that has an engine
    dt = fb.func(TR + "::<dtor>")
    tds = [e for e in dt.stmts() if e.node.get("k") == "mcall" and e.node.get("callee") in (IMPL + "::performTeardown", IMPL + "::teardownWaitOut")]
    vocab = Vocab(["noengine"])

    def leaf(n):
        t = show(n).replace(" ", "")
        if n.get("k") == "un" and n["op"] == "!" and ("_impl" in t):
            return A("noengine")
        return None
    pa = PredAbs(dt, vocab, leaf, lambda e: None)
    r.instance()
    def has_engine_edge(b, si):
        # the edge on which `_impl` is null leaves the obligation (nothing to tear down)
        if b.cond is None or b.term["k"] not in ("IfStmt", "BinaryOperator"):
            return True
        c, st, sf = common.branch(b)
        return not (c is not None and c.get("k") != "bin" and "_impl" in show(c) and b.succs[si] == sf and st != sf)
    w = search(dt, ("entry",), "exit", stop=lambda x: x in tds, eh=False, edge_ok=has_engine_edge)
    r.expect(bool(tds) and w is None, dt, None, "destructor skips teardown", "~Transport can return without running the teardown handshake although an engine exists", witness=witness_str(dt, w),
             okdesc="~Transport: every path with an engine runs a teardown handshake")
    # a counted operation stays counted for as long as it can still call into the engine / Impl: no engine call after its guard died
    n_g = 0
    for f in fb.in_file(TFILE):
        if not f.ok or not f.name.startswith(TR + "::"):
            continue
        gd = [e for e in f.elems() if e.kind == "dtor" and e.raw.get("t", "").endswith(("ParkGuard", "FlushGuard"))]
        if not gd:
            continue
        ecalls = [e for e in f.stmts() if e.node.get("k") == "mcall" and "EngineBase" in e.node.get("callee", "") and any(x.get("k") == "member" and x["n"].endswith("::engine") for x in walk(e.node.get("obj") or {}))]
        for c in ecalls:
            # only calls made after the operation parked (reachable from a guard's construction)
            for g in gd:
                n_g += 1
                w = search(f, g, lambda x, c=c: x is c, eh=False)
                r.instance()
                r.expect(w is None, f, c, "engine call after the count was released", "%s calls %s after its %s was destroyed (%s): the caller is inside the engine but no longer counted by the teardown "
                         "handshake — a concurrent ~Transport can finish and free the engine and Impl under that call" % (short(f.name), show(c.node)[:40], last(g.raw.get("t", "guard")), witness_str(f, w)),
                         okdesc="%s: engine calls only while counted" % short(f.name))
    if n_g < 1:
        raise AnalysisBroken("no (guard, engine call) pair found in the counted Transport operations")


# ------------------------------------------------------------------ R5

def r5(ctx, r):
    fb, la = ctx.fb(), _la(ctx)
    for cls in (TCP, UDP):
        q, qc, qm = QUEUE[cls]
        sdr = fb.func(cls + "::shutdownDrain", file_suffix=FILES[cls])
        closed = [e for (e, n, k) in common.field_writes(sdr, cls + "::" + qc)]
        swaps = [e for e in sdr.stmts() if e.node.get("k") == "mcall" and last(e.node.get("callee", "")) == "swap" and cls + "::" + q in [field_of(a) for a in e.node["args"]] + [field_of(e.node.get("obj"))]]
        closes = [e for e in sdr.stmts() if e.node.get("k") == "call" and e.node.get("callee") == "close" and field_of(e.node["args"][0]) == cls + "::_eventFd"]
        r.instance()
        ok = len(closed) == 1 and len(swaps) == 1 and len(closes) == 1 and all(la.holds(sdr, x, cls + "::" + qm) for x in closed + swaps + closes) and \
            common.same_section(sdr, la, closed[0], swaps[0], cls + "::" + qm)[0] and common.same_section(sdr, la, closed[0], closes[0], cls + "::" + qm)[0]
        r.expect(ok, sdr, closed[0] if closed else None, "queue close not atomic", "%s::shutdownDrain does not set the closed flag, drain the residual commands and close the wake-up descriptor in one "
                 "critical section of %s: an enqueue can slip in between and its command (or its promise) is lost" % (last(cls), qm), okdesc="%s::shutdownDrain: closed=true, swap, close(_eventFd) in one %s section" % (last(cls), qm))
        # closed flag only set to true there, false only in start()
        for f in fb.in_file(FILES[cls]):
            if not f.ok:
                continue
            for (e, n, k) in common.field_writes(f, cls + "::" + qc):
                v = const_value(common.assigned_value(f, n) or {})
                r.instance()
                r.expect((v == 1 and last(f.name) == "shutdownDrain") or (v == 0 and last(f.name) == "start"), f, e, "closed flag written", "%s writes %s = %s" % (short(f.name), qc, v),
                         okdesc="%s: %s = %s" % (short(f.name), qc, v))
        for f in fb.funcs(cls + "::enqueue", FILES[cls]):
            tests = [b for b in f.blocks.values() if b.cond is not None and field_of(b.cond) == cls + "::" + qc]
            pushes = common.member_calls_on(f, cls + "::" + q, ("push_back", "emplace_back"))
            writes = [e for e in f.stmts() if e.node.get("k") == "call" and e.node.get("callee") == "write"]
            r.instance()
            ok = tests and pushes and writes and common.same_section(f, la, tests[0].elems[-1], pushes[0], cls + "::" + qm)[0] and common.same_section(f, la, pushes[0], writes[0], cls + "::" + qm)[0]
            r.expect(ok, f, pushes[0] if pushes else None, "enqueue not atomic", "closed test, push and wake-up write are not one critical section in %s" % short(f.name), okdesc="%s: test, push, wake-up in one section" % short(f.name))
        # promises
        pr = fb.func(cls + "::process", file_suffix=FILES[cls])
        sets = [e for e in pr.stmts() if e.node.get("k") == "mcall" and last(e.node.get("callee", "")) == "set_value"]
        adds = [e for e in pr.stmts() if e.node.get("k") == "mcall" and last(e.node.get("callee", "")) in ("doAddListener", "addListenerDo")]
        r.instance()
        ok = bool(adds) and len(sets) >= 2 and search(pr, adds[0], lambda x: x.kind == "stmt" and x.node.get("k") == "decl" and any(v["n"] == "c" for v in x.node["vars"]),
                                                     stop=lambda x: x in sets, eh=True, edge_ok=lambda b, si: not (b.cond is not None and "listenerReady" in show(b.cond) and b.edge_label(si) is False)) is None
        r.expect(ok, pr, adds[0] if adds else None, "promise not fulfilled", "%s::process can finish an AddListener command (normally or through the catch handler) without fulfilling its promise: "
                 "the synchronous addListener caller blocks for ever" % last(cls), okdesc="%s::process: addListener promise fulfilled on normal and exceptional paths" % last(cls))
        res = [e for e in sdr.stmts() if e.node.get("k") == "mcall" and last(e.node.get("callee", "")) == "set_value"]
        r.instance()
        r.expect(bool(res) and swaps and elem_dominates(sdr, swaps[0], res[0]) and not la.mutexes(sdr, res[0]) & {cls + "::" + qm}, sdr, res[0] if res else None, "residual promises",
                 "shutdownDrain does not fail the promises of commands left in the queue (outside the lock)", okdesc="%s::shutdownDrain fails residual promises outside the lock" % last(cls))
        # addListener: a refused enqueue is reported, never waited on
        al = fb.func(cls + "::addListener", file_suffix=FILES[cls])
        gets = [e for e in al.stmts() if e.node.get("k") == "mcall" and last(e.node.get("callee", "")) == "get" and "future" in e.node.get("callee", "")]
        enq = [e for e in al.stmts() if e.node.get("k") == "mcall" and e.node.get("callee") == cls + "::enqueue"]
        r.instance()
        vocab = Vocab(["enq_ok"])

        def leaf(n, cls=cls):
            if n.get("k") == "mcall" and n.get("callee") == cls + "::enqueue":
                return A("enq_ok")
            return None
        pa = PredAbs(al, vocab, leaf, lambda e: [("havoc", "enq_ok")] if e in enq else None)
        r.expect(bool(gets) and all(pa.entails(g, A("enq_ok")) for g in gets), al, gets[0] if gets else None, "future waited after refused enqueue",
                 "%s::addListener waits on the bind future although the command may not have been queued" % last(cls), okdesc="%s::addListener: fut.get() only after a successful enqueue" % last(cls))


# ------------------------------------------------------------------ R6

def r6(ctx, r):
    fb = ctx.fb()
    for name in ("stop", "addListener"):
        f = fb.func(TR + "::" + name, file_suffix=TFILE)
        r.instance()
        guards = [b for b in f.blocks.values() if b.cond is not None and "getIoThreadId" in show(b.cond)]
        throws = [e for e in f.stmts() if e.node.get("k") == "throw"]
        eng = [e for e in f.stmts() if e.node.get("k") == "mcall" and last(e.node.get("callee", "")) == name and "EngineBase" in e.node.get("callee", "")]
        ok = bool(guards and throws and eng)
        if ok:
            # the engine call is not reachable through the guard's true edge
            g = guards[-1]
            s = g.succs[0]
            ok = s is not None and search(f, ("block", s), lambda x: x in eng, eh=False) is None
        r.expect(ok, f, None, "%s: no I/O-thread guard" % name, "Transport::%s can reach the engine's blocking %s() from the I/O thread (self-join / self-wait)" % (name, name),
                 okdesc="Transport::%s throws on the I/O thread before calling the engine" % name)


    # the guards compare with getIoThreadId() = _loop.get_id(): the thread member must keep identifying the I/O thread for as long
    # as that thread can run callbacks — it is (re)assigned only by start(), given up only by join()/detach(), never moved away
    n_uses = 0
    for cls in (TCP, UDP):
        fld = cls + "::_loop"
        gid = [g for g in fb.funcs(cls + "::getIoThreadId") if g.ok]
        r.instance()
        r.expect(bool(gid) and any(x.get("k") == "mcall" and last(x.get("callee", "")) == "get_id" and field_of(x.get("obj")) == fld for x in gid[0].nodes.values()), gid[0] if gid else cls, None,
                 "%s: I/O thread id source" % last(cls), "%s::getIoThreadId no longer returns _loop.get_id()" % last(cls), okdesc="%s::getIoThreadId = _loop.get_id()" % last(cls))
        for g in fb.in_file(FILES[cls]):
            if not g.ok:
                continue
            for n in g.nodes.values():
                if n.get("k") != "member" or n.get("n") != fld:
                    continue
                n_uses += 1
                pid = g.parent.get(n["id"])
                par = g.nodes.get(pid, {}) if pid is not None else {}
                # look through implicit casts
                while par.get("k") == "cast" and g.parent.get(par["id"]) is not None:
                    par = g.nodes[g.parent[par["id"]]]
                owner = g.enclosing.name if g.kind == "lambda" and g.enclosing is not None else g.name
                if par.get("k") == "mcall" and par.get("obj") is not None and any(x is n for x in walk(par["obj"])):
                    m = last(par.get("callee", ""))
                    ok = m in ("joinable", "join", "get_id", "native_handle") or (m == "detach" and owner.endswith("detachForTermination"))
                    what = "_loop.%s()" % m
                elif par.get("k") == "opcall" and par.get("op") == "=" and par["args"][0] is n:
                    ok = owner.endswith("::start")
                    what = "assignment to _loop"
                else:
                    ok = False
                    what = "`%s`" % show(par)[:50]
                r.instance()
                r.expect(ok, g, g.elem_for(n), "%s: I/O thread handle given away" % last(cls), "%s uses the I/O thread handle as %s: once _loop no longer holds the running thread (moved to a local, swapped, reset) "
                         "getIoThreadId() returns the null id while that thread still runs callbacks — every I/O-thread guard (connectSync, sendSync, receiveSync, setReadMode, self-destruction) lets a blocking call "
                         "through on the I/O thread itself" % (short(g.name), what), okdesc="%s: %s" % (short(g.name), what))
    if n_uses < 8:
        raise AnalysisBroken("only %d uses of the engines' _loop members found" % n_uses)


    # every stop() caller — not only the one that wins the _running CAS — returns behind the I/O thread's end
    for cls in (TCP, UDP):
        st = fb.func(cls + "::stop", file_suffix=FILES[cls])
        common.stop_waits_for_worker(r, st, last(cls) + "::stop()", lambda e, cls=cls: field_of(e.node.get("obj")) == cls + "::_loop")


# ------------------------------------------------------------------ R7 (typestate)

def may_free_summary(ctx, cls):
    """function name -> set of parameter indexes whose Session* may be erased from the table"""
    fb = ctx.fb()
    summ = {cls + "::closeNow": {0}}
    changed = True
    while changed:
        changed = False
        for f in fb.in_file(FILES[cls]):
            if not f.ok or f.cls != cls or f.name == cls + "::closeNow":
                continue
            pidx = {p["n"]: i for i, p in enumerate(f.params) if p["t"].endswith("Session *")}
            if not pidx:
                continue
            for e in f.stmts():
                n = e.node
                if n.get("k") == "mcall" and n.get("callee") in summ:
                    for ai in summ[n["callee"]]:
                        if ai < len(n["args"]):
                            a = strip_wrappers(n["args"][ai])
                            if a.get("k") == "var" and a["n"] in pidx:
                                if pidx[a["n"]] not in summ.setdefault(f.name, set()):
                                    summ[f.name].add(pidx[a["n"]])
                                    changed = True
    return summ


def r7(ctx, r):
    fb = ctx.fb()
    for cls in (TCP, UDP):
        summ = may_free_summary(ctx, cls)
        ncalls = 0
        for f in fb.in_file(FILES[cls]):
            if not f.ok or not (f.cls == cls or f.name.startswith(cls + "::")):
                continue
            ptrs = {p["n"] for p in f.params if p["t"].endswith("Session *")}
            for e in f.stmts():
                if e.node.get("k") == "decl":
                    for v in e.node["vars"]:
                        if v["t"].endswith("Session *"):
                            ptrs.add(v["n"])
            if not ptrs:
                continue

            def transfer(st, e, f=f):
                if e.kind != "stmt":
                    return st
                n = e.node
                if n.get("k") == "mcall" and n.get("callee") in summ:
                    for ai in summ[n["callee"]]:
                        if ai < len(n["args"]):
                            a = strip_wrappers(n["args"][ai])
                            if a.get("k") == "var":
                                st = st | {a["n"]}
                            elif a.get("k") == "mcall" and last(a.get("callee", "")) == "get":
                                pass
                if n.get("k") == "bin" and n["op"] == "=" and n["lhs"].get("k") == "var" and n["lhs"]["n"] in st:
                    st = st - {n["lhs"]["n"]}
                if n.get("k") == "decl":
                    for v in n["vars"]:
                        if v["n"] in st:
                            st = st - {v["n"]}
                return st
            flow = Forward(f, frozenset(), transfer, lambda a, b: a | b, eh=False)
            for e in f.stmts():
                n = e.node
                if n.get("k") == "mcall" and n.get("callee") in summ:
                    ncalls += 1
                if "root" not in e.raw:
                    continue
                for x in walk(n):
                    xe = f.elem_for(x)
                    st = flow.before(xe) if xe is not None else None
                    if not st:
                        continue
                    if x.get("k") == "member" and x.get("arrow") and (x.get("b") or {}).get("k") == "var" and x["b"]["n"] in st and x["n"].startswith(cls + "::Session::"):
                        r.instance()
                        r.fail(f, e, "use after free of %s" % x["b"]["n"], "%s dereferences `%s->%s` after a call that may have closed and erased that session (%s) without looking it up again" % (
                            short(f.name), x["b"]["n"], last(x["n"]), ", ".join(sorted(last(k) for k in summ))))
                        break
                    if x.get("k") in ("mcall",) and x.get("callee") in summ:
                        for ai in summ[x["callee"]]:
                            if ai < len(x["args"]):
                                a = strip_wrappers(x["args"][ai])
                                if a.get("k") == "var" and a["n"] in st:
                                    r.instance()
                                    r.fail(f, e, "stale pointer passed on", "%s passes the possibly freed `%s` to %s" % (short(f.name), a["n"], last(x["callee"])))
        r.instance(ncalls)
        if ncalls < (25 if cls == TCP else 8):
            raise AnalysisBroken("%s: only %d may-free call sites seen" % (last(cls), ncalls))
        r.ok("%s: %d calls that may free a session; summaries: %s; no dereference of a stale Session*" % (last(cls), ncalls, {last(k): sorted(v) for k, v in summ.items()}))
    # ~Transport self-destruct branch: nothing after the hand-over touches this/_impl
    dt = fb.func(TR + "::<dtor>")
    rel = [e for e in dt.stmts() if e.node.get("k") == "mcall" and last(e.node.get("callee", "")) == "release"]
    det = [e for e in dt.stmts() if e.node.get("k") == "mcall" and last(e.node.get("callee", "")) == "detachForTermination"]
    sched = [e for e in dt.stmts() if e.node.get("k") == "mcall" and last(e.node.get("callee", "")) == "scheduleSelfDestruct"]
    r.instance()
    ok = len(rel) == 1 and sched and det and elem_dominates(dt, rel[0], sched[0]) and elem_dominates(dt, sched[0], det[-1])
    if ok:
        own = dt.root_elem(rel[0].node)
        w = search(dt, rel[0], lambda x: x.kind == "stmt" and "root" in x.raw and x is not own and any(y.get("k") == "member" and y["n"] == TR + "::_impl" for y in walk(x.node)), eh=False)
        ok = w is None
    r.expect(ok, dt, rel[0] if rel else None, "self-destruct order", "~Transport's I/O-thread branch does not release _impl, schedule the deferred delete, detach — in that order, touching _impl no more",
             okdesc="~Transport: release → scheduleSelfDestruct → detach, nothing after")
    r.instance()
    tw = [e for e in dt.stmts() if e.node.get("k") == "mcall" and e.node.get("callee") == IMPL + "::teardownWaitOut"]
    r.expect(tw and rel and all(elem_dominates(dt, t, rel[0]) for t in tw), dt, None, "self-destruct without wait-out", "the I/O-thread destruction path hands the Impl over without first waiting out parked callers",
             okdesc="~Transport: teardownWaitOut before the hand-over")


# ------------------------------------------------------------------ R8

def r8(ctx, r):
    fb = ctx.fb()
    for cls in (TCP, UDP):
        roots = thread_roots(ctx, cls)
        n = 0
        for f in fb.in_file(FILES[cls]):
            if not f.ok:
                continue
            for cb in ("onAccept", "onConnect", "onData", "onClose", "onError"):
                for e in cb_invocations(f, cb):
                    n += 1
                    r.instance()
                    rs = roots.get(f.sig) or {"?"}
                    ok, extra = io_confined(rs, cls)
                    if not ok and cb == "onError" and last(f.name) in ("enqueue", "err", "error"):
                        r.note("%s: onError from the caller's thread (documented: enqueue failure / start-up errors)" % short(f.name))
                        r.ok()
                        continue
                    r.expect(ok, f, e, "%s off the I/O thread" % cb, "%s invokes the %s callback but is reachable from %s: callbacks could run after stop() returned or concurrently with the I/O thread" % (
                        short(f.name), cb, ", ".join(sorted(extra))), okdesc="%s: %s only on the I/O thread" % (short(f.name), cb))
        if n < 15:
            raise AnalysisBroken("%s: %d engine callback invocations" % (last(cls), n))
        # stop() joins the I/O thread
        st = fb.func(cls + "::stop", file_suffix=FILES[cls])
        joins = [e for e in st.stmts() if e.node.get("k") == "mcall" and e.node.get("callee") == "std::thread::join"]
        enq = [e for e in st.stmts() if e.node.get("k") == "mcall" and e.node.get("callee") == cls + "::enqueue"]
        r.instance()
        r.expect(bool(joins) and bool(enq) and elem_dominates(st, enq[0], joins[0]), st, None, "stop does not join", "%s::stop() does not enqueue a shutdown and join the I/O thread" % last(cls),
                 okdesc="%s::stop: enqueue(shutdown) then join" % last(cls))


def r9(ctx, r):
    """The event dispatcher finds its target through a map fd -> Tag that holds RAW Session*/Listener* pointers.  Whoever closes
    a session's or listener's descriptor must drop that fd's tag on the same path: the objects are freed right after, the fd
    number is handed out again by the kernel (at the latest after a restart), and emplace() of the new tag does not replace
    a stale one — the next event on that number would be dispatched to freed memory."""
    fb = ctx.fb()
    nsites = 0
    for cls in ("iora::network::TcpEngine", "iora::network::UdpEngine"):
        rec = fb.record(cls)
        tagf = [x["n"] for x in rec["fields"] if "unordered_map<int" in x.get("t", "") and "Tag" in x.get("t", "")]
        if len(tagf) != 1:
            raise AnalysisBroken("%s: fd->Tag map not identified (%s)" % (short(cls), tagf))
        tagfield = cls + "::" + tagf[0]
        for f in fb.methods_of(cls):
            if not f.ok:
                continue
            inits = {}
            for e in f.stmts():
                if e.node.get("k") == "decl":
                    for dv in e.node["vars"]:
                        if dv.get("init") is not None:
                            inits[dv["d"]] = dv["init"]

            def owned_fd(a, inits=inits):
                a = strip_casts(a)
                if a is None:
                    return None
                if a.get("k") == "member" and a["n"] in (cls + "::Session::fd", cls + "::Listener::fd"):
                    return last(a["n"].rsplit("::", 1)[0])
                if a.get("k") == "var" and a.get("d") in inits:
                    return owned_fd(inits[a["d"]])
                return None
            removals = common.member_calls_on(f, tagfield, ("erase", "clear"))
            for e in f.stmts():
                n = e.node
                if n.get("k") == "call" and n.get("callee") == "close" and n.get("args"):
                    what = owned_fd(n["args"][0])
                    if what is None:
                        continue
                    nsites += 1
                    r.instance()
                    def edge_ok(b, si, tagfield=tagfield):
                        # "no tag for this fd" (find() == end()) is as good as a removal: nothing is left to dangle
                        c = strip_casts(b.cond) if b.cond is not None else None
                        if c is None or c.get("k") not in ("bin", "opcall") or c.get("op") not in ("==", "!="):
                            return True
                        if not any(x.get("k") == "mcall" and last(x.get("callee", "")) == "end" and field_of(x.get("obj")) == tagfield for x in walk(c)):
                            return True
                        notfound_edge = 0 if c["op"] == "==" else 1
                        return si != notfound_edge
                    w1 = search(f, ("entry",), lambda x, e=e: x is e, stop=lambda x: x in removals, eh=False, edge_ok=edge_ok)
                    w2 = search(f, e, "exit", stop=lambda x: x in removals, eh=False, edge_ok=edge_ok)
                    r.expect(w1 is None or w2 is None, f, e, "descriptor closed, tag kept", "%s closes a %s's descriptor (`%s`) on a path that never removes the fd's entry from %s (%s): the Tag keeps a raw pointer to "
                             "the %s that is freed next; when the kernel reuses the number (a restart is enough) emplace() keeps the stale tag and the new socket's events are dispatched to freed memory"
                             % (short(f.name), what, show(n), tagf[0], witness_str(f, w2) if w2 else "", what), okdesc="%s: %s fd closed together with its tag" % (short(f.name), what))
    if nsites < 6:
        raise AnalysisBroken("only %d closes of session/listener descriptors found, expected >= 6" % nsites)


def run(ctx, ck):
    ck.run_rule("C05-R1", "lock tables of the engines and the transport", "A1 guarded-by + A3 confinement", lambda r: r1(ctx, r))
    ck.run_rule("C05-R2", "lock-free engine state is I/O-thread confined", "A3 thread-root analysis", lambda r: r2(ctx, r))
    ck.run_rule("C05-R3", "locks are leaves; no callback under a lock; lock order acyclic", "A1", lambda r: r3(ctx, r))
    ck.run_rule("C05-R4", "teardown counts every parked caller", "A1 + A2 closed set", lambda r: r4(ctx, r))
    ck.run_rule("C05-R5", "command queue closes atomically; promises are always fulfilled", "A1 same-section + A2", lambda r: r5(ctx, r))
    ck.run_rule("C05-R6", "I/O-thread guards on stop/addListener", "A2", lambda r: r6(ctx, r))
    ck.run_rule("C05-R7", "no Session* use after a call that may free it; self-destruct hand-over order", "A4 typestate + A2", lambda r: r7(ctx, r))
    ck.run_rule("C05-R9", "closing a session/listener descriptor drops its fd->Tag entry (no dangling dispatch target)", "A2 pairing over the closed set of close() sites, sibling engines", lambda r: r9(ctx, r))
    ck.run_rule("C05-R8", "engine callbacks are invoked only on I/O-thread-confined paths; stop joins", "A3", lambda r: r8(ctx, r))
