"""C05 — Stopping or destroying a transport never strands, crashes or races (DESIGN.md §2 C05)."""
import re

from .. import access
from ..cfg import search, witness_str, elem_dominates, Forward
from ..expr import show, walk, last, field_of, strip_wrappers, strip_casts, strip_views, short, const_value, access_path
from ..facts import AnalysisBroken
from ..locks import LOCK_TYPES, mutex_id
from ..predabs import Vocab, PredAbs, A, Not, And, Or, T, F
from ..rules import common
from . import c03
from .c02 import cb_invocations, TCP, UDP, FILES

TITLE = "Stopping or destroying a transport never strands, crashes or races"
TECHNIQUE = 'custom static analysis over clang-14 CFG facts: must-lockset + lock-order table, thread-root confinement over the call graph, no-callback-under-lock summaries, may-free typestate for Session*'
IMPL, SYNC, SRB, SCO = c03.IMPL, c03.SYNC, c03.SRB, c03.SCO
TR = "iora::network::Transport"
TFILE = c03.FILE
QUEUE = {TCP: ("_cmds", "_cmdsClosed", "_cmdMutex"), UDP: ("_q", "_qClosed", "_qmx")}
CONFINED = {TCP: ("_fdTags", "_timerFd", "_epollFd", "_selfDestruct", "_sslSrv", "_sslCli"),
            UDP: ("_tags", "_peerIndex", "_timerFd", "_epollFd", "_selfDestruct")}
SYNC_LAMBDA_CALLEES = ("iora::network::EventBatchProcessor::processBatchWithSpecialFDs",)

EXPLANATION = (
    "Static obligations over both engines and the transport: R1 lock tables (command queue + closed flag + wake-up write under the queue "
    "mutex, callbacks under _cbMutex, session/listener maps mutated only under the unique and read off-thread only under the shared "
    "session lock, sticky error under its mutex, transport callback/observer/user-data tables under their mutexes); R2 state that the "
    "code keeps lock-free is touched only by functions every call chain to which starts at the I/O thread body, start() or the "
    "destructor (thread-root analysis over the call graph, escaping lambdas are roots of their own); R3 no engine/transport lock is "
    "acquired while another is held, no std::function is invoked under any of them, and the repository-wide lock-order graph is acyclic; "
    "R4 the condition variables of Transport::Impl are exactly the three known ones, every wait on a connect/receive cv is preceded by "
    "the matching ParkGuard(s), guards are created and destroyed under syncMutex, the flush is covered by a FlushGuard, teardown sets the "
    "fence before notifying and waits for all three counters; R5 closing the command queue, draining it and closing the wake-up "
    "descriptor are one critical section, as are test/push/wake-up in enqueue, and every queued promise is fulfilled on every path; R6 "
    "I/O-thread guards on stop/addListener, and every return of stop() is behind this caller's join of the I/O thread or a wait for the caller that is joining it "
    "(only a call on the I/O thread itself, or nothing to join, is let through); R7 no Session* is dereferenced after a call that may free it without a re-lookup (typestate), "
    "and ~Transport touches nothing after handing itself to the engine; R8 engine callbacks are invoked only on I/O-confined paths.")
# exempt from the function-inventory guard (report.py): these rules hold for, or look into, functions they have never seen
FOLLOWS_HELPERS = {"C05-R2": "thread-root analysis over the call graph: a new helper is a node of the graph, and every access to a confined field is judged in whichever function it stands",
                   "C05-R3": "universal per acquisition / std::function invocation in every function of the three files, with acquires-lock / invokes-callback summaries propagated over the call graph",
                   "C05-R6": "the guard, wait-for-the-joiner and marker clauses walk into helpers of the class (Deep.search over inlined paths); the _loop-handle clause judges every use of _loop wherever it stands",
                   "C05-R8": "thread-root analysis over the call graph for every callback invocation site; the caller-thread onError exemption and the enqueue-before-join clause follow helpers"}
NOT_DECIDED = ["absence of deadlock beyond lock-order acyclicity (the join-versus-callback ownership argument is about shared_ptr counts)",
               "'within a bounded time'", "data races on objects the tables do not list"]


def _la(ctx):
    return c03._la(ctx)


# ------------------------------------------------------------------ thread roots

def thread_roots(ctx, cls):
    """for every function of the engine: the set of roots (thread entry points / public API) that can reach it"""
    fb, cg = ctx.fb(), ctx.cg()
    cache = {}
    # thread bodies that are named functions: `std::thread(&Cls::body, this)` in S makes `body` what the lambda handed to
    # std::thread is elsewhere — the entry of a thread created by S (same root label as the lambda form)
    thread_entry = {}
    for s_ in fb.in_file(FILES[cls]):
        if not s_.ok:
            continue
        for n in s_.nodes.values():
            if n.get("k") == "ctor" and n.get("cls") == "std::thread" and n.get("args"):
                a = strip_wrappers(n["args"][0])
                while a is not None and a.get("k") == "un" and a.get("op") == "&":
                    a = strip_wrappers(a.get("v"))
                if a is not None and a.get("k") == "fref":
                    thread_entry.setdefault(a["n"], set()).add("λ[thread]@%s" % short(_top(s_).name))

    def is_sync_lambda(f):
        role = cg.lambda_role.get(f.name, {})
        if role.get("role") in ("cv_pred", "sync_arg", "immediate", "local"):
            return True
        return role.get("role") == "arg" and role.get("callee") in SYNC_LAMBDA_CALLEES

    def roots(name, seen):
        if name in cache:
            return cache[name]
        if name in seen:
            return set()
        seen = seen | {name}
        out = set()
        fs = fb.by_name.get(name, [])
        f = fs[0] if fs else None
        if f is not None and f.kind == "lambda":
            if is_sync_lambda(f) and f.enclosing is not None:
                out |= roots(f.enclosing.name, seen)
            else:
                role = cg.lambda_role.get(f.name, {})
                out.add(("λ[%s %s]@%s" % (role.get("role"), last(role.get("callee") or role.get("field") or ""), short(f.enclosing.name if f.enclosing else "?"))).replace(" ]", "]"))
            cache[name] = out
            return out
        callers = {g.name for (g, e, n) in cg.callers.get(name, [])}
        if f is not None and f.access == "public" and f.kind in ("method", "function") and f.cls == cls:
            # the engine's public API is where foreign threads enter: a root, and the climb stops here
            cache[name] = {short(name)}
            return cache[name]
        if f is not None and f.kind in ("ctor", "dtor"):
            out.add(short(name))
        out |= thread_entry.get(name, set())
        if not callers and not out:
            out.add(short(name))
        for c in callers:
            out |= roots(c, seen)
        cache[name] = out
        return out
    res = {}
    for f in fb.in_file(FILES[cls]):
        if f.ok:
            res[f.sig] = roots(f.name, frozenset())
    return res


def io_confined(roots, cls):
    c = last(cls)
    # start(): before the I/O thread exists; scheduleSelfDestruct/detachForTermination: documented (and asserted) to be
    # called on the I/O thread only, from the transport's self-destruction path
    ok = {"λ[thread]@%s::start" % c, "%s::start" % c, "%s::<ctor>" % c, "%s::<dtor>" % c, "%s::scheduleSelfDestruct" % c, "%s::detachForTermination" % c}
    return roots <= ok, roots - ok


# ------------------------------------------------------------------ following calls into helper functions of the same class

def _top(f):
    while f.enclosing is not None:
        f = f.enclosing
    return f


def _family(f):
    """the outermost named scope a function belongs to (`iora::network::TcpEngine` for TcpEngine::stop, for a lambda inside it and
    for the members of a struct local to it; `iora::network::Transport` for everything of Transport and Transport::Impl)"""
    t = _top(f)
    c = t.cls or t.name.rsplit("::", 1)[0]
    for root in (TCP, UDP, TR):
        if c == root or c.startswith(root + "::"):
            return root
    return c


class Deep:
    """An extracted helper must not change what a rule sees: where a rule asks 'on every path …' or 'which events does this
    function perform', calls to functions of the same class are entered (callee resolved by qualified name through fb.by_name;
    only non-virtual calls to functions that have a body; every overload of the name with the right number of parameters is
    entered, which is conservative for the 'no path …' questions asked here).  A position is (call stack, element); the
    lockset at a position is the callee's own (locks.py gives private helpers the intersection of their call sites) joined
    with what the call sites on the stack hold (a callee cannot release its caller's RAII lock; waits are looked at apart)."""
    MAXDEPTH = 4

    def __init__(self, ctx):
        self.fb, self.la = ctx.fb(), _la(ctx)
        self._callees = {}
        self._closure = {}

    def callees(self, e):
        if e.kind != "stmt":
            return ()
        return self.node_callees(e.fn, e.node)

    def node_callees(self, fn, n):
        """the helpers a call expression of function fn enters"""
        key = (id(fn), id(n))
        if key in self._callees:
            return self._callees[key]
        out = []
        k = n.get("k")
        name = None
        if k in ("call", "mcall") and not n.get("virt"):
            name = n.get("callee")
        elif k == "ctor":
            name = n.get("cls", "") + "::<ctor>"
        if name and not name.startswith("std::"):
            fam = _family(fn)
            nargs = len([a for a in n.get("args", []) if not a.get("def")])
            seen = set()
            for g in self.fb.by_name.get(name, []):
                if not g.ok or g.kind == "lambda" or (g.file, g.line) in seen or _family(g) != fam:
                    continue
                if len(g.params) < nargs:
                    continue
                seen.add((g.file, g.line))      # instantiations of one template body are interchangeable
                out.append(g)
        self._callees[key] = tuple(out)
        return self._callees[key]

    def closure(self, f):
        """f and every helper reachable from it through such calls (f first)"""
        if f.sig not in self._closure:
            out, work = [], [(f, 0)]
            while work:
                g, d = work.pop(0)
                if g in out:
                    continue
                out.append(g)
                if d < self.MAXDEPTH:
                    for e in g.stmts():
                        for c in self.callees(e):
                            work.append((c, d + 1))
            self._closure[f.sig] = out
        return self._closure[f.sig]

    def sites(self, f, pred):
        """[(function, element)] over f and its helpers for which pred(element) holds"""
        return [(g, e) for g in self.closure(f) for e in g.elems() if pred(e)]

    def has(self, f, pred):
        return any(pred(e) for g in self.closure(f) for e in g.elems())

    def relevant(self, top, pred):
        """enter-predicate for search(): the helpers of `top` that (through their own helpers) contain an element satisfying pred"""
        cl = self.closure(top)
        rel = {g.sig for g in cl if any(pred(e) for e in g.elems())}
        changed = True
        while changed:
            changed = False
            for g in cl:
                if g.sig not in rel and any(c.sig in rel for e in g.stmts() for c in self.callees(e)):
                    rel.add(g.sig)
                    changed = True
        return lambda g: g.sig in rel

    def nodes(self, f):
        """every expression node of f and of the helpers it calls (what a predicate 'reads' when it delegates to a named test)"""
        for g in self.closure(f):
            for n in g.nodes.values():
                yield g, n

    def held(self, stack, e, mutex):
        return self.la.holds(e.fn, e, mutex) or any(self.la.holds(c.fn, c, mutex) for c in stack)

    def mutexes(self, stack, e):
        out = set(self.la.mutexes(e.fn, e))
        for c in stack:
            out |= self.la.mutexes(c.fn, c)
        return out

    def stacks(self, f, g):
        """the call stacks (tuples of call elements, outermost first) through which helper g is entered from f"""
        if g is f:
            return [()]
        out = []

        def rec(cur, stack):
            if len(stack) >= self.MAXDEPTH:
                return
            for e in cur.stmts():
                for c in self.callees(e):
                    if c is g:
                        out.append(stack + (e,))
                    elif g in self.closure(c) and c is not cur:
                        rec(c, stack + (e,))
        rec(f, ())
        return out

    def search(self, f, start, goal, stop=None, edge_ok=None, enter=None):
        """cfg.search (normal edges only) that walks into helpers: start is ('entry',), an element of f, or (stack, element);
        goal is 'exit' (f's own normal exit) or goal(e, stack); stop(e, stack) cuts a path at e; enter(g) selects the helpers
        worth entering (default: all).  A call element is tested by goal/stop first, then entered.  Returns None or the witness as
        a list of (stack, element-or-None, block)."""
        from collections import deque
        if isinstance(start, tuple) and start and start[0] == "entry":
            q0 = ((), f, f.entry, 0)
        elif isinstance(start, tuple) and start and start[0] == "block":      # ("block", stack, function, block id)
            q0 = (tuple(start[1]), start[2], start[3], 0)
        elif isinstance(start, tuple):
            stack, se = start
            q0 = (tuple(stack), se.fn, se.block.id, se.idx + 1)
        else:
            q0 = ((), start.fn, start.block.id, start.idx + 1)
        seen = {q0: None}
        dq = deque([q0])

        def back(pos, e):
            path, cur = [], pos
            while cur is not None:
                path.append(cur)
                cur = seen[cur]
            path.reverse()
            return [(p[0], p[1], p[2]) for p in path] + [e]

        def push(np, pos):
            if np not in seen:
                seen[np] = pos
                dq.append(np)
        while dq:
            pos = dq.popleft()
            stack, g, bid, idx = pos
            b = g.blocks[bid]
            cut = False
            for e in b.elems[idx:]:
                if goal != "exit" and goal(e, stack):
                    return back(pos, e)
                if stop is not None and stop(e, stack):
                    cut = True
                    break
                cs = [c for c in self.callees(e) if (enter is None or enter(c)) and c is not g and all(c is not x.fn for x in stack)] if len(stack) < self.MAXDEPTH else []
                if cs:
                    for c in cs:
                        push((stack + (e,), c, c.entry, 0), pos)
                    cut = True          # the path continues when the callee returns
                    break
                if e.kind == "stmt" and e.node.get("k") == "throw" and "root" in e.raw:
                    cut = True
                    break
            if cut or b.raw.get("noreturn"):
                continue
            if bid == g.exit:
                if stack:
                    ce = stack[-1]
                    push((stack[:-1], ce.fn, ce.block.id, ce.idx + 1), pos)
                elif goal == "exit":
                    return back(pos, None)
                continue
            for si, s in enumerate(b.succs):
                if s is None or (edge_ok is not None and not edge_ok(b, si)):
                    continue
                push((stack, g, s, 0), pos)
        return None

    def same_section(self, top, a, b, mutex):
        """common.same_section over the inlined paths of `top`: the mutex is held continuously on every path between the events
        a = (function, element) and b, in whichever order they come; a wait in between splits the section.  (True, None) or
        (False, why)."""
        for (p1, p2) in ((a, b), (b, a)):
            (g1, e1), (g2, e2) = p1, p2
            enter = self.relevant(top, lambda e: e is e2 or _is_cv_wait(e))
            starts = [s1 for s1 in self.stacks(top, g1) if self.search(top, (s1, e1), lambda e, s: e is e2, enter=enter) is not None]
            if not starts:
                continue
            cache = {}

            def reaches(e, s):
                k = (s, id(e))
                if k not in cache:
                    cache[k] = self.search(top, (s, e), lambda x, s2: x is e2, enter=enter) is not None
                return cache[k]
            for s1 in starts:
                if not self.held(s1, e1, mutex) and not (e1.kind == "stmt" and e1.node.get("k") == "decl"):
                    return False, "lock not held at the first event"
                w = self.search(top, (s1, e1), lambda e, s: (not self.held(s, e, mutex) or _is_cv_wait(e)) and (e is e2 or reaches(e, s)), stop=lambda e, s: e is e2, enter=enter)
                if w is not None:
                    return False, self.witness(w)
            return True, None
        return False, "no path between the two events"

    def only_within(self, cg, f, top, _seen=None):
        """f is `top` or a helper that runs only as part of `top` (every caller is top or such a helper)"""
        if f is top:
            return True
        _seen = _seen or set()
        if f.sig in _seen or not any(f is g for g in self.closure(top)):
            return False
        callers = [g for (g, e, n) in cg.callers.get(f.name, [])]
        return bool(callers) and all(self.only_within(cg, _top(g), top, _seen | {f.sig}) for g in callers)

    @staticmethod
    def witness(w):
        if not w:
            return ""
        out = []
        for (stack, g, bid) in w[:-1]:
            b = g.blocks[bid]
            ln = next((e.line for e in b.elems if e.line), None) or (b.term or {}).get("l")
            p = "%s:B%d%s" % (last(g.name), bid, "@%d" % ln if ln else "")
            if not out or out[-1] != p:
                out.append(p)
        if len(out) > 12:
            out = out[:5] + ["…"] + out[-6:]
        return "→".join(out)


def _deep(ctx):
    key = "_c05_deep_" + ctx.config
    if not hasattr(ctx, key):
        setattr(ctx, key, Deep(ctx))
    return getattr(ctx, key)


# ------------------------------------------------------------------ R1

def r1(ctx, r):
    fb, la = ctx.fb(), _la(ctx)
    for cls in (TCP, UDP):
        q, qc, qm = QUEUE[cls]
        file_ = [FILES[cls]]
        common.guarded_by(r, fb, la, cls + "::" + q, cls + "::" + qm, files=file_)
        common.guarded_by(r, fb, la, cls + "::" + qc, cls + "::" + qm, files=file_)
        common.guarded_by(r, fb, la, cls + "::_cbs", cls + "::_cbMutex", files=file_)
        roots = thread_roots(ctx, cls)

        def confined(f, roots=roots, cls=cls):
            rs = roots.get(f.sig)
            if rs is None and f.enclosing is not None:
                rs = roots.get(f.enclosing.sig)
            ok, extra = io_confined(rs or {"?"}, cls)
            return "I/O-thread confined" if ok else None
        for fld in ("_sessions", "_listeners"):
            common.guarded_by(r, fb, la, cls + "::" + fld, cls + "::_sessionRwMutex", mode_for_write="x", mode_for_read="s", confined=confined, files=file_,
                              exempt={UDP + "::readFromListener": "`_sessions[sid]` is a lookup: C06-R6 proves every indexed id is in the table, so operator[] never inserts"}
                              if (cls == UDP and fld == "_sessions") else None)
        # the wake-up write happens under the queue mutex (serialised with the close in shutdownDrain) — every ::write to the eventfd,
        # in whichever function of the engine it stands (a private helper inherits the lockset of its call sites, locks.py)
        nwake = 0
        for f in fb.in_file(FILES[cls]):
            if not f.ok:
                continue
            for e in f.stmts():
                if e.node.get("k") == "call" and e.node.get("callee") == "write" and e.node.get("args") and field_of(e.node["args"][0]) == cls + "::_eventFd":
                    nwake += 1
                    r.instance()
                    r.expect(la.holds(f, e, cls + "::" + qm), f, e, "wake-up write unlocked", "the eventfd wake-up write is not under the queue mutex: it can hit a descriptor "
                             "that shutdownDrain has closed (and the kernel may have reused)", okdesc="%s: ::write(_eventFd) under %s" % (short(f.name), qm))
        if not nwake:
            raise AnalysisBroken("%s: no ::write to the wake-up descriptor found" % last(cls))
    common.guarded_by(r, fb, la, TCP + "::_lastFatal", TCP + "::_fatalMx", files=[FILES[TCP]])
    for fld in ("onAcceptCb", "onConnectCb", "onDataCb", "onCloseCb", "onErrorCb"):
        common.guarded_by(r, fb, la, IMPL + "::" + fld, IMPL + "::callbackMutex", files=[TFILE])
    for fld in ("observers", "observerToSession"):
        common.guarded_by(r, fb, la, IMPL + "::" + fld, IMPL + "::observerMutex", files=[TFILE])
    common.guarded_by(r, fb, la, IMPL + "::sessionData", IMPL + "::userDataMutex", files=[TFILE])
    r.floor(120, "guarded access sites")


# ------------------------------------------------------------------ R2

def r2(ctx, r):
    fb = ctx.fb()
    for cls in (TCP, UDP):
        roots = thread_roots(ctx, cls)
        for fld in CONFINED[cls]:
            for (f, e, n, kind) in access.accesses(fb, cls + "::" + fld, [FILES[cls]]):
                if e is None:
                    continue
                r.instance()
                rs = roots.get(f.sig) or (roots.get(f.enclosing.sig) if f.enclosing is not None else None) or {"?"}
                ok, extra = io_confined(rs, cls)
                r.expect(ok, f, e, "%s touched off the I/O thread" % fld,
                         "%s %s %s, which is kept without a lock because only the I/O thread may touch it, but %s is reachable from %s" % (
                             short(f.name), "writes" if kind != "read" else "reads", fld, short(f.name), ", ".join(sorted(extra))),
                         okdesc="%s: %s only on I/O-confined paths" % (short(f.name), fld))
    r.floor(60, "accesses to I/O-thread-confined state")


# ------------------------------------------------------------------ R3

ENGINE_LOCKS = {TCP + "::_cmdMutex", TCP + "::_cbMutex", TCP + "::_sessionRwMutex", TCP + "::_fatalMx",
                UDP + "::_qmx", UDP + "::_cbMutex", UDP + "::_sessionRwMutex", UDP + "::_errMutex",
                SYNC, IMPL + "::callbackMutex", IMPL + "::observerMutex", IMPL + "::userDataMutex"}


def lock_acquisitions(f, la):
    """(elem, mutex id) for every acquisition in f"""
    fl = la.fn(f)
    out = []
    for e in f.stmts():
        n = e.node
        if n.get("k") == "decl":
            for v in n["vars"]:
                lv = fl.lockvars.get(v["d"])
                if lv and not lv[2]:
                    for m in lv[0]:
                        out.append((e, m))
        if n.get("k") == "mcall" and n.get("callee") in ("std::unique_lock::lock", "std::shared_lock::lock"):
            o = strip_wrappers(n.get("obj"))
            if o is not None and o.get("k") == "var" and o.get("d") in fl.lockvars:
                for m in fl.lockvars[o["d"]][0]:
                    out.append((e, m))
        if n.get("k") == "mcall" and n.get("callee") in ("std::mutex::lock", "std::shared_mutex::lock", "std::shared_mutex::lock_shared"):
            m = mutex_id(n.get("obj"), la.aliases)
            if m:
                out.append((e, m))
    return out


def r3(ctx, r):
    fb, la = ctx.fb(), _la(ctx)
    edges = {}
    nacq = 0
    for f in fb.functions:
        if not f.ok or not f.file.startswith(("/")):
            continue
        if "/include/iora/" not in f.file:
            continue
        for (e, m) in lock_acquisitions(f, la):
            held = la.mutexes(f, e)
            for h in held:
                if h != m:
                    edges.setdefault((h, m), []).append((f, e))
            if m in ENGINE_LOCKS:
                nacq += 1
                r.instance()
                other = {h for h in held if h in ENGINE_LOCKS and h != m}
                r.expect(not other, f, e, "nested engine lock", "%s acquires %s while holding %s: the engine/transport locks are documented leaves (at most one at a time)" % (
                    short(f.name), last(m), ",".join(last(x) for x in other)), okdesc="%s takes %s with no other engine lock held" % (short(f.name), last(m)))
    if nacq < 80:
        raise AnalysisBroken("only %d engine/transport lock acquisitions seen" % nacq)
    # interprocedural: a call made with an engine lock held must not reach another acquisition or a callback
    cg = ctx.cg()
    acq, inv = {}, {}
    scope = [f for f in fb.functions if f.ok and f.file.endswith((FILES[TCP], FILES[UDP], TFILE))]
    # elements inside catch handlers are left out of the summaries: the only handlers on these paths report allocation
    # failures of the queue push through onError (DESIGN 1.3 A9: bad_alloc from ordinary growth is out of scope)
    for f in scope:
        acq[f.name] = acq.get(f.name, set()) | {m for (e, m) in lock_acquisitions(f, la) if m in ENGINE_LOCKS and not e.catch_id}
        inv[f.name] = inv.get(f.name, False) or any(not e.catch_id for (e, t) in common.fn_invocations(f))
    changed = True
    while changed:
        changed = False
        for f in scope:
            for (e, n, c) in cg.callees_of(f):
                if e.catch_id:
                    continue
                if c in acq and not acq[c] <= acq[f.name]:
                    acq[f.name] |= acq[c]
                    changed = True
                if inv.get(c) and not inv[f.name]:
                    inv[f.name] = True
                    changed = True
    for f in scope:
        for (e, n, c) in cg.callees_of(f):
            if c not in acq:
                continue
            held = la.mutexes(f, e) & ENGINE_LOCKS
            if not held:
                continue
            r.instance()
            more = acq[c] - held
            # documented order (transport_impl.hpp, connectSync): syncMutex → the engine's command-queue mutex, taken by
            # connect()'s enqueue only; nothing under the queue mutex ever takes syncMutex (checked by the acyclicity test below)
            if held == {SYNC} and last(c) == "connect" and more <= {TCP + "::_cmdMutex", UDP + "::_qmx"} and not inv.get(c):
                r.note("%s → %s under syncMutex takes only the command-queue mutex (documented order)" % (short(f.name), short(c)))
                r.ok()
                continue
            r.expect(not more and not inv.get(c), f, e, "call under lock reaches lock/callback",
                     "%s calls %s while holding %s, and that call %s: the engine/transport locks are leaves" % (
                         short(f.name), short(c), ",".join(last(x) for x in held),
                         ("acquires " + ",".join(last(x) for x in more)) if more else "can invoke a user callback"),
                     okdesc="%s → %s under %s takes no further lock" % (short(f.name), short(c), ",".join(last(x) for x in held)))
    # callbacks outside locks
    scope_files = (FILES[TCP], FILES[UDP], TFILE)
    ninv = 0
    for f in fb.functions:
        if not f.ok or not f.file.endswith(scope_files):
            continue
        for (e, tgt) in common.fn_invocations(f):
            ninv += 1
            r.instance()
            held = la.mutexes(f, e) & ENGINE_LOCKS
            r.expect(not held, f, e, "callback under lock", "%s invokes the std::function `%s` while holding %s: a callback that re-enters the transport deadlocks" % (
                short(f.name), show(tgt), ",".join(last(x) for x in held)), okdesc="%s invokes %s lock-free" % (short(f.name), show(tgt)))
    if ninv < 40:
        raise AnalysisBroken("only %d std::function invocations seen in the transport layer" % ninv)
    # repository-wide lock order is acyclic
    graph = {}
    for (a, b) in edges:
        graph.setdefault(a, set()).add(b)
    r.instance()
    cyc = _find_cycle(graph)
    if cyc:
        f, e = edges[(cyc[0], cyc[1])][0]
        r.fail(f, e, "lock-order cycle", "lock order cycle: %s" % " → ".join(last(x) for x in cyc + [cyc[0]]))
    else:
        r.ok("lock-order graph: %d edges, acyclic (%s)" % (len(edges), "; ".join("%s→%s" % (last(a), last(b)) for (a, b) in sorted(edges)[:8])))


def _find_cycle(g):
    color = {}
    stack = []

    def dfs(u):
        color[u] = 1
        stack.append(u)
        for v in g.get(u, ()):
            if color.get(v) == 1:
                return stack[stack.index(v):]
            if color.get(v) is None:
                c = dfs(v)
                if c:
                    return c
        color[u] = 2
        stack.pop()
        return None
    for u in list(g):
        if color.get(u) is None:
            c = dfs(u)
            if c:
                return c
    return None


# ------------------------------------------------------------------ R4

def r4(ctx, r):
    fb, la = ctx.fb(), _la(ctx)
    # closed set of condition variables
    cvs = set()
    for name, recs in fb.records.items():
        if name == IMPL or name.startswith(IMPL + "::"):
            for fld in recs[0]["fields"]:
                if fld["t"].startswith("std::condition_variable") and not fld["t"].rstrip().endswith("&"):
                    cvs.add(name + "::" + fld["n"])
    r.instance()
    known = {SCO + "::cv", SRB + "::cv", IMPL + "::teardownCv"}
    r.expect(cvs == known, IMPL, None, "new condition variable", "Transport::Impl has condition variables %s; the teardown handshake only knows %s — a new parker class is not waited out" % (
        sorted(last(x) for x in cvs - known) or sorted(cvs), sorted(last(x) for x in known)), okdesc="condition variables of Impl = {connect cv, receive cv, teardownCv}")
    counters = {SCO + "::cv": ["activeConnects"], SRB + "::cv": ["waiters", "activeReceives"]}
    nw = 0
    for f in fb.in_file(TFILE):
        if not f.ok:
            continue
        for e in f.stmts():
            n = e.node
            if n.get("k") == "mcall" and n.get("callee", "").startswith("std::condition_variable") and last(n["callee"]) in common.CV_WAIT:
                cv = field_of(n.get("obj"))
                if cv not in counters:
                    continue
                nw += 1
                guards = [(g, v) for g in f.stmts() if g.node.get("k") == "decl" for v in g.node["vars"] if v["t"].endswith("ParkGuard")]
                for cnt in counters[cv]:
                    r.instance()
                    ok = any(elem_dominates(f, g, e) and cnt in show(v.get("init") or {}) and la.holds(f, g, SYNC) and common.same_section(f, la, g, e, SYNC)[0] for (g, v) in guards)
                    r.expect(ok, f, e, "wait without ParkGuard(%s)" % cnt, "%s parks on %s without a ParkGuard on %s constructed under syncMutex before the wait: teardown can destroy "
                             "the transport under this caller" % (short(f.name), last(cv), cnt), okdesc="%s: ParkGuard(%s) before wait on %s" % (short(f.name), cnt, last(cv)))
    if nw < 2:
        raise AnalysisBroken("expected waits on the connect and receive condition variables, found %d" % nw)
    # guards are created and destroyed under the lock (precondition used by C03-R1)
    for f in fb.in_file(TFILE):
        if not f.ok:
            continue
        for e in f.elems():
            if e.kind == "stmt" and e.node.get("k") == "decl" and any(v["t"].endswith("ParkGuard") for v in e.node["vars"]):
                r.instance()
                r.expect(la.holds(f, e, SYNC), f, e, "ParkGuard created unlocked", "ParkGuard constructed without syncMutex", okdesc="ParkGuard ctor under syncMutex (%s)" % short(f.name))
            if e.kind == "dtor" and e.raw.get("t", "").endswith("ParkGuard"):
                r.instance()
                r.expect(la.holds(f, e, SYNC), f, e, "ParkGuard destroyed unlocked", "a ParkGuard is destroyed (counter decrement + teardown notify) without syncMutex held",
                         okdesc="~ParkGuard under syncMutex (%s line %s)" % (short(f.name), e.line))
            # (constructed by make_unique, directly, or in place in a holder: `std::optional<FlushGuard>::emplace(...)`)
            if e.kind == "stmt" and ((e.node.get("k") == "call" and e.node.get("callee") == "std::make_unique" and "FlushGuard" in e.node.get("t", "")) or
                                     (e.node.get("k") == "ctor" and e.node.get("cls", "").endswith("FlushGuard")) or
                                     (e.node.get("k") == "mcall" and last(e.node.get("callee", "")) == "emplace" and "FlushGuard" in ((strip_wrappers(e.node.get("obj")) or {}).get("t", "")))):
                r.instance()
                r.expect(la.holds(f, e, SYNC), f, e, "FlushGuard created unlocked", "FlushGuard constructed without syncMutex", okdesc="FlushGuard ctor under syncMutex")
    # FlushGuard's destructor takes the lock itself before touching the counters
    fgd = fb.func(IMPL + "::FlushGuard::<dtor>")
    for (e, n, k) in common.field_writes(fgd, IMPL + "::FlushGuard::activeFlushes") + common.field_writes(fgd, SRB + "::flushing"):
        r.instance()
        r.expect(la.holds(fgd, e, SYNC), fgd, e, "~FlushGuard unlocked", "~FlushGuard updates teardown state without taking the mutex", okdesc="~FlushGuard locks before clearing")
    # every notify on teardownCv holds syncMutex: once a counter is seen zero under the lock nothing keeps Impl alive, so a
    # notifier that has released the lock may signal a destroyed condition variable
    # (the guards signal it through a reference member: which members name teardownCv is read off the constructors — the member is
    # initialised from parameter i, and every construction site in the file passes Impl::teardownCv there — not off the member's name)
    tcv = {IMPL + "::teardownCv"}
    for name, recs in fb.records.items():
        if not name.startswith(IMPL + "::"):
            continue
        for fld in recs[0]["fields"]:
            if not (fld["t"].startswith("std::condition_variable") and fld["t"].rstrip().endswith("&")):
                continue
            pidx = {x.raw["v"].get("parm") for c in fb.by_name.get(name + "::<ctor>", []) if c.ok for x in c.elems()
                    if x.kind == "init" and x.raw.get("field") == name + "::" + fld["n"] and isinstance(x.raw.get("v"), dict) and x.raw["v"].get("k") == "var"}
            if len(pidx) != 1 or None in pidx:
                continue
            i = next(iter(pidx))
            bound = []
            for f in fb.in_file(TFILE):
                if not f.ok:
                    continue
                for n in f.nodes.values():
                    if (n.get("k") == "ctor" and n.get("cls") == name and not n.get("copy")) or (n.get("k") == "call" and n.get("callee") == "std::make_unique" and last(name) in n.get("t", "")) or \
                            (n.get("k") == "mcall" and last(n.get("callee", "")) == "emplace" and last(name) in ((strip_wrappers(n.get("obj")) or {}).get("t", ""))):
                        args = [a for a in n.get("args", []) if not a.get("def")]
                        bound.append(field_of(args[i]) if i < len(args) else None)
            if bound and all(b == IMPL + "::teardownCv" for b in bound):
                tcv.add(name + "::" + fld["n"])
            elif bound and any(b == IMPL + "::teardownCv" for b in bound):
                raise AnalysisBroken("%s::%s is bound to teardownCv at some construction sites and to something else at others" % (short(name), fld["n"]))
    nn = 0
    for f in fb.in_file(TFILE):
        if not f.ok:
            continue
        for e in f.stmts():
            n = e.node
            if n.get("k") == "mcall" and last(n.get("callee", "")) in ("notify_one", "notify_all") and field_of(n.get("obj")) in tcv:
                nn += 1
                r.instance()
                r.expect(la.holds(f, e, SYNC), f, e, "teardown notify outside lock", "%s signals teardownCv after releasing syncMutex: the teardown thread can already have seen the counters at zero "
                         "and destroyed the Impl (and this condition variable)" % short(f.name), okdesc="%s: teardownCv notified under syncMutex" % short(f.name))
    if nn < 2:
        raise AnalysisBroken("expected teardownCv notifications in ~ParkGuard and ~FlushGuard, found %d" % nn)
    # a guard's destructor touches nothing of Impl after its critical section ends
    for gname in ("FlushGuard",):
        gd = fb.func(IMPL + "::" + gname + "::<dtor>")
        for e in gd.stmts():
            if "root" in e.raw and e.node.get("k") != "decl" and any(x.get("k") == "member" and x["n"].startswith(IMPL + "::" + gname + "::") for x in walk(e.node)):
                r.instance()
                r.expect(la.holds(gd, e, SYNC), gd, e, "guard epilogue outside lock", "~%s touches transport state (`%s`) outside its critical section" % (gname, show(e.node)[:60]),
                         okdesc="~%s: `%s` under the lock" % (gname, show(e.node)[:40]))
    # teardownWaitOut: fence before notify, waits for all three counters
    # (the fence, the wake-ups and the gate predicate may live in helpers of Impl that teardownWaitOut calls under its lock: the
    # events are collected over teardownWaitOut and those helpers, the order is a must-pass-through over the inlined paths)
    dp = _deep(ctx)
    tw = fb.func(IMPL + "::teardownWaitOut")
    sets = set()
    for g in dp.closure(tw):
        for (e, n, k) in common.field_writes(g, IMPL + "::shuttingDown"):
            sets.add(id(e))
            r.instance()
            r.expect(const_value(common.assigned_value(g, n) or {}) == 1 and all(dp.held(s, e, SYNC) for s in dp.stacks(tw, g)), g, e, "fence after notify",
                     "%s (teardown wait-out) writes shuttingDown, but not `= true` under syncMutex" % short(g.name), okdesc="%s: shuttingDown = true under syncMutex" % short(g.name))
    is_wake = lambda e: e.kind == "stmt" and e.node.get("k") == "mcall" and last(e.node.get("callee", "")) in ("notify_all", "notify_one") and field_of(e.node.get("obj")) != IMPL + "::teardownCv"
    r.instance()
    w = dp.search(tw, ("entry",), lambda e, s: is_wake(e) or _is_cv_wait(e), stop=lambda e, s: id(e) in sets, enter=dp.relevant(tw, lambda e: is_wake(e) or _is_cv_wait(e) or id(e) in sets))
    r.expect(bool(sets) and dp.has(tw, is_wake) and w is None, tw, w[-1] if w else None, "fence after notify",
             "teardownWaitOut does not set shuttingDown (under syncMutex) before it wakes the parked callers%s: a woken caller re-parks" % ((" (" + Deep.witness(w) + ")") if w else ""),
             okdesc="teardownWaitOut: shuttingDown = true before notify")
    waits = common.cv_waits(fb, lambda f: any(f is g for g in dp.closure(tw)))
    r.instance()
    if len(waits) != 1 or waits[0]["pred"] is None or waits[0]["cv"] != IMPL + "::teardownCv":
        r.fail(tw, None, "teardown wait", "teardownWaitOut no longer waits on teardownCv with a predicate")
    else:
        # what the gate reads, a named test it delegates to (`return noParkedCallers();`) included
        flds = {last(n["n"]) for (g, n) in dp.nodes(waits[0]["pred"]) if n.get("k") == "member"}
        r.expect({"activeReceives", "activeConnects", "activeFlushes"} <= flds, tw, waits[0]["e"], "teardown gate incomplete",
                 "the teardown wait predicate reads %s; it must wait for activeReceives, activeConnects and activeFlushes" % sorted(flds), okdesc="teardown waits for all three counters")
    # performTeardown: fence → stop → wait
    pt = fb.func(IMPL + "::performTeardown")
    stops = [e for e in pt.stmts() if e.node.get("k") == "mcall" and last(e.node.get("callee", "")) == "stop"]
    tws = [e for e in pt.stmts() if e.node.get("k") == "mcall" and e.node.get("callee") == IMPL + "::teardownWaitOut"]
    fences = [e for e in pt.stmts() if e.node.get("k") == "mcall" and e.node.get("callee") == IMPL + "::setTeardownFence"]
    r.instance()
    ok = len(stops) == 1 and fences and elem_dominates(pt, fences[0], stops[0]) and search(pt, stops[0], "exit", stop=lambda x: x in tws, eh=False) is None and \
        search(pt, ("entry",), "exit", stop=lambda x: x in tws, eh=False) is None and not la.mutexes(pt, stops[0])
    r.expect(ok, pt, stops[0] if stops else None, "teardown order", "performTeardown does not do fence → engine stop (no lock held) → wait-out on every path", okdesc="performTeardown: fence, stop, wait-out")
    # ~Transport reaches a teardown on every path that has an engine
    dt = fb.func(TR + "::<dtor>")
    tds = [e for e in dt.stmts() if e.node.get("k") == "mcall" and e.node.get("callee") in (IMPL + "::performTeardown", IMPL + "::teardownWaitOut")]
    vocab = Vocab(["noengine"])

    def leaf(n):
        t = show(n).replace(" ", "")
        if n.get("k") == "un" and n["op"] == "!" and ("_impl" in t):
            return A("noengine")
        return None
    pa = PredAbs(dt, vocab, leaf, lambda e: None)
    r.instance()
    def has_engine_edge(b, si):
        # the edge on which `_impl` is null leaves the obligation (nothing to tear down)
        if b.cond is None or b.term["k"] not in ("IfStmt", "BinaryOperator"):
            return True
        c, st, sf = common.branch(b)
        return not (c is not None and c.get("k") != "bin" and "_impl" in show(c) and b.succs[si] == sf and st != sf)
    w = search(dt, ("entry",), "exit", stop=lambda x: x in tds, eh=False, edge_ok=has_engine_edge)
    r.expect(bool(tds) and w is None, dt, None, "destructor skips teardown", "~Transport can return without running the teardown handshake although an engine exists", witness=witness_str(dt, w),
             okdesc="~Transport: every path with an engine runs a teardown handshake")
    # a counted operation stays counted for as long as it can still call into the engine / Impl: no engine call after its guard died
    n_g = 0
    for f in fb.in_file(TFILE):
        if not f.ok or not f.name.startswith(TR + "::"):
            continue
        gd = [e for e in f.elems() if e.kind == "dtor" and e.raw.get("t", "").endswith(("ParkGuard", "FlushGuard"))]
        if not gd:
            continue
        ecalls = [e for e in f.stmts() if e.node.get("k") == "mcall" and "EngineBase" in e.node.get("callee", "") and any(x.get("k") == "member" and x["n"].endswith("::engine") for x in walk(e.node.get("obj") or {}))]
        for c in ecalls:
            # only calls made after the operation parked (reachable from a guard's construction)
            for g in gd:
                n_g += 1
                w = search(f, g, lambda x, c=c: x is c, eh=False)
                r.instance()
                r.expect(w is None, f, c, "engine call after the count was released", "%s calls %s after its %s was destroyed (%s): the caller is inside the engine but no longer counted by the teardown "
                         "handshake — a concurrent ~Transport can finish and free the engine and Impl under that call" % (short(f.name), show(c.node)[:40], last(g.raw.get("t", "guard")), witness_str(f, w)),
                         okdesc="%s: engine calls only while counted" % short(f.name))
    if n_g < 1:
        raise AnalysisBroken("no (guard, engine call) pair found in the counted Transport operations")


# ------------------------------------------------------------------ R5

def r5(ctx, r):
    fb, la, dp, cg = ctx.fb(), _la(ctx), _deep(ctx), ctx.cg()
    for cls in (TCP, UDP):
        q, qc, qm = QUEUE[cls]
        QM = cls + "::" + qm
        sdr = fb.func(cls + "::shutdownDrain", file_suffix=FILES[cls])
        # the three events of the close, in shutdownDrain itself or in a helper it calls (events are (function, element) pairs;
        # 'under the mutex' and 'one critical section' are evaluated over the inlined paths, Deep.same_section)
        # — of a helper that exists only as a part of shutdownDrain, that is: process(), which the drain also calls, swaps the queue too
        parts = [g for g in dp.closure(sdr) if dp.only_within(cg, g, sdr)]
        part = lambda e: any(e.fn is g for g in parts)
        closed = [(g, e) for g in parts for (e, n, k) in common.field_writes(g, cls + "::" + qc)]
        swaps = dp.sites(sdr, lambda e: part(e) and e.kind == "stmt" and e.node.get("k") == "mcall" and last(e.node.get("callee", "")) == "swap" and cls + "::" + q in [field_of(a) for a in e.node["args"]] + [field_of(e.node.get("obj"))])
        closes = dp.sites(sdr, lambda e: part(e) and e.kind == "stmt" and e.node.get("k") == "call" and e.node.get("callee") == "close" and e.node.get("args") and field_of(e.node["args"][0]) == cls + "::_eventFd")
        r.instance()
        ok = len(closed) == 1 and len(swaps) == 1 and len(closes) == 1 and all(dp.held(s, e, QM) for (g, e) in closed + swaps + closes for s in dp.stacks(sdr, g)) and \
            dp.same_section(sdr, closed[0], swaps[0], QM)[0] and dp.same_section(sdr, closed[0], closes[0], QM)[0]
        r.expect(ok, sdr, closed[0][1] if closed and closed[0][0] is sdr else None, "queue close not atomic", "%s::shutdownDrain does not set the closed flag, drain the residual commands and close the wake-up descriptor in one "
                 "critical section of %s: an enqueue can slip in between and its command (or its promise) is lost" % (last(cls), qm), okdesc="%s::shutdownDrain: closed=true, swap, close(_eventFd) in one %s section" % (last(cls), qm))
        # closed flag only set to true as part of shutdownDrain (by itself or by a helper that runs nowhere else), false only as part of start()
        starts = fb.funcs(cls + "::start", FILES[cls])
        for f in fb.in_file(FILES[cls]):
            if not f.ok:
                continue
            for (e, n, k) in common.field_writes(f, cls + "::" + qc):
                v = const_value(common.assigned_value(f, n) or {})
                r.instance()
                r.expect((v == 1 and dp.only_within(cg, _top(f), sdr)) or (v == 0 and any(dp.only_within(cg, _top(f), st_) for st_ in starts)), f, e, "closed flag written", "%s writes %s = %s" % (short(f.name), qc, v),
                         okdesc="%s: %s = %s" % (short(f.name), qc, v))
        for f in fb.funcs(cls + "::enqueue", FILES[cls]):
            # closed test, push and wake-up write: wherever enqueue keeps them (a shared body of the overloads, a wake-up helper)
            tests = [(g, b.elems[-1]) for g in dp.closure(f) for b in g.blocks.values() if b.cond is not None and b.elems and field_of(b.cond) == cls + "::" + qc]
            pushes = [(g, e) for g in dp.closure(f) for e in common.member_calls_on(g, cls + "::" + q, ("push_back", "emplace_back"))]
            writes = dp.sites(f, lambda e: e.kind == "stmt" and e.node.get("k") == "call" and e.node.get("callee") == "write")
            r.instance()
            ok = bool(tests and pushes and writes) and all(any(dp.same_section(f, t, p, QM)[0] for t in tests) and any(dp.same_section(f, p, w, QM)[0] for w in writes) for p in pushes)
            r.expect(ok, f, pushes[0][1] if pushes and pushes[0][0] is f else None, "enqueue not atomic", "closed test, push and wake-up write are not one critical section in %s" % short(f.name), okdesc="%s: test, push, wake-up in one section" % short(f.name))
        # promises
        pr = fb.func(cls + "::process", file_suffix=FILES[cls])
        sets = [e for e in pr.stmts() if e.node.get("k") == "mcall" and last(e.node.get("callee", "")) == "set_value"]
        adds = [e for e in pr.stmts() if e.node.get("k") == "mcall" and last(e.node.get("callee", "")) in ("doAddListener", "addListenerDo")]
        # 'the next command': the declaration of the range-for's loop variable (initialised from the compiler's own __begin iterator —
        # found by that dataflow, not by the name the source gives the variable)
        nxt = [e for e in pr.stmts() if e.node.get("k") == "decl" and any(v.get("init") is not None and not v["n"].startswith("__") and
                                                                         any(y.get("k") == "var" and y["n"].startswith("__begin") for y in walk(v["init"])) for v in e.node["vars"])]
        if len(nxt) != 1:
            raise AnalysisBroken("%s::process: the command loop is no longer one range-for over the swapped queue (%d loop variables found)" % (last(cls), len(nxt)))
        r.instance()
        ok = bool(adds) and len(sets) >= 2 and search(pr, adds[0], lambda x: x is nxt[0],
                                                     stop=lambda x: x in sets, eh=True, edge_ok=lambda b, si: not (b.cond is not None and "listenerReady" in show(b.cond) and b.edge_label(si) is False)) is None
        r.expect(ok, pr, adds[0] if adds else None, "promise not fulfilled", "%s::process can finish an AddListener command (normally or through the catch handler) without fulfilling its promise: "
                 "the synchronous addListener caller blocks for ever" % last(cls), okdesc="%s::process: addListener promise fulfilled on normal and exceptional paths" % last(cls))
        # (the residual loop is the set_value in shutdownDrain or in a part of it; process(), which the drain also calls, fulfils promises of its own)
        is_res = lambda e: part(e) and e.kind == "stmt" and e.node.get("k") == "mcall" and last(e.node.get("callee", "")) == "set_value"
        is_swap = lambda e: any(e is x for (g, x) in swaps)
        res = dp.sites(sdr, is_res)
        r.instance()
        ok = bool(res) and bool(swaps) and dp.search(sdr, ("entry",), lambda e, s: is_res(e), stop=lambda e, s: is_swap(e), enter=dp.relevant(sdr, lambda e: is_res(e) or is_swap(e))) is None and \
            not any(QM in dp.mutexes(s, e) for (g, e) in res for s in dp.stacks(sdr, g))
        r.expect(ok, sdr, res[0][1] if res and res[0][0] is sdr else None, "residual promises",
                 "shutdownDrain does not fail the promises of commands left in the queue (outside the lock)", okdesc="%s::shutdownDrain fails residual promises outside the lock" % last(cls))
        # addListener: a refused enqueue is reported, never waited on
        # (decided in whichever function waits on the future — addListener itself or the branch of it that became a helper; the
        # enqueue whose result guards the wait must stand in the same function, else the path predicate cannot be followed)
        al = fb.func(cls + "::addListener", file_suffix=FILES[cls])
        is_get = lambda e: e.kind == "stmt" and e.node.get("k") == "mcall" and last(e.node.get("callee", "")) == "get" and "future" in e.node.get("callee", "")
        waiters = [g for g in dp.closure(al) if any(is_get(e) for e in g.stmts())]
        r.instance()
        if not waiters:
            r.fail(al, None, "future waited after refused enqueue", "%s::addListener no longer waits on the bind future" % last(cls))
        for g in waiters:
            gets = [e for e in g.stmts() if is_get(e)]
            enq = [e for e in g.stmts() if e.node.get("k") == "mcall" and e.node.get("callee") == cls + "::enqueue"]
            if not enq:
                raise AnalysisBroken("%s waits on the bind future but the enqueue that guards the wait is in another function" % short(g.name))
            vocab = Vocab(["enq_ok"])

            def leaf(n, cls=cls):
                if n.get("k") == "mcall" and n.get("callee") == cls + "::enqueue":
                    return A("enq_ok")
                return None
            pa = PredAbs(g, vocab, leaf, lambda e, enq=enq: [("havoc", "enq_ok")] if e in enq else None)
            r.expect(all(pa.entails(x, A("enq_ok")) for x in gets), g, gets[0], "future waited after refused enqueue",
                     "%s waits on the bind future although the command may not have been queued" % short(g.name), okdesc="%s: fut.get() only after a successful enqueue" % short(g.name))


# ------------------------------------------------------------------ R6

def r6(ctx, r):
    fb, dp = ctx.fb(), _deep(ctx)
    for name in ("stop", "addListener"):
        f = fb.func(TR + "::" + name, file_suffix=TFILE)
        r.instance()
        is_eng = lambda e, name=name: e.kind == "stmt" and e.node.get("k") == "mcall" and last(e.node.get("callee", "")) == name and "EngineBase" in e.node.get("callee", "")
        # the identity tests: branches on a comparison of the calling thread with getIoThreadId(), in the function or in a helper of
        # Transport it calls; whichever way round the test is spelled, its `equal` edge is the I/O thread's
        # — or on a call to a named test whose one return statement is that comparison (`bool calledOnIoThread()`)
        def equal_when_true(c):
            cp = common.cmp_parts(c) if c is not None else None
            if cp and cp[0] in ("==", "!=") and "getIoThreadId" in show(c):
                return cp[0] == "=="
            return None
        guards = []
        for g in dp.closure(f):
            for b in g.blocks.values():
                c, s_true, s_false = common.branch(b)
                if c is None or s_true == s_false:
                    continue
                eq = equal_when_true(c)
                if eq is None and c.get("k") in ("call", "mcall"):
                    for h in dp.node_callees(g, c):
                        rets = [e.node for e in h.stmts() if e.node.get("k") == "ret"]
                        if len(rets) == 1 and rets[0].get("v") is not None:
                            eq = equal_when_true(strip_casts(rets[0]["v"]))
                if eq is not None:
                    guards.append((g, b, s_true if eq else s_false))
        if not guards and dp.has(f, lambda e: e.kind == "stmt" and "getIoThreadId" in show(e.node)):
            raise AnalysisBroken("Transport::%s still reads getIoThreadId() but not in a branch condition the rule can follow" % name)
        ok = bool(guards) and dp.has(f, is_eng) and dp.has(f, lambda e: e.kind == "stmt" and e.node.get("k") == "throw")
        if ok:
            # the engine call is not reachable through the I/O thread's edge of any of the tests
            enter = dp.relevant(f, is_eng)
            ok = all(io_succ is not None and dp.search(f, ("block", s, g_, io_succ), lambda e, st_: is_eng(e), enter=enter) is None
                     for (g_, b, io_succ) in guards for s in dp.stacks(f, g_))
        r.expect(ok, f, None, "%s: no I/O-thread guard" % name, "Transport::%s can reach the engine's blocking %s() from the I/O thread (self-join / self-wait)" % (name, name),
                 okdesc="Transport::%s throws on the I/O thread before calling the engine" % name)


    # the guards compare with getIoThreadId() = _loop.get_id(): the thread member must keep identifying the I/O thread for as long
    # as that thread can run callbacks — it is (re)assigned only by start(), given up only by join()/detach(), never moved away
    n_uses = 0
    for cls in (TCP, UDP):
        fld = cls + "::_loop"
        gid = [g for g in fb.funcs(cls + "::getIoThreadId") if g.ok]
        r.instance()
        r.expect(bool(gid) and any(x.get("k") == "mcall" and last(x.get("callee", "")) == "get_id" and field_of(x.get("obj")) == fld for (g_, x) in dp.nodes(gid[0])), gid[0] if gid else cls, None,
                 "%s: I/O thread id source" % last(cls), "%s::getIoThreadId no longer returns _loop.get_id()" % last(cls), okdesc="%s::getIoThreadId = _loop.get_id()" % last(cls))
        for g in fb.in_file(FILES[cls]):
            if not g.ok:
                continue
            for n in g.nodes.values():
                if n.get("k") != "member" or n.get("n") != fld:
                    continue
                n_uses += 1
                pid = g.parent.get(n["id"])
                par = g.nodes.get(pid, {}) if pid is not None else {}
                # look through implicit casts
                while par.get("k") == "cast" and g.parent.get(par["id"]) is not None:
                    par = g.nodes[g.parent[par["id"]]]
                owner = g.enclosing.name if g.kind == "lambda" and g.enclosing is not None else g.name
                if par.get("k") == "mcall" and par.get("obj") is not None and any(x is n for x in walk(par["obj"])):
                    m = last(par.get("callee", ""))
                    ok = m in ("joinable", "join", "get_id", "native_handle") or (m == "detach" and owner.endswith("detachForTermination"))
                    what = "_loop.%s()" % m
                elif par.get("k") == "opcall" and par.get("op") == "=" and par["args"][0] is n:
                    ok = owner.endswith("::start")
                    what = "assignment to _loop"
                else:
                    ok = False
                    what = "`%s`" % show(par)[:50]
                r.instance()
                r.expect(ok, g, g.elem_for(n), "%s: I/O thread handle given away" % last(cls), "%s uses the I/O thread handle as %s: once _loop no longer holds the running thread (moved to a local, swapped, reset) "
                         "getIoThreadId() returns the null id while that thread still runs callbacks — every I/O-thread guard (connectSync, sendSync, receiveSync, setReadMode, self-destruction) lets a blocking call "
                         "through on the I/O thread itself" % (short(g.name), what), okdesc="%s: %s" % (short(g.name), what))
    if n_uses < 8:
        raise AnalysisBroken("only %d uses of the engines' _loop members found" % n_uses)


    # every stop() caller — not only the one that wins the _running CAS — returns behind the I/O thread's end
    dp = _deep(ctx)
    for cls in (TCP, UDP):
        st = fb.func(cls + "::stop", file_suffix=FILES[cls])
        _stop_behind_worker_end(r, dp, st, cls)
        _join_marker_in_cas_section(r, dp, st, cls)
    # … and the public wrapper hands every caller to the engine's stop(), where that wait is
    _stop_forwarded_on_every_path(r, dp, fb.func(TR + "::stop", file_suffix=TFILE))


def _stop_forwarded_on_every_path(r, dp, f):
    """The engines' stop() is where a stopper that did NOT win the _running CAS waits for the winner's drain and join (the two
    clauses above).  That only helps a caller of Transport::stop() — the public entry every shared owner may call at the same
    time — if the wrapper really hands it to the engine: on every path on which stop() RETURNS (a throw does not return) the
    engine's stop() has been called.  The one thing that voids the obligation is that there is no engine: the null edge of an
    existence test of a pointer the forwarding call itself dereferences (`_impl`, `_impl->engine` — taken from the call's object
    expression, not from names), spelled as a bool conversion, a comparison with nullptr, a `!`/`&&`/`||` combination of those, or
    a named test whose one return statement is such a combination.  No other condition may decide that the engine is not called —
    in particular no lifecycle flag: the engines clear _running at the START of their stop(), so 'not running' is already true
    for the whole of another caller's drain, and a wrapper that returns on it lets every stopper but the first return while
    onClose callbacks still run.  Helpers of Transport/Impl that hold the call or the throw are entered.
    (Impl::performTeardown — ~Transport's path — does branch on isRunning(): the destructor has no concurrent caller by the
    shared-ownership argument listed under NOT_DECIDED, and R4 decides its order; it is not a public stop.)"""
    is_eng = lambda e: e.kind == "stmt" and e.node.get("k") == "mcall" and last(e.node.get("callee", "")) == "stop" and "EngineBase" in e.node.get("callee", "")
    is_throw = lambda e: e.kind == "stmt" and e.node.get("k") == "throw"
    calls = dp.sites(f, is_eng)
    r.instance()
    if not calls:
        r.fail(f, None, "stop: engine stop not called", "Transport::stop no longer calls the engine's stop()")
        return
    ptrs = {x["n"] for (g, e) in calls for x in walk(e.node.get("obj") or {}) if x.get("k") == "member"}
    if not ptrs:
        raise AnalysisBroken("Transport::stop: the engine's stop() is not called through member pointers (%s) — the existence tests cannot be identified" % show(calls[0][1].node)[:60])

    def exists(g, c, depth=0):
        """'exist': c true ⇒ every tested pointer is set, c false ⇒ one of them is null; 'null': the reverse; None: c tests something else"""
        c = strip_casts(c) if c is not None else None
        if c is None:
            return None
        k = c.get("k")
        flip = {"exist": "null", "null": "exist", None: None}
        if k == "un" and c.get("op") == "!" and isinstance(c.get("v"), dict):
            return flip[exists(g, c["v"], depth)]
        if k == "paren" and isinstance(c.get("v"), dict):
            return exists(g, c["v"], depth)
        if k == "bin" and c.get("op") in ("&&", "||"):
            a, b = exists(g, c["lhs"], depth), exists(g, c["rhs"], depth)
            want = "exist" if c["op"] == "&&" else "null"
            return want if a == want and b == want else None
        if k in ("mcall", "opcall") and last(c.get("callee", "")) == "operator bool":
            o = c.get("obj") or (c.get("args") or [None])[0]
            return "exist" if o is not None and field_of(o) in ptrs else None
        cp = common.cmp_parts(c)
        if cp and cp[0] in ("==", "!="):
            for (x, y) in ((cp[1], cp[2]), (cp[2], cp[1])):
                if strip_casts(y).get("k") == "null" and field_of(strip_casts(x)) in ptrs:
                    return "exist" if cp[0] == "!=" else "null"
            return None
        if k == "member" and c.get("n") in ptrs:       # a raw pointer used as a condition
            return "exist"
        if k in ("call", "mcall") and depth < 2:
            hs = dp.node_callees(g, c)
            out = set()
            for h in hs:
                rets = [e.node for e in h.stmts() if e.node.get("k") == "ret"]
                out.add(exists(h, rets[0].get("v"), depth + 1) if len(rets) == 1 and rets[0].get("v") is not None else None)
            return out.pop() if len(out) == 1 else None
        return None

    def edge_ok(b, si):
        c, s_true, s_false = common.branch(b)
        if c is None or s_true == s_false:
            return True
        kind = exists(b.fn if hasattr(b, "fn") else f, c)
        void = s_false if kind == "exist" else s_true if kind == "null" else None
        return not (void is not None and b.succs[si] == void)
    barrier = lambda e, s: is_eng(e) or is_throw(e)
    enter = dp.relevant(f, lambda e: is_eng(e) or is_throw(e))
    w = dp.search(f, ("entry",), "exit", stop=barrier, edge_ok=edge_ok, enter=enter)
    if w is None:
        r.ok("Transport::stop: with an engine, every returning path has called the engine's stop()")
        return
    # the deciding condition: the last branch of the witness whose other side cannot get round the call
    steps = [p for p in w if isinstance(p, tuple) and len(p) == 3]
    decider = None
    for (p, q) in reversed(list(zip(steps, steps[1:]))):
        (s1, g1, b1), (s2, g2, b2) = p, q
        blk = g1.blocks[b1]
        if s1 != s2 or g1 is not g2 or blk.cond is None or len(blk.succs) != 2 or b2 not in blk.succs or blk.succs[0] == blk.succs[1]:
            continue
        others = [(si, s) for si, s in enumerate(blk.succs) if s != b2 and s is not None and edge_ok(blk, si)]
        if others and all(dp.search(f, ("block", s1, g1, s), "exit", stop=barrier, edge_ok=edge_ok, enter=enter) is None for (si, s) in others):
            decider = (g1, blk, blk.edge_label(blk.succs.index(b2)))
            break
    if decider is None:
        r.fail(f, None, "stop: engine stop bypassed", "Transport::stop can return without having called the engine's stop() although an engine exists, whatever its conditions say", witness=dp.witness(w))
        return
    g1, blk, lab = decider
    cond = show(blk.cond)[:80]
    reads = sorted({last(x.get("callee") or x.get("n") or "") for (h, x) in _cond_nodes(dp, g1, blk.cond) if x.get("k") in ("mcall", "call", "member")} - {"operator bool", "operator->", "operator*", "get"})
    r.fail(g1, blk.elems[-1] if blk.elems else None, "stop: engine stop bypassed",
           "Transport::stop returns without calling the engine's stop() when `%s` is %s (%s, line %s; it reads %s): that is not a test for the engine's existence — a condition on the lifecycle state is already "
           "satisfied while ANOTHER caller's stop() is still draining and joining (the engines clear _running first), so this caller returns while onClose callbacks still run; only the engine's own stop() "
           "waits that out" % (cond, {True: "true", False: "false"}.get(lab, "taken"), short(g1.name), (blk.term or {}).get("l") or (blk.elems[-1].line if blk.elems else "?"), ", ".join(reads) or "nothing the rule knows"),
           witness=dp.witness(w))


def _cond_nodes(dp, g, c, depth=0):
    """the expression nodes a branch condition reads, through the one-return named tests it calls (for the message only)"""
    for x in walk(c or {}):
        yield g, x
        if x.get("k") in ("call", "mcall") and depth < 2:
            for h in dp.node_callees(g, x):
                for e in h.stmts():
                    if e.node.get("k") == "ret" and e.node.get("v") is not None:
                        for y in _cond_nodes(dp, h, e.node["v"], depth + 1):
                            yield y


def _is_cv_wait(e):
    return e.kind == "stmt" and e.node.get("k") == "mcall" and e.node.get("callee", "").startswith("std::condition_variable") and last(e.node["callee"]) in common.CV_WAIT


def _wait_loop(g, we):
    """`while (!pred) cv.wait(lk);` is what `cv.wait(lk, pred)` is defined as: for a wait without a predicate, the loop head
    (block) whose body holds the wait and leads back to the head — leaving the loop through the head is 'waited, or nothing to
    wait for', exactly like the predicate form.  None if the wait stands in no such loop."""
    out = []
    for b in g.blocks.values():
        if not b.term or b.term.get("k") not in ("WhileStmt", "ForStmt", "DoStmt") or b.cond is None or len(b.succs) != 2 or b.succs[0] is None or not b.elems:
            continue
        in_head = lambda x, b=b: x.block is b
        if search(g, ("block", b.succs[0]), lambda x: x is we, stop=in_head, eh=False) is not None and search(g, we, in_head, eh=False) is not None:
            out.append(b)
    if len(out) > 1:       # nested loops: the innermost is the one whose head the wait reaches without passing another head
        out = [b for b in out if search(g, we, lambda x, b=b: x.block is b, stop=lambda x, b=b: any(x.block is o for o in out if o is not b), eh=False) is not None]
    return out[0] if len(out) == 1 else None


def _is_join_of(cls):
    return lambda e: e.kind == "stmt" and e.node.get("k") == "mcall" and e.node.get("callee") == "std::thread::join" and field_of(e.node.get("obj")) == cls + "::_loop"


def _stop_behind_worker_end(r, dp, st, cls):
    """common.stop_waits_for_worker with the same two ways out (a call made on the I/O thread itself; nothing to join), but the wait
    for the joining caller may live in a helper of the engine: a call to a helper is as good as the wait when every path through
    the helper is (Deep.search walks through it, the self-call test inside the helper included)."""
    what = last(cls) + "::stop()"
    is_join = _is_join_of(cls)
    r.instance()
    if not dp.has(st, is_join):
        r.fail(st, None, "%s: no join" % what, "%s no longer joins its worker thread" % what)
        return

    def edge_ok(b, si):
        c = strip_casts(b.cond) if b.cond is not None else None
        if c is None:
            return True
        lab = b.edge_label(si)
        cp = common.cmp_parts(c)
        # (a) self call: the `==` side of a comparison of this_thread::get_id() with a thread id
        if cp and cp[0] in ("==", "!=") and "this_thread::get_id()" in show(c) and (cp[0] == "==") == (lab is True):
            return False
        # (b) nothing to join
        if c.get("k") == "mcall" and last(c.get("callee", "")) == "joinable" and lab is False:
            return False
        return True
    # (a predicate-less wait in its `while (!pred)` loop: the loop head is the barrier, as the call is for the predicate form)
    heads = [b for (g, e) in dp.sites(st, _is_cv_wait) for b in [_wait_loop(g, e)] if b is not None and len([a for a in e.node["args"] if not a.get("def")]) < 2]
    barrier = lambda e, s=None: is_join(e) or _is_cv_wait(e) or any(e.block is b for b in heads)
    w = dp.search(st, ("entry",), "exit", stop=barrier, edge_ok=edge_ok, enter=dp.relevant(st, barrier))
    r.expect(w is None, st, None, "%s returns while the worker may still run" % what, "%s can return without having joined the worker thread or waited for the caller that is joining it (%s): a second caller that "
             "finds the stop already in progress returns at once while callbacks / handlers are still running or still to come" % (what, Deep.witness(w)),
             okdesc="%s: every return is behind the join or a wait for the joiner" % what)


ATOMIC_RMW = ("compare_exchange_strong", "compare_exchange_weak", "exchange")


def _join_marker_in_cas_section(r, dp, st, cls):
    """A caller of stop() that loses the test-and-set on the run flag waits until 'no join is in progress' — a predicate over a
    marker field that the winning caller sets and clears.  The wait only holds the loser back if the marker is already set at
    every moment at which a caller can lose: the marker must be written in the very critical section (of the mutex the waiters
    hold) in which the test-and-set is won.  A winner that gives the mutex up first — even to re-take it at once in a guard
    object's constructor — leaves a gap in which the flag already says 'stopped' and the marker still says 'nobody is joining':
    the loser's predicate is true, it returns, and the I/O thread is still alive behind a returned stop().
    Decided from the code's own roles: the marker is whatever the wait predicate reads; the mutex is the one held at the wait;
    the test-and-set is the atomic read-modify-write in the branch that separates the joining path from the waiting path."""
    fb, la = dp.fb, dp.la
    what = last(cls) + "::stop()"
    is_join = _is_join_of(cls)
    closure = dp.closure(st)
    waits = [w for w in common.cv_waits(fb, lambda f: any(f is g for g in closure))]
    if not waits or not dp.has(st, is_join):
        return      # no second-caller handshake at all: the clause above reports that
    for w in waits:
        r.instance()
        g, we, P = w["f"], w["e"], w["pred"]
        head = _wait_loop(g, we) if (P is None and not w["has_pred"]) else None
        if P is None and head is None:
            raise AnalysisBroken("%s: the wait at %s has no predicate the rule can read; cannot tell what marks a join in progress" % (what, g.loc(we)))
        # what the waiter's condition reads: the predicate (a named test it delegates to included), or the condition of the wait loop
        reads = list(dp.nodes(P)) if P is not None else [(g, n) for n in walk(head.cond)]
        markers = sorted({n["n"] for (h, n) in reads if n.get("k") == "member" and "t" in n and not n["t"].startswith(("std::mutex", "std::condition_variable"))})
        if len(markers) != 1:
            raise AnalysisBroken("%s: the wait predicate at %s reads %s; the rule decides the handshake for a single marker field" % (what, g.loc(we), [last(m) for m in markers]))
        marker = markers[0]
        # the mutex of the wait
        lv = w["lockvar"]
        fl = la.fn(g)
        if lv is not None and lv.get("k") == "var" and lv.get("d") in fl.lockvars and fl.lockvars[lv["d"]][0]:
            ms = set(fl.lockvars[lv["d"]][0][:1])
        else:
            ms = None
            for stack in dp.stacks(st, g):
                held = dp.mutexes(stack, we)
                ms = held if ms is None else (ms & held)
        if not ms or len(ms) != 1:
            raise AnalysisBroken("%s: cannot identify the mutex held at the wait at %s (%s)" % (what, g.loc(we), sorted(ms or ())))
        M = next(iter(ms))
        # the value that means 'no join in progress' (predicate `marker == V`): a write of anything else sets the marker
        # (loop form: the loop goes on while `marker != V`)
        idle = None
        if P is not None:
            for e in P.stmts():
                if e.node.get("k") == "ret" and e.node.get("v") is not None:
                    for (op, a, b) in common.cmp_both(strip_casts(e.node["v"])):
                        if op == "==" and field_of(strip_views(a)) == marker:
                            idle = show(strip_views(b))
        else:
            c, s_true, s_false = common.branch(head)
            for (op, a, b) in common.cmp_both(c):
                if field_of(strip_views(a)) == marker and ((op == "!=" and s_true == head.succs[0] and s_true != s_false) or (op == "==" and s_false == head.succs[0] and s_true != s_false)):
                    idle = show(strip_views(b))
        sets, all_writes = set(), []
        for h in closure:
            for (e, n, k) in common.field_writes(h, marker):
                v = common.assigned_value(h, n)
                all_writes.append((h, e))
                if idle is None or v is None or show(strip_views(v)) != idle:
                    sets.add(id(e))
        # the branch on the test-and-set: the join is reachable through exactly one of its edges, the wait only through the other
        cands = []
        to_barrier = dp.relevant(st, lambda e: is_join(e) or e is we)
        for b in st.blocks.values():
            c = b.cond
            if c is None or len(b.succs) != 2:
                continue
            rmw = [x for x in walk(c) if x.get("k") == "mcall" and x.get("callee", "").startswith(("std::atomic", "std::__atomic")) and last(x["callee"]) in ATOMIC_RMW]
            if not rmw:
                continue
            E = st.elem_for(rmw[0])
            if E is None:
                continue
            only = lambda si, b=b: (lambda bb, s: not (bb is b and s != si))
            win = [si for si in (0, 1) if dp.search(st, E, lambda e, s: is_join(e), edge_ok=only(si), enter=to_barrier) is not None]
            lose = [si for si in (0, 1) if dp.search(st, E, lambda e, s: e is we, edge_ok=only(si), enter=to_barrier) is not None]
            if len(win) == 1 and lose == [1 - win[0]]:
                cands.append((b, E, rmw[0], win[0]))
        if len(cands) != 1:
            raise AnalysisBroken("%s: cannot find the one atomic test-and-set whose outcome separates the joining caller from the waiting ones (%d candidates)" % (what, len(cands)))
        D, E, rmw, win = cands[0]
        flag = last(field_of(rmw.get("obj")) or "?")
        edge_ok = lambda bb, s: not (bb is D and s != win)
        has_set = dp.relevant(st, lambda e: id(e) in sets)
        w1 = None
        if dp.held((), E, M):
            w1 = dp.search(st, E, lambda e, s: not dp.held(s, e, M) or is_join(e), stop=lambda e, s: id(e) in sets, edge_ok=edge_ok, enter=has_set) or \
                dp.search(st, E, "exit", stop=lambda e, s: id(e) in sets, edge_ok=edge_ok, enter=has_set)
            ok = w1 is None
        else:
            ok = False
        where, gap = "", None
        if not ok:
            later = [(h, e) for (h, e) in all_writes if id(e) in sets]
            where = " (it is set at line %s in %s, in another critical section)" % (", ".join(str(e.line) for (h, e) in later), ", ".join(sorted({short(h.name) for (h, e) in later}))) if later else " (it is never set on that path)"
            gap = w1[-1] if w1 else None
        r.expect(ok, st, (gap if not ok and gap is not None else E), "join marker set outside the test-and-set's critical section",
                 "%s: the caller that wins the `%s.%s` test-and-set (line %d) %s before `%s` — all that the wait predicate of a losing caller reads (line %d) — is set%s: a second stop() "
                 "that loses the test-and-set in that gap finds its predicate already true and returns at once, while the first caller has not joined the I/O thread yet (close callbacks of "
                 "shutdownDrain still to come; a ~Transport on that path frees the engine under the live thread)" % (
                     what, flag, last(rmw["callee"]), E.line, ("gives %s up (%s)" % (last(M), Deep.witness(w1) or "end of stop()")) if dp.held((), E, M) else "does not hold %s" % last(M), last(marker), we.line, where),
                 okdesc="%s: %s set in the %s section that wins the %s test-and-set" % (what, last(marker), last(M), flag))


# ------------------------------------------------------------------ R7 (typestate)

def may_free_summary(ctx, cls):
    """function name -> set of parameter indexes whose Session* may be erased from the table"""
    fb = ctx.fb()
    summ = {cls + "::closeNow": {0}}
    changed = True
    while changed:
        changed = False
        for f in fb.in_file(FILES[cls]):
            if not f.ok or f.cls != cls or f.name == cls + "::closeNow":
                continue
            pidx = {p["n"]: i for i, p in enumerate(f.params) if p["t"].endswith("Session *")}
            if not pidx:
                continue
            for e in f.stmts():
                n = e.node
                if n.get("k") == "mcall" and n.get("callee") in summ:
                    for ai in summ[n["callee"]]:
                        if ai < len(n["args"]):
                            a = strip_wrappers(n["args"][ai])
                            if a.get("k") == "var" and a["n"] in pidx:
                                if pidx[a["n"]] not in summ.setdefault(f.name, set()):
                                    summ[f.name].add(pidx[a["n"]])
                                    changed = True
    return summ


def r7(ctx, r):
    fb = ctx.fb()
    for cls in (TCP, UDP):
        summ = may_free_summary(ctx, cls)
        ncalls = 0
        for f in fb.in_file(FILES[cls]):
            if not f.ok or not (f.cls == cls or f.name.startswith(cls + "::")):
                continue
            ptrs = {p["n"] for p in f.params if p["t"].endswith("Session *")}
            for e in f.stmts():
                if e.node.get("k") == "decl":
                    for v in e.node["vars"]:
                        if v["t"].endswith("Session *"):
                            ptrs.add(v["n"])
            if not ptrs:
                continue

            def transfer(st, e, f=f):
                if e.kind != "stmt":
                    return st
                n = e.node
                if n.get("k") == "mcall" and n.get("callee") in summ:
                    for ai in summ[n["callee"]]:
                        if ai < len(n["args"]):
                            a = strip_wrappers(n["args"][ai])
                            if a.get("k") == "var":
                                st = st | {a["n"]}
                            elif a.get("k") == "mcall" and last(a.get("callee", "")) == "get":
                                pass
                if n.get("k") == "bin" and n["op"] == "=" and n["lhs"].get("k") == "var" and n["lhs"]["n"] in st:
                    st = st - {n["lhs"]["n"]}
                if n.get("k") == "decl":
                    for v in n["vars"]:
                        if v["n"] in st:
                            st = st - {v["n"]}
                return st
            flow = Forward(f, frozenset(), transfer, lambda a, b: a | b, eh=False)
            for e in f.stmts():
                n = e.node
                if n.get("k") == "mcall" and n.get("callee") in summ:
                    ncalls += 1
                if "root" not in e.raw:
                    continue
                for x in walk(n):
                    xe = f.elem_for(x)
                    st = flow.before(xe) if xe is not None else None
                    if not st:
                        continue
                    if x.get("k") == "member" and x.get("arrow") and (x.get("b") or {}).get("k") == "var" and x["b"]["n"] in st and x["n"].startswith(cls + "::Session::"):
                        r.instance()
                        r.fail(f, e, "use after free of %s" % x["b"]["n"], "%s dereferences `%s->%s` after a call that may have closed and erased that session (%s) without looking it up again" % (
                            short(f.name), x["b"]["n"], last(x["n"]), ", ".join(sorted(last(k) for k in summ))))
                        break
                    if x.get("k") in ("mcall",) and x.get("callee") in summ:
                        for ai in summ[x["callee"]]:
                            if ai < len(x["args"]):
                                a = strip_wrappers(x["args"][ai])
                                if a.get("k") == "var" and a["n"] in st:
                                    r.instance()
                                    r.fail(f, e, "stale pointer passed on", "%s passes the possibly freed `%s` to %s" % (short(f.name), a["n"], last(x["callee"])))
        r.instance(ncalls)
        if ncalls < (25 if cls == TCP else 8):
            raise AnalysisBroken("%s: only %d may-free call sites seen" % (last(cls), ncalls))
        r.ok("%s: %d calls that may free a session; summaries: %s; no dereference of a stale Session*" % (last(cls), ncalls, {last(k): sorted(v) for k, v in summ.items()}))
    # ~Transport self-destruct branch: nothing after the hand-over touches this/_impl
    # (the hand-over may be a helper of Transport / Impl that gets the released pointer: the three calls are looked for in the
    # destructor and its helpers, their order is a must-pass-through over the inlined paths)
    dp = _deep(ctx)
    dt = fb.func(TR + "::<dtor>")
    named = lambda nm: (lambda e: e.kind == "stmt" and e.node.get("k") == "mcall" and last(e.node.get("callee", "")) == nm)
    is_rel, is_det, is_sched = named("release"), named("detachForTermination"), named("scheduleSelfDestruct")
    rel = [e for e in dt.stmts() if is_rel(e)]
    r.instance()
    enter = dp.relevant(dt, lambda e: is_det(e) or is_sched(e))
    ok = len(rel) == 1 and dp.has(dt, is_sched) and dp.has(dt, is_det) and dp.search(dt, ("entry",), lambda e, s: is_sched(e), stop=lambda e, s: is_rel(e), enter=enter) is None and \
        dp.search(dt, rel[0], lambda e, s: is_det(e), stop=lambda e, s: is_sched(e), enter=enter) is None
    if ok:
        own = dt.root_elem(rel[0].node)
        w = dp.search(dt, rel[0], lambda x, s: x.kind == "stmt" and "root" in x.raw and x is not own and any(y.get("k") == "member" and y["n"] == TR + "::_impl" for y in walk(x.node)), enter=enter)
        ok = w is None
    r.expect(ok, dt, rel[0] if rel else None, "self-destruct order", "~Transport's I/O-thread branch does not release _impl, schedule the deferred delete, detach — in that order, touching _impl no more",
             okdesc="~Transport: release → scheduleSelfDestruct → detach, nothing after")
    r.instance()
    tw = [e for e in dt.stmts() if e.node.get("k") == "mcall" and e.node.get("callee") == IMPL + "::teardownWaitOut"]
    r.expect(tw and rel and all(elem_dominates(dt, t, rel[0]) for t in tw), dt, None, "self-destruct without wait-out", "the I/O-thread destruction path hands the Impl over without first waiting out parked callers",
             okdesc="~Transport: teardownWaitOut before the hand-over")


# ------------------------------------------------------------------ R8

def r8(ctx, r):
    fb, cg, dp = ctx.fb(), ctx.cg(), _deep(ctx)
    for cls in (TCP, UDP):
        roots = thread_roots(ctx, cls)
        n = 0

        def caller_thread_reporter(f, seen=frozenset(), cls=cls):
            # the documented off-thread onError sources (enqueue failure, start-up errors), or a non-public piece of one: a helper of
            # the engine every caller of which is such a source (the shared body of the enqueue overloads)
            if last(f.name) in ("enqueue", "err", "error"):
                return True
            if f.access == "public" or f.cls != cls or f.sig in seen:
                return False
            callers = [g for (g, e, x) in cg.callers.get(f.name, [])]
            return bool(callers) and all(caller_thread_reporter(_top(g), seen | {f.sig}) for g in callers)
        for f in fb.in_file(FILES[cls]):
            if not f.ok:
                continue
            for cb in ("onAccept", "onConnect", "onData", "onClose", "onError"):
                for e in cb_invocations(f, cb):
                    n += 1
                    r.instance()
                    rs = roots.get(f.sig) or {"?"}
                    ok, extra = io_confined(rs, cls)
                    if not ok and cb == "onError" and caller_thread_reporter(f):
                        r.note("%s: onError from the caller's thread (documented: enqueue failure / start-up errors)" % short(f.name))
                        r.ok()
                        continue
                    r.expect(ok, f, e, "%s off the I/O thread" % cb, "%s invokes the %s callback but is reachable from %s: callbacks could run after stop() returned or concurrently with the I/O thread" % (
                        short(f.name), cb, ", ".join(sorted(extra))), okdesc="%s: %s only on the I/O thread" % (short(f.name), cb))
        if n < 15:
            raise AnalysisBroken("%s: %d engine callback invocations" % (last(cls), n))
        # stop() joins the I/O thread
        st = fb.func(cls + "::stop", file_suffix=FILES[cls])
        # (the join, or the enqueue of the shutdown command, may stand in a helper of the engine: no inlined path reaches a join without the enqueue)
        is_join = lambda e: e.kind == "stmt" and e.node.get("k") == "mcall" and e.node.get("callee") == "std::thread::join"
        is_enq = lambda e, cls=cls: e.kind == "stmt" and e.node.get("k") == "mcall" and e.node.get("callee") == cls + "::enqueue"
        r.instance()
        r.expect(dp.has(st, is_join) and dp.has(st, is_enq) and dp.search(st, ("entry",), lambda e, s: is_join(e), stop=lambda e, s: is_enq(e), enter=dp.relevant(st, lambda e: is_join(e) or is_enq(e))) is None,
                 st, None, "stop does not join", "%s::stop() does not enqueue a shutdown and join the I/O thread" % last(cls),
                 okdesc="%s::stop: enqueue(shutdown) then join" % last(cls))


def r9(ctx, r):
    """The event dispatcher finds its target through a map fd -> Tag that holds RAW Session*/Listener* pointers.  Whoever closes
    a session's or listener's descriptor must drop that fd's tag on the same path: the objects are freed right after, the fd
    number is handed out again by the kernel (at the latest after a restart), and emplace() of the new tag does not replace
    a stale one — the next event on that number would be dispatched to freed memory."""
    fb = ctx.fb()
    nsites = 0
    for cls in ("iora::network::TcpEngine", "iora::network::UdpEngine"):
        rec = fb.record(cls)
        tagf = [x["n"] for x in rec["fields"] if "unordered_map<int" in x.get("t", "") and "Tag" in x.get("t", "")]
        if len(tagf) != 1:
            raise AnalysisBroken("%s: fd->Tag map not identified (%s)" % (short(cls), tagf))
        tagfield = cls + "::" + tagf[0]
        for f in fb.methods_of(cls):
            if not f.ok:
                continue
            inits = {}
            for e in f.stmts():
                if e.node.get("k") == "decl":
                    for dv in e.node["vars"]:
                        if dv.get("init") is not None:
                            inits[dv["d"]] = dv["init"]

            def owned_fd(a, inits=inits):
                a = strip_casts(a)
                if a is None:
                    return None
                if a.get("k") == "member" and a["n"] in (cls + "::Session::fd", cls + "::Listener::fd"):
                    return last(a["n"].rsplit("::", 1)[0])
                if a.get("k") == "var" and a.get("d") in inits:
                    return owned_fd(inits[a["d"]])
                return None
            removals = common.member_calls_on(f, tagfield, ("erase", "clear"))
            for e in f.stmts():
                n = e.node
                if n.get("k") == "call" and n.get("callee") == "close" and n.get("args"):
                    what = owned_fd(n["args"][0])
                    if what is None:
                        continue
                    nsites += 1
                    r.instance()
                    def edge_ok(b, si, tagfield=tagfield):
                        # "no tag for this fd" (find() == end()) is as good as a removal: nothing is left to dangle
                        c = strip_casts(b.cond) if b.cond is not None else None
                        if c is None or c.get("k") not in ("bin", "opcall") or c.get("op") not in ("==", "!="):
                            return True
                        if not any(x.get("k") == "mcall" and last(x.get("callee", "")) == "end" and field_of(x.get("obj")) == tagfield for x in walk(c)):
                            return True
                        notfound_edge = 0 if c["op"] == "==" else 1
                        return si != notfound_edge
                    w1 = search(f, ("entry",), lambda x, e=e: x is e, stop=lambda x: x in removals, eh=False, edge_ok=edge_ok)
                    w2 = search(f, e, "exit", stop=lambda x: x in removals, eh=False, edge_ok=edge_ok)
                    r.expect(w1 is None or w2 is None, f, e, "descriptor closed, tag kept", "%s closes a %s's descriptor (`%s`) on a path that never removes the fd's entry from %s (%s): the Tag keeps a raw pointer to "
                             "the %s that is freed next; when the kernel reuses the number (a restart is enough) emplace() keeps the stale tag and the new socket's events are dispatched to freed memory"
                             % (short(f.name), what, show(n), tagf[0], witness_str(f, w2) if w2 else "", what), okdesc="%s: %s fd closed together with its tag" % (short(f.name), what))
    if nsites < 6:
        raise AnalysisBroken("only %d closes of session/listener descriptors found, expected >= 6" % nsites)


def run(ctx, ck):
    ck.run_rule("C05-R1", "lock tables of the engines and the transport", "A1 guarded-by + A3 confinement", lambda r: r1(ctx, r))
    ck.run_rule("C05-R2", "lock-free engine state is I/O-thread confined", "A3 thread-root analysis", lambda r: r2(ctx, r))
    ck.run_rule("C05-R3", "locks are leaves; no callback under a lock; lock order acyclic", "A1", lambda r: r3(ctx, r))
    ck.run_rule("C05-R4", "teardown counts every parked caller", "A1 + A2 closed set", lambda r: r4(ctx, r))
    ck.run_rule("C05-R5", "command queue closes atomically; promises are always fulfilled", "A1 same-section + A2", lambda r: r5(ctx, r))
    ck.run_rule("C05-R6", "I/O-thread guards on stop/addListener", "A2", lambda r: r6(ctx, r))
    ck.run_rule("C05-R7", "no Session* use after a call that may free it; self-destruct hand-over order", "A4 typestate + A2", lambda r: r7(ctx, r))
    ck.run_rule("C05-R9", "closing a session/listener descriptor drops its fd->Tag entry (no dangling dispatch target)", "A2 pairing over the closed set of close() sites, sibling engines", lambda r: r9(ctx, r))
    ck.run_rule("C05-R8", "engine callbacks are invoked only on I/O-thread-confined paths; stop joins", "A3", lambda r: r8(ctx, r))
