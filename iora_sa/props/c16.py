"""C16 — Each HTTP request gets exactly one well-formed response, in order (DESIGN.md §2 C16)."""
from ..cfg import search, witness_str, dominated_by_edge, elem_dominates
from ..expr import show, walk, last, field_of, strip_wrappers, strip_casts, short, const_value, is_assign, assign_parts as _ap, strip_views
from ..facts import AnalysisBroken
from ..finite import dominating_facts, flatten_fact
from ..predabs import Vocab, PredAbs, A, Not, And, Or, T, F, translate, known_when, total, atoms_of
from ..rules import common
from .c15 import asg, key_of, fn, _reach_until_ret, handler_covers

TITLE = "Each HTTP request gets exactly one well-formed response, in order"
TECHNIQUE = 'finite predicate abstraction with a ghost send counter (at most one send command per request, every exit accounted for); dataflow-shape rules for Content-Length sources; who-may-invoke + handler coverage for user handlers; proof-of-serialisation search at the dispatch site'
HS = "iora::network::HttpServer"
HSF = "iora/network/http_server.hpp"
SENDERS = ("sendAsync", "sendRaw", "sendRawForSse", "sendErrorResponse", "send", "sendSync")

EXPLANATION = (
    "Response order and interleaving quantify over handler run times and schedules; decided statically are their structural necessary "
    "conditions in http_server.hpp. R1 in processHttpRequest every path hands at most ONE send command to the transport (ghost counter "
    "in a predicate abstraction; so a response is one contiguous buffer and, with C01's atomic command queue, cannot interleave with "
    "another), and every exit has sent, or handed the connection over (upgrade / handler suppression), or found the transport gone; "
    "every request extracted on the I/O thread is enqueued or answered 503. R2 the bytes of a response are toWireFormat() of one "
    "HttpResponse, and that value is what sendAsync receives. R3 wherever the server or the response API sets Content-Length it is "
    "to_string(size()) of the very string that becomes the body on that path (the rvalue overload reads the size before the move). "
    "R4 on every path with method == HEAD the body is cleared after the last handler invocation and before the wire copy. R5 user "
    "handlers are invoked only through invokeWithSafetyNet, inside a try whose handlers (std::exception and catch-all) set 500, set the "
    "body through set_content and clear suppression; a request that fails to parse reaches the error send followed by close. R6 a "
    "request's Connection: close sets the close intent on every path, the response carries the matching Connection header, and the "
    "close is performed after a successful send outside the send's critical section; the roles (close intent = the bool that gates "
    "Transport::close after the main send, announced value = what reaches setHeader(\"Connection\") on the serialised message, close / "
    "keep-alive option = the bool recorded from comparing a comma-split, case-folded token of THIS request's Connection field with the "
    "literal, HTTP/1.0 = this request's version.minor == 0) are derived from dataflow, and the decision is read through HttpServer's own "
    "bool helpers (per-call summaries over the same atoms, parameters bound to arguments). R7 necessary condition for response order: two "
    "requests of one connection must not be dispatched concurrently — the rule looks for a proof of per-connection serialisation at "
    "the dispatch site. R8 (= C15-R4) every throwing primitive on the I/O-thread framing path sits in a try whose handlers cover every "
    "exception type it can throw, so an unparsable request ends in a status or a close and never in an exception that leaves it waiting.")
# exempt from the function-inventory guard (report.py): these rules hold for, or look into, functions they have never seen
FOLLOWS_HELPERS = {"C16-R3": "universal: every function that writes a response body sets Content-Length in the same block, wherever it is",
                   "C16-R5": "the handler clauses are followed into the functions they call (who sets 500 / set_content / clears suppression)",
                   "C16-R6": "the close decision is read through HttpServer's bool helpers (summaries over the same atoms, parameters bound to the arguments); a close / announcement moved into a helper it does not read is a refusal",
                   "C16-R8": "call-graph closure from the transport callbacks: new helpers on the I/O-thread path are part of the closure"}
NOT_DECIDED = ["handler run times and scheduling", "well-formedness of headers a handler writes by hand (raw body without set_content)", "that the peer reads what was queued", "exceptions thrown after the response was handed to the transport (assumed none)"]


def is_send(n):
    return n.get("k") == "mcall" and last(n.get("callee", "")) in SENDERS and ("Transport" in n.get("callee", "") or n.get("callee", "").startswith(HS + "::send"))


# ------------------------------------------------------------------ roles by dataflow
# No rule below identifies a construct by what a local is CALLED.  The roles the rules speak about are derived from how values flow:
#   response  = the Response object handed to the user handler (argument of invokeWithSafetyNet in the Response& position);
#   request   = the Request object handed to the user handler; parsed = the local initialised by HttpRequest::fromWireFormat();
#   wire      = the HttpResponse whose body is assigned from response.body; serialised / shared / main send follow from wire.toWireFormat();
#   completion= the lambda handed to the main send; outcome = the locals it captures by reference (written when the send completes);
#   close intent      = the bool local (other than the outcome flags) that gates Transport::close after the main send;
#   announced value   = what is passed to wire.setHeader("Connection", …);
#   close / keep-alive option = the bool local assigned from a comparison of a token of THIS request's Connection field with the literal,
#                       in processHttpRequest or in a helper of HttpServer reached from it (parameters bound to the arguments);
#   HTTP/1.0          = `<this request's version>.minor == 0`, likewise through helpers.
# A role that cannot be derived is a refusal (exit 2); the names only appear in messages.

def _var(n):
    n = strip_casts(n) if n is not None else None
    return n if n is not None and n.get("k") == "var" else None


def root_var(n):
    """the variable an access path starts from (`v.a.b`, `v->a`, `v.m()`, `*v`, `v[i]`, copies and casts of those), or None"""
    for _ in range(32):
        n = strip_views(n) if n is not None else None
        if n is None:
            return None
        k = n.get("k")
        if k == "var":
            return n
        if k == "member":
            n = n.get("b")
        elif k == "opcall" and n.get("op") in ("->", "*", "[]") and n.get("args"):
            n = n["args"][0]
        elif k == "mcall":
            n = n.get("obj")
        elif k == "un" and n.get("op") in ("*", "&"):
            n = n.get("v")
        elif k == "idx":
            n = n.get("b")
        else:
            return None
    return None


def _is_str(n, lit, fold=False):
    """n (a string literal, possibly wrapped in a std::string construction) spells lit"""
    vs = [x.get("v") for x in walk(n) if x.get("k") == "str"] if n is not None else []
    return len(vs) == 1 and ((vs[0] or "").lower() == lit.lower() if fold else vs[0] == lit)


def local_defs(f):
    """declaration id -> list of (element, value | None) for every definition of a local / parameter of f (declaration with initialiser,
    assignment, compound assignment, ++/--, out-argument of getline / operator>>)"""
    if "_c16_defs" in f.__dict__:
        return f._c16_defs
    out = {}
    for e in f.stmts():
        n = e.node
        k = n.get("k")
        if k == "decl":
            for v in n["vars"]:
                out.setdefault(v["d"], []).append((e, v.get("init"), v))
        elif k in ("bin", "opcall") and is_assign(n):
            lhs, op, rhs = _ap(n)
            lv = _var(lhs)
            if lv is not None:
                out.setdefault(lv.get("d"), []).append((e, rhs if op == "=" else n, lv))
        elif k == "un" and ("++" in n.get("op", "") or "--" in n.get("op", "")):
            lv = _var(n.get("v"))
            if lv is not None:
                out.setdefault(lv.get("d"), []).append((e, n, lv))
        elif k == "call" and last(n.get("callee", "")) == "getline" and len(n.get("args", [])) >= 2:
            lv = _var(n["args"][1])
            if lv is not None:
                out.setdefault(lv.get("d"), []).append((e, n["args"][0], lv))
        elif k == "opcall" and n.get("op") == ">>" and len(n.get("args", [])) == 2:
            lv = _var(n["args"][1])
            if lv is not None:
                out.setdefault(lv.get("d"), []).append((e, n["args"][0], lv))
    f._c16_defs = out
    return out


def single_init(f, d):
    """the initialiser of a local that is defined exactly once, by its declaration (a named value), else None"""
    ds = local_defs(f).get(d, [])
    if len(ds) == 1 and ds[0][0].node.get("k") == "decl" and ds[0][1] is not None:
        return ds[0][1]
    return None


def is_transport_close(n):
    return n.get("k") == "mcall" and last(n.get("callee", "")) == "close" and "Transport" in n.get("callee", "")


def closes_through(fb, n):
    """the helper of HttpServer a call node resolves to, if that helper closes a session on the transport (Transport::close in its body)"""
    g = hs_callee(fb, n)
    if g is not None and len([x for x in g.stmts() if is_transport_close(x.node)]) == 1:
        return g
    return None


def hs_callee(fb, n):
    """the function of HttpServer (one definition with a body in http_server.hpp, called on `this` or statically, not virtually, arity
    matches) that a call node resolves to, else None — whatever it is called"""
    if not isinstance(n, dict) or n.get("k") not in ("call", "mcall") or n.get("virt"):
        return None
    c = n.get("callee") or ""
    if not c.startswith(HS + "::"):
        return None
    if n.get("k") == "mcall" and (n.get("obj") or {}).get("k") not in (None, "this"):
        return None
    gs = [g for g in fb.funcs(c, HSF) if g.ok and g.kind in ("method", "function") and len(g.params) == len(n.get("args", []))]
    return gs[0] if len(gs) == 1 else None


class Frame:
    """a function as it is reached from processHttpRequest: the call that leads to it and the frame the call is made in, so that a
    parameter can be read as the caller's argument"""

    def __init__(self, f, call=None, parent=None):
        self.f, self.call, self.parent = f, call, parent
        self.depth = 0 if parent is None else parent.depth + 1
        self.kids = {}

    def sigs(self):
        return {self.f.sig} | (self.parent.sigs() if self.parent is not None else set())

    def origin(self, n, depth=0):
        """the variable of the OUTERMOST function that the access path n of this frame starts from, looking through named values
        (single-definition locals) and through parameters bound to the caller's arguments; None for anything else"""
        rv = root_var(n)
        if rv is None or depth > 12:
            return None
        if rv.get("parm") is not None and not rv.get("cap"):
            if self.parent is None:
                return rv
            idx = [i for i, p_ in enumerate(self.f.params) if p_.get("d") == rv.get("d")]
            args = self.call.get("args", [])
            if len(idx) != 1 or idx[0] >= len(args):
                return None
            return self.parent.origin(args[idx[0]], depth + 1)
        init = single_init(self.f, rv.get("d"))
        if init is not None and root_var(init) is not None:
            return self.origin(init, depth + 1)
        return rv if self.parent is None else None


def _dnf(atoms, mask):
    full = (1 << (1 << len(atoms))) - 1
    if mask & full == full:
        return T
    out = F
    for a in range(1 << len(atoms)):
        if mask >> a & 1:
            out = Or(out, And(*[A(x) if a >> i & 1 else Not(A(x)) for i, x in enumerate(atoms)]))
    return out


def _rename_atom(fm, a, b):
    if fm[0] == "a":
        return A(b) if fm[1] == a else fm
    if fm[0] == "not":
        return ("not", _rename_atom(fm[1], a, b))
    if fm[0] in ("and", "or"):
        return (fm[0], _rename_atom(fm[1], a, b), _rename_atom(fm[2], a, b))
    return fm


class _PA(PredAbs):
    """PredAbs whose effects callback is also handed the abstraction's own leaf (the one that knows the tracked `bool x = <cond>` locals)"""

    def __init__(self, f, vocab, leaf, effects2, **kw):
        self._eff2 = effects2
        PredAbs.__init__(self, f, vocab, leaf, lambda e: self._eff2(e, self.leaf), track_bools=True, **kw)


class Follow:
    """A5 predicate abstraction that reads through HttpServer's own bool helpers.  A call `h(args)` met in a condition or in the value
    of a flag stands for what h's body computes: the same abstraction is run over h (its frame binds the parameters to the arguments),
    the abstract states at its `return`s are collected, and the call is replaced by 'the valuations under which h returns true' (exact
    when the result is a function of the atoms, otherwise the pair true⇒…, false⇒…).  So `const bool c = a(sid) || b(req.headers, v)` and
    a guard-clause helper mean what their bodies mean — whatever they are called and however many there are.

    leaf0(frame, node) -> formula | None ; eff0(frame, elem, leaf) -> ops | None   (set by the rule before run())"""

    def __init__(self, fb, top, atoms):
        self.fb, self.top, self.atoms = fb, Frame(top), list(atoms)
        self.leaf0 = self.eff0 = None
        self.followed = []

    def kid(self, fr, n):
        """the frame of the helper a call node evaluated in frame fr resolves to, or None (not a helper / recursion / too deep)"""
        if id(n) in fr.kids:
            return fr.kids[id(n)][1]
        g = hs_callee(self.fb, n)
        k = Frame(g, n, fr) if g is not None and fr.depth < 3 and g.sig not in fr.sigs() else None
        fr.kids[id(n)] = (n, k)     # (the node is kept alive: its id is the key)
        return k

    def frames(self):
        """processHttpRequest and every helper frame reachable from it through calls"""
        out, work = [], [self.top]
        while work:
            fr = work.pop(0)
            out.append(fr)
            for n in list(fr.f.nodes.values()):
                if n.get("k") in ("call", "mcall"):
                    k = self.kid(fr, n)
                    if k is not None and k not in out and k not in work:
                        work.append(k)
        return out

    def leaf(self, fr, n):
        r = self.leaf0(fr, n)
        if r is not None:
            return r
        if n.get("k") in ("call", "mcall") and n.get("t") == "bool":
            k = self.kid(fr, n)
            if k is not None:
                return self.summary(k)
        return None

    def summary(self, k):
        if not hasattr(k, "_sum"):
            k._sum = None       # (a cycle is cut by Frame.sigs(); this guards re-entry all the same)
            k._sum = self._summarise(k)
        return k._sum

    def _summarise(self, k):
        g = k.f
        # a helper that assigns to / through one of its parameters is not summarised: it changes the caller's state
        for e in g.stmts():
            a = asg(e.node) or ((_ap(e.node)[0], None) if e.node.get("k") in ("bin", "opcall") and is_assign(e.node) else None)
            lhs = strip_casts(a[0]) if a else (strip_casts(e.node["v"]) if e.node.get("k") == "un" and ("++" in e.node.get("op", "") or "--" in e.node.get("op", "")) else None)
            while lhs is not None and lhs.get("k") == "member":
                lhs = strip_casts(lhs.get("b"))
            if lhs is not None and lhs.get("k") == "var" and lhs.get("parm") is not None:
                return None
        rets = common.returns(g)
        if not rets or any(e.node.get("v") is None for e in rets):
            return None
        pa = _PA(g, Vocab(self.atoms), lambda x: self.leaf(k, x), lambda e, lf: self.eff0(k, e, lf), eh=False)
        low = (1 << len(self.atoms)) - 1

        def project(st):
            m = 0
            for a_ in range(pa.v.size):
                if st >> a_ & 1:
                    m |= 1 << (a_ & low)
            return m
        st_t = st_f = 0
        for e in rets:
            st = pa.before(e)
            if st is None:
                continue
            v = e.node["v"]
            cv = const_value(strip_casts(v)) if strip_casts(v).get("k") == "bool" else None
            fm = (T if cv else F) if cv is not None else translate(v, pa.leaf)
            st_t |= project(pa.v.assume(st, known_when(fm, True)))
            st_f |= project(pa.v.assume(st, known_when(fm, False)))
        if g not in self.followed:
            self.followed.append(g)
        ft, ff = _dnf(self.atoms, st_t), _dnf(self.atoms, st_f)
        if st_t & st_f == 0:
            return ft                                           # exact: the result is a function of the atoms
        return ("and?", ft, ("or?", Not(ff), None))             # returned true ⇒ ft ; returned false ⇒ ff (predabs.known_when)

    def run(self, **kw):
        return _PA(self.top.f, Vocab(self.atoms), lambda n: self.leaf(self.top, n), lambda e, lf: self.eff0(self.top, e, lf), **kw)


def flag_ops(atom, fm, scratch):
    """effects that make `atom` the truth value of the (possibly partial, possibly self-referential) formula fm"""
    if fm is None:
        return [("havoc", atom)]
    tf = total(fm)
    if tf is not None:
        return [("assign", atom, tf)]
    kt, kf = _rename_atom(known_when(fm, True), atom, scratch), _rename_atom(known_when(fm, False), atom, scratch)
    return [("assign", scratch, A(atom)), ("havoc", atom), ("assume", Or(Not(A(atom)), kt)), ("assume", Or(A(atom), kf)), ("havoc", scratch)]


def pure_value(fb, call, depth=0):
    """the value of a call to a loop-free, side-effect-free helper of HttpServer as ONE expression over the call's arguments (its
    `return`s joined by the conditions that select them), or None.  `isBodyless(res.status)` then reads as its body does."""
    g = hs_callee(fb, call)
    if g is None or depth > 3:
        return None
    roots = [e for e in g.stmts() if "root" in e.raw]
    if any(e.node.get("k") != "ret" and e.block.cond is None for e in roots) or any(e.kind != "stmt" for e in g.elems()):
        return None
    table = {p_["d"]: a for p_, a in zip(g.params, call.get("args", []))}

    def sub(n):
        if isinstance(n, list):
            return [sub(x) for x in n]
        if not isinstance(n, dict):
            return n
        if n.get("k") == "var" and n.get("parm") is not None and n.get("d") in table:
            return strip_casts(table[n["d"]])
        if n.get("k") in ("call", "mcall"):
            inner = pure_value(fb, {k_: sub(v_) for k_, v_ in n.items()}, depth + 1)
            if inner is not None:
                return inner
        return {k_: sub(v_) for k_, v_ in n.items()}

    def val(bid, seen):
        if bid is None or bid in seen or len(seen) > 64:
            return None
        b = g.blocks[bid]
        for e in b.elems:
            if e.kind == "stmt" and "root" in e.raw and e.node.get("k") == "ret":
                return sub(e.node["v"]) if e.node.get("v") is not None else None
        succs = [s for s in b.succs if s is not None]
        if b.cond is not None and len(b.succs) == 2:
            c, t_, f_ = sub(b.cond), val(b.succs[0], seen | {bid}), val(b.succs[1], seen | {bid})
            if t_ is None or f_ is None:
                return None
            return t_ if t_ is f_ else {"k": "cond", "c": c, "t": t_, "f": f_}
        if len(succs) == 1:
            return val(succs[0], seen | {bid})
        return None
    return val(g.entry, frozenset())


class Roles:
    pass


_ROLES = {}


def roles(ctx):
    """the roles of processHttpRequest's locals, derived from dataflow (see the comment above)"""
    fb = ctx.fb()
    if id(fb) in _ROLES:
        return _ROLES[id(fb)][1]
    ro = Roles()
    p = ro.p = fn(ctx, HS, "processHttpRequest", HSF)
    sn = fn(ctx, HS, "invokeWithSafetyNet", HSF)
    pos_res = [i for i, q in enumerate(sn.params) if q["t"].replace("const ", "").strip() == HS + "::Response &"]
    pos_req = [i for i, q in enumerate(sn.params) if q["t"].replace("const ", "").strip() == HS + "::Request &"]
    if len(pos_res) != 1 or len(pos_req) != 1 or "const" in sn.params[pos_res[0]]["t"]:
        raise AnalysisBroken("invokeWithSafetyNet: Request& / Response& parameters not identified")
    ro.sn, ro.sn_res = sn, sn.params[pos_res[0]]["n"]
    # the handler invocations: in processHttpRequest itself or in a helper of HttpServer it calls (the helper's parameters are read as the
    # caller's arguments).  ro.inv = the elements of processHttpRequest at which a handler may run (the invocation, or the call that leads to it)
    ro.frames = Follow(fb, p, []).frames()
    ro.inv, ro.ninv, res_v, req_v = [], 0, set(), set()
    for fr in ro.frames:
        for e in fr.f.stmts():
            if e.node.get("k") in ("call", "mcall") and e.node.get("callee") == sn.name and len(e.node.get("args", [])) == len(sn.params):
                ro.ninv += 1
                res_v.add((fr.origin(e.node["args"][pos_res[0]]) or {}).get("d"))
                req_v.add((fr.origin(e.node["args"][pos_req[0]]) or {}).get("d"))
                top = fr
                while top.parent is not None and top.parent.parent is not None:
                    top = top.parent
                site = e if fr.parent is None else p.elem_for(top.call)
                if site is not None and site not in ro.inv:
                    ro.inv.append(site)
    if len(ro.inv) < 1 or len(res_v) != 1 or len(req_v) != 1 or None in res_v or None in req_v:
        raise AnalysisBroken("processHttpRequest: the Request / Response handed to the user handler are not one local each (%d invocations)" % ro.ninv)
    ro.RES, ro.REQ = res_v.pop(), req_v.pop()
    parsed = [v["d"] for e in p.stmts() if e.node.get("k") == "decl" for v in e.node["vars"] if v.get("init") is not None and (strip_views(v["init"]) or {}).get("k") in ("call", "mcall") and last(strip_views(v["init"]).get("callee", "")) == "fromWireFormat"]
    if len(parsed) != 1:
        raise AnalysisBroken("processHttpRequest: %d locals initialised by fromWireFormat()" % len(parsed))
    ro.PARSED = parsed[0]

    def body_of(n, d):
        n = strip_views(n)
        return n is not None and n.get("k") == "member" and last(n.get("n", "")) == "body" and (_var(n.get("b")) or {}).get("d") == d
    # the wire message: the HttpResponse local whose members are assigned from the handler's response (status / headers / body)
    wires = set()
    for e in p.stmts():
        a_ = asg(e.node)
        lhs = strip_casts(a_[0]) if a_ else None
        if lhs is not None and lhs.get("k") == "member" and _var(lhs.get("b")) is not None and "HttpResponse" in (_var(lhs.get("b")).get("t") or "") and (root_var(a_[1]) or {}).get("d") == ro.RES:
            wires.add(_var(lhs.get("b")).get("d"))
    if len(wires) != 1:
        raise AnalysisBroken("processHttpRequest: the wire message (the HttpResponse whose members are assigned from the handler's response) was not found (%d candidates)" % len(wires))
    ro.WIRE = wires.pop()
    ro.copy = [e for e in p.stmts() if asg(e.node) and body_of(asg(e.node)[1], ro.RES) and strip_casts(asg(e.node)[0]).get("k") == "member" and last(strip_casts(asg(e.node)[0]).get("n", "")) == "body" and (_var(strip_casts(asg(e.node)[0]).get("b")) or {}).get("d") == ro.WIRE]
    names = {}
    for x in p.nodes.values():
        if x.get("k") == "var":
            names.setdefault(x["n"], set()).add(x.get("d"))
    ro.name = {}
    for role, d in (("res", ro.RES), ("req", ro.REQ), ("wire", ro.WIRE), ("parsed", ro.PARSED)):
        nm = [n_ for n_, ds in names.items() if d in ds]
        if len(nm) != 1 or len(names[nm[0]]) != 1:
            raise AnalysisBroken("processHttpRequest: the %s object's name is shared with another local (shadowing): texts of its accesses would be ambiguous" % role)
        ro.name[role] = nm[0]
    # serialisation -> shared copy -> send
    ro.tw = [e for e in p.stmts() if e.node.get("k") == "mcall" and last(e.node.get("callee", "")) == "toWireFormat" and (_var(e.node.get("obj")) or {}).get("d") == ro.WIRE]
    ro.rd = ro.sh = None
    ro.main = []
    if len(ro.tw) == 1:
        rd = [v["d"] for e in p.stmts() if e.node.get("k") == "decl" for v in e.node["vars"] if v.get("init") is not None and strip_views(v["init"]) is ro.tw[0].node]
        sh = [v["d"] for e in p.stmts() if e.node.get("k") == "decl" for v in e.node["vars"] if v.get("init") is not None and rd and "make_shared" in show(v["init"]) and any(x.get("k") == "var" and x.get("d") == rd[0] for x in walk(v["init"]))]
        for e in p.stmts():
            if is_send(e.node) and sh and len(e.node.get("args", [])) >= 3:
                a1, a2 = strip_casts(e.node["args"][1]), strip_casts(e.node["args"][2])
                if show(a1).endswith("->data()") and show(a2).endswith("->size()") and all(any(x.get("k") == "var" and x.get("d") == sh[0] for x in walk(a)) for a in (a1, a2)):
                    ro.main.append(e)
        ro.rd, ro.sh = (rd[0] if len(rd) == 1 else None), (sh[0] if len(sh) == 1 else None)
    # the completion of the main send and the locals it writes
    ro.completion, ro.OUTCOME = None, set()
    if len(ro.main) == 1:
        lams = [x for a in ro.main[0].node.get("args", []) for x in walk(a) if x.get("k") == "lambda"]
        if len(lams) == 1:
            ro.completion = ([lf for (ln, lf) in p.lambdas if lf.name == lams[0].get("fn")] or [None])[0]
            ro.OUTCOME = {c.get("d") for c in lams[0].get("caps", []) if c.get("by") == "ref" and c.get("d") is not None}
    _ROLES[id(fb)] = (fb, ro)
    return ro


def r1(ctx, r):
    p = fn(ctx, HS, "processHttpRequest", HSF)
    sends = [e for e in p.stmts() if is_send(e.node)]
    if len(sends) < 4:
        raise AnalysisBroken("processHttpRequest: only %d send sites (floor 4: shutdown, upgrade, response, error)" % len(sends))
    # hand-off returns: upgrade accepted / response suppressed by the handler
    handoff = []
    for e in common.returns(p):
        facts = dominating_facts(p, e)
        txt = " ".join(show(c) for c, t in facts if t)
        if "onResponseSuppressed" in txt or "_suppressSend" in txt or "ranHandler" in txt:
            handoff.append(e)
    # (the same, not depending on how the 'a handler ran' flag is spelled: a return that is reachable only over the true edge of a test of
    # Response::_suppressSend / of onResponseSuppressed())
    def _supp(b):
        return b.cond is not None and any((x.get("k") == "member" and x.get("n") == HS + "::Response::_suppressSend") or (x.get("k") in ("call", "mcall") and last(x.get("callee", "")) == "onResponseSuppressed") for x in walk(b.cond))
    if any(_supp(b) for b in p.blocks.values()):
        for e in common.returns(p):
            if e not in handoff and search(p, ("entry",), lambda x, e=e: x is e, eh=False, edge_ok=lambda b, si: not (_supp(b) and b.edge_label(si) is True)) is None:
                handoff.append(e)
    vocab = Vocab(["sent", "twice", "tp", "sd", "handoff"])

    def leaf(n):
        if n.get("k") == "member" and field_of(n) == HS + "::_transport":
            return A("tp")
        if n.get("k") in ("mcall", "opcall") and "unique_ptr" in (n.get("callee") or "") and "bool" in (n.get("callee") or "") and field_of(strip_casts(n.get("obj") or (n.get("args") or [{}])[0])) == HS + "::_transport":
            return A("tp")
        if n.get("k") == "member" and field_of(n) == HS + "::_shutdown":
            return A("sd")
        if n.get("k") == "mcall" and last(n.get("callee", "")) in ("load", "operator bool", "operator __int_type") and field_of(strip_casts(n.get("obj") or {})) == HS + "::_shutdown":
            return A("sd")
        return None

    def effects(e):
        if e.kind != "stmt":
            return None
        if e in sends:
            return [("assign", "twice", Or(A("twice"), A("sent"))), ("set", "sent", True)]
        if e in handoff:
            return [("set", "handoff", True)]
        return None
    pa = PredAbs(p, vocab, leaf, effects, init=And(Not(A("sent")), Not(A("twice")), Not(A("handoff"))), eh_assume=Not(A("sent")))
    r.instance(len(sends))
    st = pa.at_exit()
    if st is None:
        raise AnalysisBroken("processHttpRequest: exit unreachable in the abstraction")
    for e in sends:
        # a send that can execute with sent already true
        ok = pa.entails(e, Not(A("sent")))
        r.expect(ok, p, e, "second send command: %s" % last(e.node["callee"]), "processHttpRequest can reach `%s` after another send command for the same request was already handed to the transport (%s): the response is "
                 "not one contiguous command, so another worker's response can be queued between the two parts and land inside this response's Content-Length window" % (show(e.node)[:50], ", ".join(pa.describe(e))),
                 okdesc="%s only when nothing was sent yet" % last(e.node["callee"]))
    r.instance()
    r.expect(pa.exit_entails(Or(A("sent"), A("handoff"), Not(A("tp")), A("sd"))), p, None, "exit without response", "processHttpRequest can return without having sent a response, handed the connection over, or found the transport gone/shutting down (%s): "
             "the request is left waiting with neither a response nor a close" % ", ".join(pa.describe_exit()), okdesc="every exit: sent ∨ hand-off ∨ transport gone")
    r.instance()
    r.expect(len(handoff) == 1, p, None, "suppression return", "expected exactly one suppressed-response return, found %d" % len(handoff), okdesc="one suppression return")
    # the upgrade path sends its response before handing over
    up = [e for e in common.returns(p) if any("onUpgradeRequest" in show(c) and t for c, t in dominating_facts(p, e))]
    r.instance()
    r.expect(len(up) == 1 and pa.entails(up[0], Or(A("sent"), Not(A("tp")), A("sd"))), p, up[0] if up else None, "upgrade without response", "the upgrade path returns without sending the upgrade response", okdesc="upgrade: response sent, then hand-off")
    # I/O thread: every extracted request is enqueued or answered 503
    h0, h = dispatch_fn(ctx)        # (h: where the dispatch statements are — handleIncomingData, or its loop-body lambda)
    # roles in handleIncomingData, by dataflow: the task is the lambda that calls processHttpRequest; the session is the function's first
    # parameter (captured); the extracted request is the captured local handed to processHttpRequest as the request bytes
    lam = [(ln, lf) for (ln, lf) in h.lambdas if any(x.node.get("k") == "mcall" and last(x.node.get("callee", "")) == "processHttpRequest" for x in lf.stmts())]
    caps, task_args = {}, []
    if len(lam) == 1:
        caps = {c_["n"]: c_.get("d") for c_ in lam[0][0].get("caps", []) if c_.get("d") is not None}
        task_args = [x for x in lam[0][1].stmts() if x.node.get("k") == "mcall" and last(x.node.get("callee", "")) == "processHttpRequest"][0].node["args"]
    ext_d = caps.get((_var(task_args[1]) or {}).get("n")) if len(task_args) >= 2 and (_var(task_args[1]) or {}).get("cap") else None
    if ext_d is None:
        raise AnalysisBroken("handleIncomingData: the task that hands (session, extracted request bytes, …) to processHttpRequest was not identified (%d candidate lambdas)" % len(lam))
    ext = [e for e in h.stmts() if e.node.get("k") == "decl" and any(v["d"] == ext_d for v in e.node["vars"])]
    enq = [e for e in h.stmts() if e.node.get("k") == "mcall" and last(e.node.get("callee", "")) in ("tryEnqueue", "enqueue")]
    r.instance()
    ok = len(ext) == 1 and len(enq) == 1 and search(h, ext[0], "exit", stop=lambda x: x is enq[0], eh=False) is None and search(h, ext[0], lambda x: x is ext[0], stop=lambda x: x is enq[0], eh=False) is None
    r.expect(ok, h, ext[0] if ext else None, "extracted request dropped", "a request removed from the connection buffer can leave handleIncomingData (or the loop can extract the next one) without being enqueued", okdesc="every extracted request reaches tryEnqueue")
    r.instance()
    ok = False
    if enq:
        b = enq[0].block
        c, st, sf = common.branch(b) if b.cond is not None else (None, None, None)
        if c is not None and sf is not None and (c is enq[0].node or any(x is enq[0].node for x in walk(c))):
            fail_side = _reach_until_ret(h, sf)[:40]
            ok = any(x.kind == "stmt" and x.node.get("k") == "mcall" and last(x.node.get("callee", "")) == "sendErrorResponse" and const_value(strip_casts(x.node["args"][1])) == 503 for x in fail_side)
    r.expect(ok, h, enq[0] if enq else None, "rejected request unanswered", "a request the pool refuses is not answered with 503", okdesc="tryEnqueue refused → 503")
    # the enqueued task is processHttpRequest for this sid with the extracted bytes
    r.instance()
    ok = len(lam) == 1 and len(task_args) >= 2
    if ok:
        # (this session, the extracted bytes, and — if present — the framing decisions taken for exactly this request, i.e. captured locals)
        vs = [_var(a) for a in task_args]
        sess = caps.get(vs[0]["n"]) if vs[0] is not None else None
        if h is not h0 and sess is not None:
            # the session variable of the loop-body lambda is itself a capture of handleIncomingData's parameter
            inner = [x for x in h.nodes.values() if x.get("k") == "var" and x.get("d") == sess and x.get("cap")]
            sess = ({c_["n"]: c_.get("d") for c_ in getattr(h, "lambda_node", {}).get("caps", [])}.get(inner[0]["n"]) if inner else None)
        ok = all(v is not None and v.get("cap") and v["n"] in caps for v in vs) and bool(h0.params) and sess == h0.params[0].get("d") and bool(ext)
    r.expect(ok, h, None, "task payload", "the enqueued task does not process (sid, requestData, per-request framing decisions)", okdesc="task = processHttpRequest(sid, requestData…)")


def dispatch_fn(ctx):
    """(handleIncomingData, the function that holds its dispatch call): handleIncomingData itself, or a local lambda of it that is invoked in
    place (the pipelining loop's body written as `auto next = [&]() -> bool {…}; while (next()) {}`) — same statements, one function further in"""
    h = fn(ctx, HS, "handleIncomingData", HSF)

    def is_enq(x):
        return x.node.get("k") == "mcall" and last(x.node.get("callee", "")) in ("tryEnqueue", "enqueue")
    if any(is_enq(x) for x in h.stmts()):
        return h, h
    cands = []
    for (ln, lf) in h.lambdas:
        if not lf.ok or not any(is_enq(x) for x in lf.stmts()):
            continue
        # bound to a local that is only ever called: `v(...)`
        vd = [v["d"] for e in h.stmts() if e.node.get("k") == "decl" for v in e.node["vars"] if v.get("init") is not None and strip_views(v["init"]) is ln]
        uses = [x for x in h.nodes.values() if x.get("k") == "var" and vd and x.get("d") == vd[0]]
        called = [x for x in h.nodes.values() if x.get("k") == "opcall" and x.get("op") == "()" and x.get("args") and vd and (_var(x["args"][0]) or {}).get("d") == vd[0]]
        if len(vd) == 1 and called and len(uses) == len(called):
            cands.append(lf)
    if len(cands) != 1:
        raise AnalysisBroken("handleIncomingData: the dispatch to the worker pool is neither in the function nor in one local lambda it invokes in place (%d candidates)" % len(cands))
    return h, cands[0]


def r2(ctx, r):
    ro = roles(ctx)
    p, W_, R_ = ro.p, ro.name["wire"], ro.name["res"]
    # the main response: wire message -> toWireFormat -> shared string -> sendAsync(data(), size())
    tw, rd, sh, main = ro.tw, ro.rd, ro.sh, ro.main
    r.instance()
    if not r.expect(len(tw) == 1, p, None, "response serialisation", "processHttpRequest serialises %s %d times (one contiguous buffer expected)" % (W_, len(tw)), okdesc="%s.toWireFormat() once" % W_):
        return
    r.instance()
    r.expect(rd is not None and sh is not None and len(main) == 1, p, main[0] if main else None, "response bytes", "the send command does not carry exactly data()/size() of the shared copy of %s.toWireFormat()" % W_, okdesc="sendAsync(shared->data(), shared->size()) of the serialised response")
    # body and headers of httpRes are those of the handler's Response
    cp = {show(strip_casts(asg(e.node)[0])): show(strip_views(asg(e.node)[1])) for e in p.stmts() if asg(e.node) and show(strip_casts(asg(e.node)[0])).startswith(W_ + ".")}
    r.instance()
    r.expect(cp.get(W_ + ".body") == R_ + ".body" and cp.get(W_ + ".headers") == R_ + ".headers" and cp.get(W_ + ".statusCode") == R_ + ".status", p, None, "response copy", "%s is not status/headers/body of the handler's Response: %s" % (W_, cp),
             okdesc="%s = (%s.status, %s.headers, %s.body)" % (W_, R_, R_, R_))
    # nothing modifies the shared buffer between serialisation and send; body not streamed separately
    r.instance()
    if main:
        mod = [e for e in p.stmts() if e.node.get("k") == "mcall" and sh is not None and any(x.get("k") == "var" and x.get("d") in (sh, rd) for x in walk(e.node.get("obj") or {})) and last(e.node.get("callee", "")) in ("erase", "resize", "clear", "append", "assign", "substr")]
        r.expect(not mod, p, mod[0] if mod else None, "response buffer modified", "the serialised response is modified / split before it is sent", okdesc="buffer sent as serialised")
    # toWireFormat writes status line, headers, blank line, body in this order into one stream
    tf = [f for f in ctx.fb().funcs("iora::network::HttpResponse::toWireFormat") if f.ok]
    r.instance()
    ok = len(tf) == 1
    if ok:
        def writes(g):
            """the statements of g that write to a stream, in source order: `s << …` and calls of iora functions that are handed a stream"""
            return sorted([e for e in g.stmts() if "root" in e.raw and ((e.node.get("k") == "opcall" and e.node.get("op") == "<<") or
                           (e.node.get("k") == "call" and (e.node.get("callee") or "").startswith("iora::") and any("ostream" in (strip_casts(a).get("t") or "") or "stringstream" in (strip_casts(a).get("t") or "") for a in e.node.get("args", []))))], key=lambda e: e.line)

        def blank_line_last(g, ws, depth=0):
            """the last write of ws is the empty line: `stream << "\\r\\n"` on its own, or a helper whose own last write is that"""
            if not ws:
                return False
            n = ws[-1].node
            if n.get("k") == "opcall":
                return _var(n["args"][0]) is not None and strip_casts(n["args"][1]).get("k") == "str" and strip_casts(n["args"][1]).get("v") == "\r\n"
            hs_ = [h for h in ctx.fb().by_name.get(n.get("callee"), []) if h.ok]
            return depth < 2 and len({(h.file, h.line) for h in hs_}) == 1 and blank_line_last(hs_[0], writes(hs_[0]), depth + 1)
        outs = writes(tf[0])
        txt = [show(e.node) for e in outs]
        ib = [i for i, t in enumerate(txt) if t.endswith("<< body")]
        ok = len(ib) == 1 and ib[0] == len(txt) - 1 and blank_line_last(tf[0], outs[:-1])
    r.expect(ok, tf[0] if tf else HS, None, "wire order", "HttpResponse::toWireFormat does not end with the blank line followed by the body", okdesc="toWireFormat: … CRLF, body last")


def r3(ctx, r):
    fb = ctx.fb()
    n = 0
    sites = []
    for f in fb.in_file(HSF):
        if not f.ok:
            continue
        for e in f.stmts():
            nn = e.node
            tgt, val = None, None
            a = asg(nn)
            if a and strip_casts(a[0]).get("k") == "opcall" and strip_casts(a[0]).get("op") == "[]" and [x.get("v") for x in walk(strip_casts(a[0])["args"][1]) if x.get("k") == "str"] == ["Content-Length"]:
                tgt, val = show(strip_casts(strip_casts(a[0])["args"][0])), strip_views(a[1])
            if nn.get("k") == "mcall" and last(nn.get("callee", "")) in ("setHeader", "set_header") and nn.get("args") and [x.get("v") for x in walk(nn["args"][0]) if x.get("k") == "str"] == ["Content-Length"]:
                tgt, val = show(strip_casts(nn.get("obj"))), strip_views(nn["args"][1])
            if tgt is None:
                continue
            # a helper of the message object that sets ITS OWN Content-Length from a length parameter (`headers[…] = to_string(len)`): the
            # obligation moves to every call on `this` — there the argument must be the size of what becomes the body
            pv = _var(val["args"][0]) if val.get("k") == "call" and last(val.get("callee", "")) == "to_string" and val.get("args") else None
            if pv is not None and pv.get("parm") is not None and tgt == "headers":
                pi = [i for i, q in enumerate(f.params) if q.get("d") == pv.get("d")]
                calls = [(g, c) for g in fb.in_file(HSF) if g.ok and g.cls == f.cls for c in g.stmts() if c.node.get("k") in ("call", "mcall") and c.node.get("callee") == f.name and
                         (c.node.get("obj") or {"k": "this"}).get("k") == "this" and len(c.node.get("args", [])) == len(f.params)]
                if len(pi) == 1 and calls:
                    for (g, c) in calls:
                        sites.append((g, c, tgt, {"k": "call", "callee": "std::to_string", "args": [c.node["args"][pi[0]]]}))
                    continue
            sites.append((f, e, tgt, val))
    if True:
        for (f, e, tgt, val) in sites:
            n += 1
            r.instance()
            owner = tgt[:-len(".headers")] if tgt.endswith(".headers") else ("" if tgt == "headers" else tgt)
            bodyname = (owner + ".body") if owner else "body"
            ok, why = False, ""
            if val.get("k") == "str":
                # literal length: the body must be cleared/that long in the same block before
                ok = val.get("v") == "0" and any(x.kind == "stmt" and x.node.get("k") == "mcall" and last(x.node.get("callee", "")) == "clear" and show(strip_casts(x.node.get("obj"))) == bodyname for x in e.block.elems[:e.idx])
                why = "a literal length without the body being cleared first"
            elif val.get("k") == "call" and last(val.get("callee", "")) == "to_string":
                src = strip_casts(val["args"][0])
                if src.get("k") == "mcall" and last(src.get("callee", "")) in ("size", "length"):
                    sized = show(strip_casts(src.get("obj")))
                    # the sized string is the body itself, or the variable assigned to the body in this function
                    bodies = [x for x in f.stmts() if asg(x.node) and show(strip_casts(asg(x.node)[0])) == bodyname]
                    if sized == bodyname:
                        ok = bool(bodies) and all(elem_dominates(f, b, e, eh=False) or not search(f, e, lambda y, b=b: y is b, eh=False) for b in bodies) and \
                            all(search(f, e, lambda y, b=b: y is b, eh=False) is None for b in bodies)
                        why = "the body is (re)assigned after its size was taken"
                    else:
                        srcs = {show(strip_wrappers(strip_views(asg(b.node)[1]))) for b in bodies}
                        moved = [b for b in bodies if show(strip_views(asg(b.node)[1])) != show(strip_wrappers(strip_views(asg(b.node)[1]))) or "move" in show(asg(b.node)[1])]
                        ok = srcs == {sized}
                        if ok and moved:
                            # size read before the move
                            ok = all(search(f, b, lambda y: y is e, eh=False) is None for b in moved)
                            why = "the size is read after the string was moved from"
                        else:
                            why = "the header is the size of `%s` but the body is assigned from %s" % (sized, sorted(srcs))
            r.expect(ok, f, e, "Content-Length source", "%s sets Content-Length from `%s`, which is not the length of the body sent on that path (%s): the peer reads a response of the wrong length and loses framing"
                     % (short(f.name), show(val)[:50], why), okdesc="%s: Content-Length = to_string(%s.size())" % (last(f.name), "body"))
    if n < 4:
        # (six on the tree the rule was written for; builders of identical error responses may legitimately be merged, so the canary is lower)
        raise AnalysisBroken("only %d Content-Length assignments found in http_server.hpp (floor 4)" % n)
    # every in-server write of a response body keeps Content-Length in step (closed set of body writers)
    nb = 0
    for f in fb.in_file(HSF):
        if not f.ok or last(f.name) == "set_content":
            continue
        for e in f.stmts():
            a = asg(e.node)
            if not a:
                continue
            lt = show(strip_casts(a[0]))
            if not lt.endswith(".body") or lt.startswith("req.") or lt == "req.body" or last(strip_casts(a[0]).get("n", "").rsplit("::", 1)[0]) in ("Request", "HttpRequest"):
                continue        # (the request side, by the member's declaration: HttpServer::Request::body / HttpRequest::body)
            rt = show(strip_views(a[1]))
            if rt.endswith(".body") or "parseChunkedBody" in rt:
                continue        # copy of another message's body (its Content-Length travels with the copied headers) / request side
            owner = lt[:-len(".body")]
            nb += 1
            r.instance()
            blk = [x for x in e.block.elems if x.kind == "stmt"]
            okb = any((x.node.get("k") == "mcall" and last(x.node.get("callee", "")) in ("setHeader", "set_header") and show(strip_casts(x.node.get("obj"))) == owner and [y.get("v") for y in walk(x.node["args"][0]) if y.get("k") == "str"] == ["Content-Length"])
                      or (asg(x.node) and "Content-Length" in show(asg(x.node)[0]) and show(asg(x.node)[0]).startswith(owner + ".headers")) for x in blk)
            r.expect(okb, f, e, "body written without Content-Length: %s" % lt, "%s assigns `%s` directly and does not set that message's Content-Length in the same block (only set_content keeps the two in step): the header keeps the length of an "
                     "earlier body and the peer loses framing on the connection" % (short(f.name), lt), okdesc="%s: %s written together with its Content-Length" % (last(f.name), lt))
    if nb < 2:
        # (three on the tree the rule was written for; the shutdown and parse-error responses may share one builder)
        raise AnalysisBroken("only %d direct response-body writes found (floor 2)" % nb)
    # bodyless statuses (1xx, 204, 304 — RFC 9110 §6.4.1) carry neither body bytes nor a Content-Length on the wire, for ANY method
    # (HEAD: no body; its Content-Length may stay unless the status is bodyless).  Decided in two steps: the status predicate is
    # evaluated exactly over all status codes; the copy into the wire message is behind clear() / erase on every path it selects.
    from ..finite import compile_expr, NotPure
    ro = roles(ctx)
    p, copy, R_, Q_ = ro.p, ro.copy, ro.name["res"], ro.name["req"]
    if len(copy) != 1:
        raise AnalysisBroken("processHttpRequest: copy of the body into the wire message not found")

    def expand(n):
        """n with every call to a loop-free, side-effect-free helper of HttpServer replaced by the expression the helper returns"""
        if isinstance(n, list):
            return [expand(x) for x in n]
        if not isinstance(n, dict):
            return n
        if n.get("k") in ("call", "mcall"):
            v = pure_value(fb, n)
            if v is not None:
                return v
        return {k: expand(v) if isinstance(v, (dict, list)) else v for k, v in n.items()}

    def status_codes(n):
        return {const_value(x) for x in walk(n) if x.get("k") == "int"}
    pred, pred_init = None, None
    for e in p.stmts():
        if e.node.get("k") == "decl":
            for dv in e.node["vars"]:
                i = dv.get("init")
                if dv.get("t", "").replace("const ", "") == "bool" and i is not None:
                    xi = expand(strip_casts(i))
                    if status_codes(xi) >= {204, 304}:
                        pred, pred_init = dv, xi
    r.instance()
    if pred is None and any(b.cond is not None and status_codes(expand(b.cond)) >= {204, 304} for b in p.blocks.values()):
        raise AnalysisBroken("processHttpRequest: the 'status has no content' test is written into the branch conditions instead of being one named bool: the rule follows a named predicate only")
    if pred is None:
        # the older spelling: explicit `res.status == 204 || res.status == 304` under the HEAD branch only
        r.fail(p, copy[0], "bodyless status carries a body", "processHttpRequest has no 'this status has no content' predicate covering 1xx, 204 and 304 for every method: a handler that sets content and then status 304, or only "
               "status 204 (the pre-seeded 404 text stays), puts Content-Length and body bytes on the wire — an RFC 9112 framer reads them as the start of the next response")
        return

    def subst(n):
        if isinstance(n, list):
            return [subst(x) for x in n]
        if not isinstance(n, dict):
            return n
        if n.get("k") == "member" and last(n.get("n", "")) == "status" and (_var(n.get("b")) or {}).get("d") == ro.RES:
            return {"k": "var", "n": "status", "t": "int", "d": -1}
        return {k: subst(v) if isinstance(v, (dict, list)) else v for k, v in n.items()}
    try:
        fnp, _t, _c = compile_expr(subst(pred_init), ["status"])
    except NotPure as ex:
        raise AnalysisBroken("bodyless-status predicate not evaluable: %s" % ex)
    wrong = [st for st in range(0, 1000) if bool(fnp(st)) != (100 <= st < 200 or st in (204, 304))]
    r.expect(not wrong, p, None, "bodyless status set", "the predicate `%s` disagrees with {1xx, 204, 304} for status %s" % (pred["n"], wrong[:5]), okdesc="%s ⇔ status ∈ {1xx, 204, 304} (1000 codes)" % pred["n"])
    vocab3 = Vocab(["B", "head", "cleared", "erased"])

    def leaf3(n):
        if n.get("k") == "var" and n.get("d") == pred["d"]:
            return A("B")
        if n is pred.get("init") or n is strip_casts(pred.get("init")):
            return A("B")       # (Block.cond shows a `const bool` declared just before the branch by its initialiser: same value)
        cp = common.cmp_parts(n)
        if cp and cp[0] in ("==", "!=") and (Q_ + ".method") in show(n) and "HEAD" in show(n):
            return A("head") if cp[0] == "==" else Not(A("head"))
        return None

    def eff3(e):
        if e.kind != "stmt":
            return None
        n = e.node
        if n.get("k") == "mcall" and last(n.get("callee", "")) == "clear" and show(strip_casts(n.get("obj") or {})) == R_ + ".body":
            return [("set", "cleared", True)]
        if n.get("k") == "mcall" and last(n.get("callee", "")) == "erase" and show(strip_casts(n.get("obj") or {})) == R_ + ".headers" and "Content-Length" in show(n):
            return [("set", "erased", True)]
        if n.get("k") == "decl" and any(v["d"] == pred["d"] for v in n["vars"]):
            return [("havoc", "B"), ("set", "cleared", False), ("set", "erased", False)]
        return None
    pa3 = PredAbs(p, vocab3, leaf3, eff3, eh=False)
    r.instance()
    r.expect(pa3.entails(copy[0], Or(Not(A("B")), And(A("cleared"), A("erased")))), p, copy[0], "bodyless status carries a body", "the body is copied to the wire message on a path where the status is bodyless but the body was "
             "not cleared / Content-Length not erased (known: %s)" % ",".join(pa3.describe(copy[0])), okdesc="bodyless status ⇒ body cleared and Content-Length erased")
    r.instance()
    r.expect(pa3.entails(copy[0], Or(Not(A("head")), A("cleared"))), p, copy[0], "HEAD with body (any status)", "the body is copied to the wire message on a HEAD path without having been cleared", okdesc="HEAD ⇒ body cleared")


def r4(ctx, r):
    ro = roles(ctx)
    p, R_, Q_, W_ = ro.p, ro.name["res"], ro.name["req"], ro.name["wire"]
    inv = ro.inv
    clears = [e for e in p.stmts() if e.node.get("k") == "mcall" and last(e.node.get("callee", "")) == "clear" and show(strip_casts(e.node.get("obj"))) == R_ + ".body"]
    setc = [e for e in p.stmts() if e.node.get("k") == "mcall" and last(e.node.get("callee", "")) == "set_content" and key_of(e.node.get("obj")) == R_]
    copy = [e for e in p.stmts() if asg(e.node) and show(strip_casts(asg(e.node)[0])) == W_ + ".body"]
    if ro.ninv < 3 or len(copy) != 1 or not clears:
        raise AnalysisBroken("processHttpRequest: %d handler invocations, %d body copies, %d body clears" % (ro.ninv, len(copy), len(clears)))
    vocab = Vocab(["head", "cleared"])

    def leaf(n):
        cp = common.cmp_parts(n)
        if cp and cp[0] == "==" and show(strip_casts(cp[1])) == Q_ + ".method" and any(x.get("k") == "enum" and last(x["n"]) == "HEAD" for x in walk(cp[2])):
            return A("head")
        return None

    def effects(e):
        if e in clears:
            return [("set", "cleared", True)]
        if e in inv or e in setc:
            return [("set", "cleared", False)]
        a = asg(e.node) if e.kind == "stmt" else None
        if a and show(strip_casts(a[0])) in (R_ + ".body", R_):
            return [("set", "cleared", False)]
        if a and show(strip_casts(a[0])) == Q_ + ".method":
            return [("havoc", "head")]
        return None
    pa = PredAbs(p, vocab, leaf, effects, init=Not(A("cleared")), eh=False)
    r.instance()
    r.expect(pa.entails(copy[0], Or(Not(A("head")), A("cleared"))), p, copy[0], "HEAD with body", "the response body is copied to the wire message on a path where the method is HEAD and the body was not cleared after the last handler/set_content (%s)"
             % ", ".join(pa.describe(copy[0])), okdesc="HEAD ⇒ body cleared before the wire copy")
    # the HEAD test is actually there and dominates the copy
    hb = [b for b in p.blocks.values() if b.cond is not None and leaf(strip_casts(b.cond)) is not None]
    r.instance()
    # (a short-circuit `<bodyless> || method == HEAD` skips the test on the paths that clear anyway: such a path must pass a clear; whether the
    # clear is late enough is what the abstraction above decides)
    r.expect(len(hb) >= 1 and search(p, ("entry",), lambda x: x is copy[0], stop=lambda x: x in clears, eh=False, edge_ok=lambda b, si: b not in hb) is None, p, None, "HEAD test", "the wire copy is reachable without passing the HEAD test", okdesc="HEAD test (or a clear) on every path to the copy")


class Renamed:
    """an element of a helper, seen with the helper's Response parameter renamed to the caller's name for that object"""

    def __init__(self, e, pname, to="res"):
        import json
        self.kind, self.block, self.idx, self.line, self.raw, self.try_id, self.catch_id = e.kind, e.block, e.idx, e.line, e.raw, e.try_id, e.catch_id
        self.node = json.loads(json.dumps(e.node).replace('"n": "%s"' % pname, '"n": "%s"' % to)) if e.kind == "stmt" else e.node


def r5(ctx, r):
    fb = ctx.fb()
    # who invokes a user Handler (std::function<void(const Request&, Response&)>)
    invs = []
    for f in fb.in_file(HSF):
        if not f.ok:
            continue
        for e in f.stmts():
            n = e.node
            if n.get("k") == "opcall" and n.get("op") == "()" and "std::function" in (n.get("callee") or "") or (n.get("k") == "opcall" and n.get("op") == "()" and "function<void (const iora::network::HttpServer::Request &, iora::network::HttpServer::Response &)>" in (strip_casts(n["args"][0]).get("t") or "")):
                t = strip_casts(n["args"][0]).get("t") or ""
                if "HttpServer::Request &" in t and "HttpServer::Response &" in t:
                    invs.append((f, e))
    if not invs:
        raise AnalysisBroken("no invocation of a user Handler found")
    for (f, e) in invs:
        r.instance()
        r.expect(last(f.name) == "invokeWithSafetyNet", f, e, "handler invoked outside the safety net", "%s invokes a user handler directly: an exception would escape without the 500 mapping" % short(f.name), okdesc="handler invoked in invokeWithSafetyNet")
    sn = fn(ctx, HS, "invokeWithSafetyNet", HSF)
    RN = roles(ctx).sn_res          # the safety net's Response& parameter (by type), whatever it is called
    call = [e for (f, e) in invs if f is sn]
    r.instance()
    if not r.expect(len(call) == 1 and call[0].try_id, sn, call[0] if call else None, "handler outside try", "the handler call in invokeWithSafetyNet is not inside a try block"):
        return
    t = sn.trys[call[0].try_id]
    r.instance()
    r.expect(handler_covers(t["handlers"], "...") and any("..." == h for h in t["handlers"]), sn, call[0], "no catch-all", "invokeWithSafetyNet has no catch (...): a handler throwing a non-std exception ends the worker without a response",
             okdesc="handlers: %s" % ", ".join(t["handlers"]))
    for b in sn.blocks.values():
        if b.label and b.label.get("k") == "catch" and b.label.get("try") == call[0].try_id:
            els = list(_reach_until_ret(sn, b.id))
            # a clause may delegate to a helper of the class that receives the Response: look inside (the parameter takes the place of the response)
            for x in list(els):
                c_ = (x.node.get("callee") or "") if x.kind == "stmt" else ""
                if x.kind == "stmt" and x.node.get("k") in ("call", "mcall") and c_.startswith(HS + "::") and last(c_) not in ("set_content",) and any(key_of(a) == RN for a in x.node.get("args", [])):
                    for g in fb.funcs(c_, HSF):
                        if g.ok:
                            pi = [i for i, a in enumerate(x.node["args"]) if key_of(a) == RN][0]
                            pn = g.params[pi]["n"] if pi < len(g.params) else None
                            if pn:
                                els.extend(Renamed(y, pn, RN) for y in g.stmts())
            st = [x for x in els if x.kind == "stmt" and asg(x.node) and show(strip_casts(asg(x.node)[0])) == RN + ".status" and const_value(strip_casts(asg(x.node)[1])) == 500]
            sc = [x for x in els if x.kind == "stmt" and x.node.get("k") == "mcall" and last(x.node.get("callee", "")) == "set_content" and key_of(x.node.get("obj")) == RN]
            su = [x for x in els if x.kind == "stmt" and asg(x.node) and show(strip_casts(asg(x.node)[0])) == RN + "._suppressSend" and const_value(strip_casts(asg(x.node)[1])) == 0]
            r.instance()
            r.expect(len(st) == 1 and len(sc) == 1 and len(su) == 1, sn, None, "handler for %s" % b.label.get("t"), "the catch (%s) clause does not set status 500, set the body through set_content and clear _suppressSend (found %d/%d/%d)"
                     % (b.label.get("t"), len(st), len(sc), len(su)), okdesc="catch (%s): 500 + set_content + suppression cleared" % b.label.get("t"))
    # parse failures: fromWireFormat inside the try of processHttpRequest whose handler sends the mapped status and closes
    p = fn(ctx, HS, "processHttpRequest", HSF)
    fw = [e for e in p.stmts() if e.node.get("k") in ("call", "mcall") and last(e.node.get("callee", "")) == "fromWireFormat"]
    r.instance()
    ok = len(fw) == 1 and fw[0].try_id and handler_covers(p.trys[fw[0].try_id]["handlers"], "std::runtime_error")
    hb = [b for b in p.blocks.values() if b.label and b.label.get("k") == "catch" and fw and b.label.get("try") == fw[0].try_id]
    if ok and hb:
        els = _reach_until_ret(p, hb[0].id)
        snd = [x for x in els if x.kind == "stmt" and is_send(x.node)]
        cls = [x for x in els if x.kind == "stmt" and (is_transport_close(x.node) or closes_through(fb, x.node) is not None)]
        ok = len(snd) == 1 and len(cls) == 1 and search(p, snd[0], lambda x: x is cls[0], eh=False) is not None
        # the status of the error response (first constructor argument of the HttpResponse built in the handler) is a local that starts as 500
        # (or handed to the helper of HttpServer that builds it; `int s = 500; if (mapped) s = …` and `const int s = mapped ? … : 500` alike)
        sv = {(_var(x.node["args"][0]) or {}).get("d") for x in els if x.kind == "stmt" and x.node.get("args") and ((x.node.get("k") == "ctor" and last(x.node.get("cls", "")) == "HttpResponse") or hs_callee(fb, x.node) is not None)} - {None}

        _depth = [0]

        def starts_500(i):
            i = strip_casts(i) if i is not None else None
            if i is not None and hs_callee(fb, i) is not None and _depth[0] < 2:
                # `status = mapStatus(ex)`: the helper of HttpServer that maps the exception returns 500 on one of its ways out
                _depth[0] += 1
                try:
                    return any(starts_500(x.node.get("v")) for x in common.returns(hs_callee(fb, i)))
                finally:
                    _depth[0] -= 1
            return i is not None and (const_value(i) == 500 or (i.get("k") == "cond" and any(isinstance(i.get(b_), dict) and const_value(strip_casts(i[b_])) == 500 for b_ in ("t", "f"))))
        stt = [x for x in els if x.kind == "stmt" and x.node.get("k") == "decl" and any(v["d"] in sv and "int" in (v.get("t") or "") and starts_500(v.get("init")) for v in x.node["vars"])]
        ok = ok and bool(stt)
    r.expect(ok, p, fw[0] if fw else None, "parse failure unanswered", "a request that fails to parse does not reach an error response followed by a close", okdesc="parse failure → mapped status (default 500) sent, then close")


def option_scan(fr, reqs):
    """In the function of frame fr: which locals hold (parts of) THIS request's Connection field — seeded where a value is looked up under
    the literal "Connection" in something that originates (through named values and parameters bound to arguments) from the request
    objects `reqs`, propagated through initialisations, assignments and getline — and which bool locals record that one of its tokens
    equals `close` / `keep-alive`.  Returns {"close": [(decl id, defining elem, sticky)], "keep-alive": […], "whole": [blocks / definitions
    that compare the field as a whole — not a token — with `close`]}."""
    g = fr.f
    defs = local_defs(g)

    def is_bool(lv):
        return "bool" in (lv.get("t") or "")
    tainted = set()
    for d, lst in defs.items():
        for (e, val, lv) in lst:
            if val is not None and not is_bool(lv) and any(x.get("k") == "str" and (x.get("v") or "").lower() == "connection" for x in walk(val)) and \
                    any((fr.origin(x) or {}).get("d") in reqs for x in walk(val) if x.get("k") == "var"):
                tainted.add(d)
    changed = bool(tainted)
    while changed:
        changed = False
        for d, lst in defs.items():
            if d not in tainted and any(val is not None and not is_bool(lv) and any(x.get("k") == "var" and x.get("d") in tainted for x in walk(val)) for (e, val, lv) in lst):
                tainted.add(d)
                changed = True

    # tokens: what getline(<field>, token, ',') delivers (and values computed from a token); everything else that is derived is the field as a whole
    tokens = {d for d, lst in defs.items() if d in tainted and any(e.node.get("k") == "call" and last(e.node.get("callee", "")) == "getline" and any(y.get("k") == "char" and y.get("cv") == 44 for y in walk(e.node)) for (e, val, lv) in lst)}
    changed = bool(tokens)
    while changed:
        changed = False
        for d, lst in defs.items():
            if d not in tokens and d in tainted and all(val is not None and any(x.get("k") == "var" and x.get("d") in tokens for x in walk(val)) for (e, val, lv) in lst):
                tokens.add(d)
                changed = True

    def is_cmp(x, lit, of):
        return any(q[0] == "==" and _is_str(q[2], lit) and not [y for y in walk(q[1]) if y.get("k") == "str"] and any(y.get("k") == "var" and y.get("d") in of for y in walk(q[1])) for q in common.cmp_both(x))

    def is_token_cmp(x, lit):
        return is_cmp(x, lit, tokens)

    def has_token_cmp(n, lit):
        return any(is_token_cmp(x, lit) for x in walk(n))
    out = {"whole": [b for b in g.blocks.values() if b.cond is not None and any(is_cmp(x, "close", tainted - tokens) and not is_cmp(x, "close", tokens) for x in walk(b.cond))] +
                    [e for d, lst in defs.items() for (e, val, lv) in lst if val is not None and is_bool(lv) and any(is_cmp(x, "close", tainted - tokens) and not is_cmp(x, "close", tokens) for x in walk(val))],
           "tainted": tainted, "tokens": tokens}
    for lit in ("close", "keep-alive"):
        found = []
        for d, lst in defs.items():
            for (e, val, lv) in lst:
                if val is not None and is_bool(lv) and has_token_cmp(val, lit):
                    # remembered across tokens: `x = x || tok == lit`, `x |= tok == lit`
                    found.append((d, e, any(y.get("k") == "var" and y.get("d") == d for y in walk(val))))
        for b in g.blocks.values():
            c, st, sf = common.branch(b) if b.cond is not None else (None, None, None)
            if c is None or not (is_token_cmp(c, lit) or (c.get("k") == "bin" and c.get("op") == "&&" and has_token_cmp(c, lit))):
                continue
            # `if (tok == lit) x = true;`
            sets = [x for x in (g.blocks[st].elems if st is not None else []) if x.kind == "stmt" and asg(x.node) and _var(asg(x.node)[0]) is not None and is_bool(_var(asg(x.node)[0])) and const_value(strip_casts(asg(x.node)[1])) == 1]
            for x in sets:
                found.append((_var(asg(x.node)[0]).get("d"), x, True))
        out[lit] = found
    return out


def close_intent(p, main, close, outcome):
    """the bool local that decides, after the main send, whether Transport::close is reached: the locals read by the branch conditions
    on the paths from the send to the close (named conditions computed after the send are opened), without the flags the send's
    completion writes.  Returns the list of candidate declaration ids."""
    fwd, work = set(), [main.block.id]
    while work:
        b = work.pop()
        if b is None or b in fwd:
            continue
        fwd.add(b)
        work.extend(p.blocks[b].succs)
    bwd, work = set(), [close.block.id]
    while work:
        b = work.pop()
        if b in bwd:
            continue
        bwd.add(b)
        work.extend(p.blocks[b].preds)
    decl_of = {}
    for e in p.stmts():
        if e.node.get("k") == "decl":
            for v in e.node["vars"]:
                decl_of[v["d"]] = e
    cands = set()

    def add(n, depth=0):
        for x in walk(n):
            if x.get("k") == "var" and "bool" in (x.get("t") or "") and x.get("parm") is None and x.get("d") not in outcome:
                init = single_init(p, x.get("d"))
                de = decl_of.get(x.get("d"))
                if init is not None and de is not None and depth < 4 and de.block.id in fwd and (de.block is not main.block or de.idx > main.idx):
                    add(init, depth + 1)        # a condition named after the send: what it is computed from
                else:
                    cands.add(x.get("d"))
    for bid in fwd & bwd:
        b = p.blocks[bid]
        if b.cond is not None and b is not close.block:
            add(b.cond)
    return sorted(cands)


R6_ATOMS = ["close", "ka", "http10", "will", "hv", "ann", "tmp"]


def r6(ctx, r):
    fb = ctx.fb()
    ro = roles(ctx)
    p, main = ro.p, ro.main
    r.instance()
    if not r.expect(len(main) == 1 and len(ro.tw) == 1, p, None, "main send", "main response send not found"):
        return
    main, tw = main[0], ro.tw[0]
    reqs = {ro.REQ, ro.PARSED}
    # ---- the close that follows the response, and the local that decides it (the close intent)
    # (Transport::close itself, or the call of a helper of HttpServer whose body is that close: the lock clause below then reads the helper)
    tclose = [e for e in p.stmts() if is_transport_close(e.node) or closes_through(fb, e.node) is not None]
    closes = [e for e in tclose if search(p, main, lambda x, e=e: x is e, eh=False) is not None]
    if not closes:
        # moved out of the function in a shape that is not followed (several closes in the helper, a helper of a helper)
        for e in p.stmts():
            g = hs_callee(fb, e.node)
            if g is not None and search(p, main, lambda x, e=e: x is e, eh=False) is not None and any(x.node.get("k") == "mcall" and last(x.node.get("callee", "")) == "close" and "Transport" in x.node.get("callee", "") for x in g.stmts()):
                raise AnalysisBroken("processHttpRequest: the close after the response is performed inside %s; the rule reads the close decision and its critical section in processHttpRequest only" % short(g.name))
    W = None
    if len(closes) == 1:
        cands = close_intent(p, main, closes[0], ro.OUTCOME)
        if len(cands) != 1:
            raise AnalysisBroken("processHttpRequest: the close decision that gates Transport::close after the response cannot be identified (bool locals read between the send and the close, without the "
                                 "completion's flags: %s)" % (sorted({x["n"] for x in p.nodes.values() if x.get("k") == "var" and x.get("d") in cands}) or "none"))
        W = cands[0]
    Wn = ([x["n"] for x in p.nodes.values() if x.get("k") == "var" and x.get("d") == W] or ["?"])[0]
    # ---- the announced value: what is passed to <wire>.setHeader("Connection", …) (or assigned to <wire>.headers["Connection"])
    ann_sites = {}
    for e in p.stmts():
        n = e.node
        if n.get("k") == "mcall" and last(n.get("callee", "")) in ("setHeader", "set_header") and (_var(n.get("obj")) or {}).get("d") == ro.WIRE and len(n.get("args", [])) >= 2 and _is_str(n["args"][0], "Connection", fold=True):
            ann_sites[id(e)] = (e, n["args"][1])
        a_ = asg(n)
        if a_ and strip_casts(a_[0]).get("k") == "opcall" and strip_casts(a_[0]).get("op") == "[]" and len(strip_casts(a_[0])["args"]) == 2 and _is_str(strip_casts(a_[0])["args"][1], "Connection", fold=True) and \
                (root_var(strip_casts(a_[0])["args"][0]) or {}).get("d") == ro.WIRE:
            ann_sites[id(e)] = (e, a_[1])
    hvars = {(_var(strip_views(v)) or {}).get("d") for (e, v) in ann_sites.values()} - {None}
    if len(hvars) > 1:
        raise AnalysisBroken("processHttpRequest: the Connection header of the response is set from %d different locals" % len(hvars))
    H = hvars.pop() if hvars else None
    # ---- the request's options: wherever the tokens of its Connection field are compared with `close` / `keep-alive`
    fo = Follow(fb, p, R6_ATOMS)
    frames = fo.frames()
    scans = [(fr, option_scan(fr, reqs)) for fr in frames]
    withc = [(fr, sc) for (fr, sc) in scans if sc["close"]]
    withk = [(fr, sc) for (fr, sc) in scans if sc["keep-alive"]]
    r.instance()
    if not withc:
        # older spelling: the whole value compared with "close"
        whole = [(fr, b) for (fr, sc) in scans for b in sc["whole"]] or \
                [(fo.top, b) for b in p.blocks.values() if b.cond is not None and any(q[0] == "==" and [y.get("v") for y in walk(q[2]) if y.get("k") == "str"] == ["close"] for q in common.cmp_both(b.cond))]
        if whole and any((x.get("k") == "char" and x.get("cv") == 44) or (x.get("k") == "str" and "," in (x.get("v") or "")) for x in whole[0][0].f.nodes.values()):
            raise AnalysisBroken("%s: the Connection field is compared with \"close\" in a function that also handles commas, but not as tokens delivered by getline(…, ','): the rule cannot tell tokens from the whole value here" % short(whole[0][0].f.name))
        if whole:
            r.fail(whole[0][0].f, None, "Connection: close ignored", "the Connection request field is compared with \"close\" as a whole value: `Connection: TE, close` / `close, TE` are answered keep-alive and the connection stays open")
            return
        raise AnalysisBroken("processHttpRequest: Connection option handling not identified (no comparison of this request's Connection field with \"close\" in the function or the HttpServer helpers it calls)")
    if len(withc) > 1 or len({d for (d, e, s_) in withc[0][1]["close"]}) != 1 or len(withk) > 1 or (withk and len({d for (d, e, s_) in withk[0][1]["keep-alive"]}) != 1):
        raise AnalysisBroken("processHttpRequest: the request's Connection options are scanned in more than one place (%s): which scan decides is not clear" % ", ".join(sorted({last(fr.f.name) for (fr, sc) in withc + withk})))
    CF, csc = withc[0]
    cd, cdefs = csc["close"][0][0], [e for (d, e, s_) in csc["close"]]
    KF, kd = (withk[0][0], withk[0][1]["keep-alive"][0][0]) if withk else (None, None)
    g = CF.f
    split = any(x.get("k") == "call" and last(x.get("callee", "")) == "getline" and any(y.get("k") == "char" and y.get("cv") == 44 for y in walk(x)) for x in g.nodes.values())
    low = [e for e in g.stmts() if e.node.get("k") == "call" and last(e.node.get("callee", "")) == "transform" and "tolower" in show(e.node) and any(search(g, e, lambda x, c_=c_: x is c_, eh=False) is not None for c_ in cdefs)]
    sticky = all(s_ for (d, e, s_) in csc["close"])
    if not split and any((x.get("k") == "char" and x.get("cv") == 44) or (x.get("k") == "str" and "," in (x.get("v") or "")) for x in g.nodes.values()):
        raise AnalysisBroken("%s: the Connection field is cut at commas in a way the rule does not read (no getline(…, ','))" % short(g.name))
    if not low and any(x.get("k") in ("call", "mcall") and any(w_ in (x.get("callee") or "").lower() for w_ in ("lower", "casecmp", "iequal", "icompare")) for x in g.nodes.values()):
        raise AnalysisBroken("%s: the Connection field is case-folded in a way the rule does not read (no transform(…, tolower) before the comparison)" % short(g.name))
    r.expect(split and bool(low) and sticky, g, cdefs[0], "Connection options", "the Connection field is not handled as a comma-separated, case-insensitive option list (comma split: %s, lower-cased: %s, `close` remembered across "
             "options: %s)" % (split, bool(low), sticky), okdesc="Connection: comma-split, case-folded, close is sticky (%s)" % last(g.name))
    # ---- the decision, over paths and through helpers
    unbound = []

    def leaf0(fr, n):
        if n.get("k") == "var":
            if fr is CF and n.get("d") == cd:
                return A("close")
            if fr is KF and n.get("d") == kd:
                return A("ka")
            if fr is fo.top and W is not None and n.get("d") == W:
                return A("will")
            return None
        for q in common.cmp_both(n):
            m = strip_casts(q[1])
            if q[0] in ("==", "!=") and m is not None and m.get("k") == "member" and m.get("n") == "iora::network::HttpVersion::minor" and const_value(strip_casts(q[2])) == 0:
                o = fr.origin(m)
                if o is not None and o.get("d") in reqs:
                    return A("http10") if q[0] == "==" else Not(A("http10"))
                unbound.append("%s in %s" % (show(n), last(fr.f.name)))
                return None
        return None

    def eff0(fr, e, lf):
        if e.kind != "stmt":
            return None
        n, ops, k = e.node, [], e.node.get("k")

        def tr(x):
            c_ = strip_casts(x) if x is not None else None
            if c_ is None:
                return None
            if c_.get("k") == "bool" and c_.get("cv") is not None:
                return T if c_["cv"] else F
            return translate(x, lf)

        def strval(x, depth=0):
            """formula for 'this string is "close"'"""
            x = strip_views(x) if x is not None else None
            if x is None or depth > 4:
                return None
            if x.get("k") == "str":
                return T if (x.get("v") or "").strip().lower() == "close" else F
            if x.get("k") == "cond" and isinstance(x.get("t"), dict) and isinstance(x.get("f"), dict):
                c_, a_, b_ = total(tr(x["c"])), strval(x["t"], depth + 1), strval(x["f"], depth + 1)
                return None if c_ is None or a_ is None or b_ is None else Or(And(c_, a_), And(Not(c_), b_))
            if x.get("k") == "var" and H is not None and x.get("d") == H:
                return A("hv")
            return None
        defs = []
        if k == "decl":
            defs = [(v["d"], "=", v.get("init")) for v in n["vars"]]
        elif k in ("bin", "opcall") and is_assign(n) and _var(_ap(n)[0]) is not None:
            defs = [(_var(_ap(n)[0]).get("d"), _ap(n)[1], _ap(n)[2])]
        elif k == "un" and ("++" in n.get("op", "") or "--" in n.get("op", "")) and _var(n.get("v")) is not None:
            defs = [(_var(n["v"]).get("d"), n["op"], None)]
        for (d, op, val) in defs:
            if fr is CF and d == cd:
                ops.append(("havoc", "close"))
            if fr is KF and d == kd:
                ops.append(("havoc", "ka"))
            if fr is not fo.top:
                continue
            if W is not None and d == W:
                fm = tr(val) if op == "=" else (("or?", A("will"), tr(val)) if op == "|=" else (("and?", A("will"), tr(val)) if op == "&=" else None))
                ops += flag_ops("will", fm, "tmp") if val is not None else [("havoc", "will")]
            if H is not None and d == H:
                fm = strval(val) if op == "=" else None
                ops.append(("assign", "hv", fm) if fm is not None else ("havoc", "hv"))
        if fr is fo.top:
            if id(e) in ann_sites:
                fm = strval(ann_sites[id(e)][1])
                ops.append(("assign", "ann", fm) if fm is not None else ("havoc", "ann"))
            a_ = asg(n)
            if a_ and strip_casts(a_[0]).get("k") == "member" and last(strip_casts(a_[0]).get("n", "")) == "headers" and (_var(strip_casts(a_[0]).get("b")) or {}).get("d") == ro.WIRE:
                ops.append(("havoc", "ann"))        # the header map is replaced as a whole
            if H is not None and id(e) not in ann_sites and k in ("call", "mcall"):
                # the announced value handed to / modified by something else
                if any((root_var(x) or {}).get("d") == H for x in n.get("args", [])) or (k == "mcall" and (_var(n.get("obj")) or {}).get("d") == H and last(n.get("callee", "")) not in ("size", "length", "empty", "c_str", "data", "compare", "find")):
                    ops.append(("havoc", "hv"))
        return ops
    fo.leaf0, fo.eff0 = leaf0, eff0
    pa = fo.run(init=Not(A("ann")), eh=False)
    r.instance()
    r.expect(W is not None and pa.entails(main, Or(Not(A("close")), A("will"))), p, main, "Connection: close ignored", "the response is sent on a path where the request carried a `close` option but the close intent is not set (%s)" % ", ".join(x for x in pa.describe(main) if not x.lstrip("!").startswith(("tmp", "b:"))),
             okdesc="close option ⇒ close intent (%s) at the send" % Wn)
    r.instance()
    ok10 = W is not None and pa.entails(main, Or(Not(A("http10")), A("ka"), A("will")))
    if not ok10 and unbound:
        raise AnalysisBroken("processHttpRequest: an HTTP version test was found whose object could not be traced back to this request (%s)" % "; ".join(sorted(set(unbound))[:3]))
    HV = "iora::network::HttpVersion"
    if not ok10 and not any(x.get("k") == "member" and x.get("n") == HV + "::minor" for fr in frames for x in fr.f.nodes.values()) and \
            any((x.get("k") == "member" and x.get("n", "").startswith(HV + "::")) or (x.get("k") in ("call", "mcall", "opcall") and ((x.get("callee") or "").startswith(HV + "::") or
                (x.get("k") == "opcall" and any(HV in (strip_casts(a_).get("t") or "") for a_ in x.get("args", []) if isinstance(a_, dict))))) for fr in frames for x in fr.f.nodes.values()):
        # (handing the version on as an argument is not consulting it; reading another member / calling a member function / comparing versions is)
        raise AnalysisBroken("processHttpRequest: the request's HTTP version is consulted in a form the rule does not read (no `version.minor == 0` test)")
    r.expect(ok10, p, main, "HTTP/1.0 kept alive by default", "an HTTP/1.0 request without a keep-alive option is answered on a path where the close intent is not "
             "set: the response says keep-alive and the connection stays open — an HTTP/1.0 client that reads to EOF hangs", okdesc="HTTP/1.0 without keep-alive ⇒ close intent")
    # every close intent is announced: at the serialisation the wire message's Connection header is `close` whenever the intent is set
    r.instance()
    if not ann_sites and any(e.node.get("k") in ("call", "mcall") and not (e.node.get("callee") or "").startswith("std::") and any((root_var(a) or {}).get("d") == ro.WIRE for a in e.node.get("args", [])) for e in p.stmts()):
        raise AnalysisBroken("processHttpRequest: no Connection header is set on the wire message in the function itself, and the message is handed to another function: the announcement is not followed there")
    r.expect(W is not None and bool(ann_sites) and pa.entails(tw, Or(Not(A("will")), A("ann"))), p, tw, "close intent without header", "the close intent is set without announcing `Connection: close` (%s)" % ", ".join(x for x in pa.describe(tw) if not x.lstrip("!").startswith(("tmp", "b:"))),
             okdesc="close intent ⇒ Connection: close header")
    # the decision belongs to THIS request: processHttpRequest also reads per-connection fields (SessionInfo::httpVersion,
    # connectionKeepAlive); with pipelining several requests of one connection are framed before the first is answered, so a
    # field written from the framing of a LATER request would decide the response of an earlier one.  Nobody writes them.
    SI = HS + "::SessionInfo"
    nread = 0
    for fld in ("connectionKeepAlive", "httpVersion"):
        nread += sum(1 for f_ in {fr.f.sig: fr.f for fr in frames}.values() for x in f_.nodes.values() if x.get("k") == "member" and x["n"] == SI + "::" + fld)
        for g in ctx.fb().in_file(HSF):
            if not g.ok:
                continue
            for (e, n, k) in common.field_writes(g, SI + "::" + fld):
                r.instance()
                r.fail(g, e, "per-connection close state written", "%s writes SessionInfo::%s: processHttpRequest reads it for whichever request it is answering, so with two pipelined requests the value noted while framing the "
                       "second (e.g. its `Connection: close`) closes the connection after the FIRST response — the first is announced `Connection: close` though it did not ask, the second is never answered" % (short(g.name), fld))
    r.instance()
    r.ok("SessionInfo close state is never written (%d reads in processHttpRequest and the helpers it calls)" % nread)
    # the header is set on every path before serialisation
    r.instance()
    r.expect(bool(ann_sites) and search(p, ("entry",), lambda x: x is tw, stop=lambda x: id(x) in ann_sites, eh=False) is None, p, None, "Connection header", "the response is serialised on a path on which its Connection header was not set from the decision", okdesc="Connection header from the decision")
    # the close: after the send, outside its critical section, on (send failed || (send succeeded && close intent))
    r.instance()
    ok = len(closes) == 1
    if ok:
        la = ctx.locks()
        via = closes_through(fb, closes[0].node)
        if via is not None:
            # the close lives in a helper that takes _mutex itself: it must be called with _mutex released, and close under the helper's own lock
            inner = [x for x in via.stmts() if is_transport_close(x.node)][0]
            ok = W is not None and la.holds(p, main, HS + "::_mutex") and not la.holds(p, closes[0], HS + "::_mutex") and la.holds(via, inner, HS + "::_mutex")
        else:
            ok = W is not None and la.holds(p, closes[0], HS + "::_mutex") and la.holds(p, main, HS + "::_mutex")
            # not the same critical section: some element between them runs without _mutex
            between = search(p, main, lambda x: x is closes[0], stop=lambda x: not la.holds(p, x, HS + "::_mutex"), eh=False)
            ok = ok and between is None
    r.expect(ok, p, closes[0] if closes else None, "close after response", "the connection is not closed after the response in a separate critical section (close from inside the send's section re-enters the synchronous completion)",
             okdesc="close(sid) after the send, _mutex released and re-acquired")
    # the close that follows the response must not be able to discard it: sendAsync's completion means "accepted", the bytes may
    # still sit in the engine's write queue.  Proof searched for in the engine: the Close command of an application-originated
    # close is deferred (or skipped) while the session's write queue is not empty.
    fb = ctx.fb()
    TE = "iora::network::TcpEngine"
    procs = [g for g in fb.methods_of(TE) if g.ok and any(x.node.get("k") == "mcall" and last(x.node.get("callee", "")) == "closeNow" for x in g.stmts())
             and any(b.label and b.label.get("k") == "case" and "Close" in show(b.label.get("v") or {}) for b in g.blocks.values())]
    if len(procs) != 1:
        raise AnalysisBroken("TcpEngine: command dispatcher with a Close arm not found (%d candidates)" % len(procs))
    g = procs[0]
    arm0 = [b for b in g.blocks.values() if b.label and b.label.get("k") == "case" and "Close" in show(b.label.get("v") or {})][0]
    r.instance()

    def is_close_now(b):
        return any(x.kind == "stmt" and x.node.get("k") == "mcall" and last(x.node.get("callee", "")) == "closeNow" for x in b.elems)

    # every path of the arm from the case label to closeNow(), with the branch facts collected on the way (the arm is loop free;
    # a revisit ends the path).  On each path: which origins are still possible, and is the write queue known to be empty?
    paths = []

    def walk_arm(b, facts, seen):
        if b.id in seen or len(paths) > 512:
            return
        if is_close_now(b):
            paths.append(list(facts))
            return
        succs = [x for x in b.succs if x is not None]
        if b.cond is not None and len(succs) == 2 and b.edge_label(0) is True:
            for si, truth in ((0, True), (1, False)):
                if b.succs[si] is not None:
                    walk_arm(g.blocks[b.succs[si]], facts + flatten_fact(b.cond, truth), seen | {b.id})
        else:
            for x in succs:
                nb = g.blocks[x]
                if nb.label and nb.label.get("k") in ("case", "default") and nb is not arm0:
                    continue
                walk_arm(nb, facts, seen | {b.id})

    walk_arm(arm0, [], frozenset())
    if not paths:
        raise AnalysisBroken("TcpEngine Close arm: no path to closeNow()")
    proof = True
    for facts in paths:
        app_possible, drained = True, False
        for (c, t) in facts:
            txt = show(c)
            if c.get("k") == "bin" and c.get("op") in ("==", "!=") and "closeOrigin" in txt:
                eq = (c.get("op") == "==") == t
                names_app = "CloseOrigin::App" in txt or txt.rstrip(")").endswith("App")
                if eq and not names_app:
                    app_possible = False
                if not eq and names_app:
                    app_possible = False
            if "wq" in txt and "empty()" in txt and c.get("k") in ("mcall", "call") and t:
                drained = True
        if app_possible and not drained:
            proof = False
    r.expect(proof, p, closes[0] if closes else None, "close may discard the queued response", "processHttpRequest calls close(sid) as soon as sendAsync has ACCEPTED the response; TcpEngine handles an application Close by closeNow() "
             "without looking at the session's write queue, so for a response larger than what the socket takes at once the tail still queued is discarded: the peer receives fewer body bytes than Content-Length announces, then EOF "
             "(`Connection: close`, HTTP/1.0 and every error path)", okdesc="application close is deferred until the write queue has drained")
    # completion lambda only records
    lam = [ro.completion] if ro.completion is not None else []
    r.instance()
    r.expect(len(lam) == 1 and not any(x.node.get("k") == "mcall" and last(x.node.get("callee", "")) in ("close", "sendAsync") for x in lam[0].stmts()), p, None, "completion lambda", "the send completion does more than record the outcome", okdesc="completion lambda capture-only")


def r7(ctx, r):
    fb = ctx.fb()
    h0, h = dispatch_fn(ctx)
    enq = [e for e in h.stmts() if e.node.get("k") == "mcall" and last(e.node.get("callee", "")) in ("tryEnqueue", "enqueue")]
    if len(enq) != 1:
        raise AnalysisBroken("handleIncomingData: %d dispatch sites" % len(enq))
    # proof 1: a single-worker executor
    ctor = [f for f in fb.methods_of(HS) if f.kind == "ctor" and f.ok]
    maxw = None
    for c in ctor:
        for e in c.elems():
            if e.kind == "init" and "_threadPool" in (e.node.get("field") or e.node.get("n") or ""):
                args = [const_value(strip_casts(a)) for a in (strip_casts(e.node.get("v") or {}).get("args") or [])]
                if len(args) >= 2 and args[1] is not None:
                    maxw = args[1] if maxw is None else max(maxw, args[1])
    # proof 2: per-session in-flight state consulted in the dispatch loop and updated when a request completes
    rec = fb.record("iora::network::HttpServer::SessionInfo")
    fields = [x["n"] for x in rec.get("fields", [])] if rec else []
    gate_fields = []
    p = fn(ctx, HS, "processHttpRequest", HSF)
    for fld in fields:
        if fld in ("buffer", "peerAddress", "peerPort", "connectionKeepAlive", "httpVersion"):
            continue
        read_h = any(("." + fld) in show(b.cond) for b in h.blocks.values() if b.cond is not None and search(h, ("block", b.id), lambda x: x is enq[0], eh=False) is not None)
        write_p = any(asg(e.node) and show(strip_casts(asg(e.node)[0])).endswith("." + fld) for e in p.stmts())
        if read_h and write_p:
            gate_fields.append(fld)
    r.instance()
    r.expect((maxw is not None and maxw <= 1) or bool(gate_fields), h0, enq[0], "concurrent dispatch of one connection", "handleIncomingData hands every pipelined request of a connection to a pool of up to %s workers as soon as it is extracted; nothing "
             "(a per-session in-flight flag or queue, a sequence number on the send path, a single worker) orders two requests of the same connection, so a fast handler's response is written before a slow earlier one: "
             "responses leave in completion order, not request order" % maxw, okdesc="per-connection dispatch serialised (%s)" % (gate_fields or "single worker"))


def anchors(ctx, r):
    """The rules no longer identify anything through a local NAME: every role is derived from types and dataflow (roles(), r1, r5, r6).  This
    rule derives the roles once and shows them; a role that cannot be derived is a refusal (exit 2), never an alarm."""
    ro = roles(ctx)
    r.instance()
    r.ok("processHttpRequest: request %s (parsed %s), response %s, wire message %s" % (ro.name["req"], ro.name["parsed"], ro.name["res"], ro.name["wire"]))
    r.instance()
    if len(ro.main) != 1 or ro.completion is None:
        raise AnalysisBroken("processHttpRequest: the send of the serialised wire message (with its completion) was not identified (%d candidates)" % len(ro.main))
    r.ok("processHttpRequest: main send at line %d, completion writes %s" % (ro.main[0].line, sorted(x["n"] for x in ro.completion.nodes.values() if x.get("k") == "var" and x.get("cap") and (ro.completion.parent.get(x.get("id")) is not None))[:4]))
    r.instance()
    r.ok("invokeWithSafetyNet: response parameter %s" % ro.sn_res)


def run(ctx, ck):
    r0 = ck.run_rule("C16-R0", "the roles the rules speak about (request, response, wire message, main send and its completion, safety-net response) are derived from types and dataflow, not from local names", "role derivation", lambda r: anchors(ctx, r))
    if r0.broken:
        return
    ck.run_rule("C16-R1", "at most one send command per request; every exit has sent, handed over or found the transport gone; every extracted request enqueued or 503", "A5 predicate abstraction with ghost send counter", lambda r: r1(ctx, r))
    ck.run_rule("C16-R2", "a response is one contiguous buffer: toWireFormat() of (status, headers, body), sent as serialised", "A10 dataflow shape", lambda r: r2(ctx, r))
    ck.run_rule("C16-R3", "Content-Length set by the server/response API is the size of the body on that path", "A10 dataflow + order", lambda r: r3(ctx, r))
    ck.run_rule("C16-R4", "HEAD responses carry no body", "A5 predicate abstraction", lambda r: r4(ctx, r))
    ck.run_rule("C16-R5", "a throwing handler yields 500; a parse failure yields an error status followed by close", "A3 who-may-call + A9 handler coverage", lambda r: r5(ctx, r))
    ck.run_rule("C16-R6", "Connection: close is honoured and announced; close happens after the send outside its critical section", "A5 + A1", lambda r: r6(ctx, r))
    ck.run_rule("C16-R7", "requests of one connection are not dispatched concurrently (necessary for response order)", "A3 proof-of-serialisation search", lambda r: r7(ctx, r))
    # "a request that cannot be parsed yields an error status or a closed connection - never a connection left waiting with neither":
    # an exception that escapes the framing code on the I/O thread ends the loop with the request (and every other connection)
    # unanswered and unclosed.  Same rule as C15-R4 (every throwing primitive on the I/O-thread path is inside a try whose
    # handlers cover every exception type it can throw), reported under this property as well.
    from . import c15 as _c15
    ck.run_rule("C16-R8", "no exception escapes the request framing on the I/O thread (unparsable request → status or close, never neither)", "A9 handler coverage (= C15-R4)", lambda r: _c15.r4(ctx, r))
