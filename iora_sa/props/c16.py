"""C16 — Each HTTP request gets exactly one well-formed response, in order (DESIGN.md §2 C16)."""
from ..cfg import search, witness_str, dominated_by_edge, elem_dominates
from ..expr import show, walk, last, field_of, strip_wrappers, strip_casts, short, const_value, is_assign, assign_parts as _ap, strip_views
from ..facts import AnalysisBroken
from ..finite import dominating_facts, flatten_fact
from ..predabs import Vocab, PredAbs, A, Not, And, Or, T, F
from ..rules import common
from .c15 import asg, key_of, fn, _reach_until_ret, handler_covers

TITLE = "Each HTTP request gets exactly one well-formed response, in order"
TECHNIQUE = 'finite predicate abstraction with a ghost send counter (at most one send command per request, every exit accounted for); dataflow-shape rules for Content-Length sources; who-may-invoke + handler coverage for user handlers; proof-of-serialisation search at the dispatch site'
HS = "iora::network::HttpServer"
HSF = "iora/network/http_server.hpp"
SENDERS = ("sendAsync", "sendRaw", "sendRawForSse", "sendErrorResponse", "send", "sendSync")

EXPLANATION = (
    "Response order and interleaving quantify over handler run times and schedules; decided statically are their structural necessary "
    "conditions in http_server.hpp. R1 in processHttpRequest every path hands at most ONE send command to the transport (ghost counter "
    "in a predicate abstraction; so a response is one contiguous buffer and, with C01's atomic command queue, cannot interleave with "
    "another), and every exit has sent, or handed the connection over (upgrade / handler suppression), or found the transport gone; "
    "every request extracted on the I/O thread is enqueued or answered 503. R2 the bytes of a response are toWireFormat() of one "
    "HttpResponse, and that value is what sendAsync receives. R3 wherever the server or the response API sets Content-Length it is "
    "to_string(size()) of the very string that becomes the body on that path (the rvalue overload reads the size before the move). "
    "R4 on every path with method == HEAD the body is cleared after the last handler invocation and before the wire copy. R5 user "
    "handlers are invoked only through invokeWithSafetyNet, inside a try whose handlers (std::exception and catch-all) set 500, set the "
    "body through set_content and clear suppression; a request that fails to parse reaches the error send followed by close. R6 a "
    "request's Connection: close sets the close intent on every path, the response carries the matching Connection header, and the "
    "close is performed after a successful send outside the send's critical section. R7 necessary condition for response order: two "
    "requests of one connection must not be dispatched concurrently — the rule looks for a proof of per-connection serialisation at "
    "the dispatch site. R8 (= C15-R4) every throwing primitive on the I/O-thread framing path sits in a try whose handlers cover every "
    "exception type it can throw, so an unparsable request ends in a status or a close and never in an exception that leaves it waiting.")
# exempt from the function-inventory guard (report.py): these rules hold for, or look into, functions they have never seen
FOLLOWS_HELPERS = {"C16-R3": "universal: every function that writes a response body sets Content-Length in the same block, wherever it is",
                   "C16-R5": "the handler clauses are followed into the functions they call (who sets 500 / set_content / clears suppression)",
                   "C16-R8": "call-graph closure from the transport callbacks: new helpers on the I/O-thread path are part of the closure"}
NOT_DECIDED = ["handler run times and scheduling", "well-formedness of headers a handler writes by hand (raw body without set_content)", "that the peer reads what was queued", "exceptions thrown after the response was handed to the transport (assumed none)"]


def is_send(n):
    return n.get("k") == "mcall" and last(n.get("callee", "")) in SENDERS and ("Transport" in n.get("callee", "") or n.get("callee", "").startswith(HS + "::send"))


def main_send(p):
    """(toWireFormat elem, serialised var decl id, shared var decl id, send elem) of the normal response"""
    tw = [e for e in p.stmts() if e.node.get("k") == "mcall" and last(e.node.get("callee", "")) == "toWireFormat" and key_of(e.node.get("obj")) == "httpRes"]
    if len(tw) != 1:
        return tw, None, None, []
    rd = [v["d"] for e in p.stmts() if e.node.get("k") == "decl" for v in e.node["vars"] if v.get("init") is not None and strip_views(v["init"]) is tw[0].node]
    sh = [v["d"] for e in p.stmts() if e.node.get("k") == "decl" for v in e.node["vars"] if v.get("init") is not None and rd and "make_shared" in show(v["init"]) and any(x.get("k") == "var" and x.get("d") == rd[0] for x in walk(v["init"]))]
    main = []
    for e in p.stmts():
        if is_send(e.node) and sh and len(e.node.get("args", [])) >= 3:
            a1, a2 = strip_casts(e.node["args"][1]), strip_casts(e.node["args"][2])
            if show(a1).endswith("->data()") and show(a2).endswith("->size()") and all(any(x.get("k") == "var" and x.get("d") == sh[0] for x in walk(a)) for a in (a1, a2)):
                main.append(e)
    return tw, (rd[0] if len(rd) == 1 else None), (sh[0] if len(sh) == 1 else None), main


def r1(ctx, r):
    p = fn(ctx, HS, "processHttpRequest", HSF)
    sends = [e for e in p.stmts() if is_send(e.node)]
    if len(sends) < 4:
        raise AnalysisBroken("processHttpRequest: only %d send sites (floor 4: shutdown, upgrade, response, error)" % len(sends))
    # hand-off returns: upgrade accepted / response suppressed by the handler
    handoff = []
    for e in common.returns(p):
        facts = dominating_facts(p, e)
        txt = " ".join(show(c) for c, t in facts if t)
        if "onResponseSuppressed" in txt or "_suppressSend" in txt or "ranHandler" in txt:
            handoff.append(e)
    vocab = Vocab(["sent", "twice", "tp", "sd", "handoff"])

    def leaf(n):
        if n.get("k") == "member" and field_of(n) == HS + "::_transport":
            return A("tp")
        if n.get("k") in ("mcall", "opcall") and "unique_ptr" in (n.get("callee") or "") and "bool" in (n.get("callee") or "") and field_of(strip_casts(n.get("obj") or (n.get("args") or [{}])[0])) == HS + "::_transport":
            return A("tp")
        if n.get("k") == "member" and field_of(n) == HS + "::_shutdown":
            return A("sd")
        if n.get("k") == "mcall" and last(n.get("callee", "")) in ("load", "operator bool", "operator __int_type") and field_of(strip_casts(n.get("obj") or {})) == HS + "::_shutdown":
            return A("sd")
        return None

    def effects(e):
        if e.kind != "stmt":
            return None
        if e in sends:
            return [("assign", "twice", Or(A("twice"), A("sent"))), ("set", "sent", True)]
        if e in handoff:
            return [("set", "handoff", True)]
        return None
    pa = PredAbs(p, vocab, leaf, effects, init=And(Not(A("sent")), Not(A("twice")), Not(A("handoff"))), eh_assume=Not(A("sent")))
    r.instance(len(sends))
    st = pa.at_exit()
    if st is None:
        raise AnalysisBroken("processHttpRequest: exit unreachable in the abstraction")
    for e in sends:
        # a send that can execute with sent already true
        ok = pa.entails(e, Not(A("sent")))
        r.expect(ok, p, e, "second send command: %s" % last(e.node["callee"]), "processHttpRequest can reach `%s` after another send command for the same request was already handed to the transport (%s): the response is "
                 "not one contiguous command, so another worker's response can be queued between the two parts and land inside this response's Content-Length window" % (show(e.node)[:50], ", ".join(pa.describe(e))),
                 okdesc="%s only when nothing was sent yet" % last(e.node["callee"]))
    r.instance()
    r.expect(pa.exit_entails(Or(A("sent"), A("handoff"), Not(A("tp")), A("sd"))), p, None, "exit without response", "processHttpRequest can return without having sent a response, handed the connection over, or found the transport gone/shutting down (%s): "
             "the request is left waiting with neither a response nor a close" % ", ".join(pa.describe_exit()), okdesc="every exit: sent ∨ hand-off ∨ transport gone")
    r.instance()
    r.expect(len(handoff) == 1, p, None, "suppression return", "expected exactly one suppressed-response return, found %d" % len(handoff), okdesc="one suppression return")
    # the upgrade path sends its response before handing over
    up = [e for e in common.returns(p) if any("onUpgradeRequest" in show(c) and t for c, t in dominating_facts(p, e))]
    r.instance()
    r.expect(len(up) == 1 and pa.entails(up[0], Or(A("sent"), Not(A("tp")), A("sd"))), p, up[0] if up else None, "upgrade without response", "the upgrade path returns without sending the upgrade response", okdesc="upgrade: response sent, then hand-off")
    # I/O thread: every extracted request is enqueued or answered 503
    h = fn(ctx, HS, "handleIncomingData", HSF)
    ext = [e for e in h.stmts() if e.node.get("k") == "decl" and any(v["n"] == "requestData" for v in e.node["vars"])]
    enq = [e for e in h.stmts() if e.node.get("k") == "mcall" and last(e.node.get("callee", "")) in ("tryEnqueue", "enqueue")]
    r.instance()
    ok = len(ext) == 1 and len(enq) == 1 and search(h, ext[0], "exit", stop=lambda x: x is enq[0], eh=False) is None and search(h, ext[0], lambda x: x is ext[0], stop=lambda x: x is enq[0], eh=False) is None
    r.expect(ok, h, ext[0] if ext else None, "extracted request dropped", "a request removed from the connection buffer can leave handleIncomingData (or the loop can extract the next one) without being enqueued", okdesc="every extracted request reaches tryEnqueue")
    r.instance()
    ok = False
    if enq:
        b = enq[0].block
        c, st, sf = common.branch(b) if b.cond is not None else (None, None, None)
        if c is not None and sf is not None and (c is enq[0].node or any(x is enq[0].node for x in walk(c))):
            fail_side = _reach_until_ret(h, sf)[:40]
            ok = any(x.kind == "stmt" and x.node.get("k") == "mcall" and last(x.node.get("callee", "")) == "sendErrorResponse" and const_value(strip_casts(x.node["args"][1])) == 503 for x in fail_side)
    r.expect(ok, h, enq[0] if enq else None, "rejected request unanswered", "a request the pool refuses is not answered with 503", okdesc="tryEnqueue refused → 503")
    # the enqueued task is processHttpRequest for this sid with the extracted bytes
    r.instance()
    lam = [lf for (ln, lf) in h.lambdas if any(x.node.get("k") == "mcall" and last(x.node.get("callee", "")) == "processHttpRequest" for x in lf.stmts())]
    ok = len(lam) == 1
    if ok:
        c = [x for x in lam[0].stmts() if x.node.get("k") == "mcall" and last(x.node.get("callee", "")) == "processHttpRequest"][0]
        # (sid, the extracted bytes, and — if present — the framing decisions taken for exactly this request, i.e. captured locals)
        ks = [key_of(a) for a in c.node["args"]]
        ok = ks[:2] == ["sid", "requestData"] and all(k is not None and "." not in k and "->" not in k for k in ks[2:])
    r.expect(ok, h, None, "task payload", "the enqueued task does not process (sid, requestData, per-request framing decisions)", okdesc="task = processHttpRequest(sid, requestData…)")


def r2(ctx, r):
    p = fn(ctx, HS, "processHttpRequest", HSF)
    # the main response: httpRes -> toWireFormat -> shared string -> sendAsync(data(), size())
    tw, rd, sh, main = main_send(p)
    r.instance()
    if not r.expect(len(tw) == 1, p, None, "response serialisation", "processHttpRequest serialises httpRes %d times (one contiguous buffer expected)" % len(tw), okdesc="httpRes.toWireFormat() once"):
        return
    r.instance()
    r.expect(rd is not None and sh is not None and len(main) == 1, p, main[0] if main else None, "response bytes", "the send command does not carry exactly data()/size() of the shared copy of httpRes.toWireFormat()", okdesc="sendAsync(shared->data(), shared->size()) of the serialised response")
    # body and headers of httpRes are those of the handler's Response
    cp = {show(strip_casts(asg(e.node)[0])): show(strip_views(asg(e.node)[1])) for e in p.stmts() if asg(e.node) and show(strip_casts(asg(e.node)[0])).startswith("httpRes.")}
    r.instance()
    r.expect(cp.get("httpRes.body") == "res.body" and cp.get("httpRes.headers") == "res.headers" and cp.get("httpRes.statusCode") == "res.status", p, None, "response copy", "httpRes is not status/headers/body of the handler's Response: %s" % cp,
             okdesc="httpRes = (res.status, res.headers, res.body)")
    # nothing modifies the shared buffer between serialisation and send; body not streamed separately
    r.instance()
    if main:
        mod = [e for e in p.stmts() if e.node.get("k") == "mcall" and sh is not None and any(x.get("k") == "var" and x.get("d") in (sh, rd) for x in walk(e.node.get("obj") or {})) and last(e.node.get("callee", "")) in ("erase", "resize", "clear", "append", "assign", "substr")]
        r.expect(not mod, p, mod[0] if mod else None, "response buffer modified", "the serialised response is modified / split before it is sent", okdesc="buffer sent as serialised")
    # toWireFormat writes status line, headers, blank line, body in this order into one stream
    tf = [f for f in ctx.fb().funcs("iora::network::HttpResponse::toWireFormat") if f.ok]
    r.instance()
    ok = len(tf) == 1
    if ok:
        outs = sorted([e for e in tf[0].stmts() if e.node.get("k") == "opcall" and e.node.get("op") == "<<" and "root" in e.raw], key=lambda e: e.line)
        txt = [show(e.node) for e in outs]
        ib = [i for i, t in enumerate(txt) if t.endswith("<< body")]
        ie = [i for i, t in enumerate(txt) if t.endswith('<< "\\r\\n"') and "value" not in t and "statusText" not in t]
        ok = len(ib) == 1 and ib[0] == len(txt) - 1 and bool(ie) and ie[-1] == ib[0] - 1
    r.expect(ok, tf[0] if tf else HS, None, "wire order", "HttpResponse::toWireFormat does not end with the blank line followed by the body", okdesc="toWireFormat: … CRLF, body last")


def r3(ctx, r):
    fb = ctx.fb()
    n = 0
    for f in fb.in_file(HSF):
        if not f.ok:
            continue
        for e in f.stmts():
            nn = e.node
            tgt, val = None, None
            a = asg(nn)
            if a and strip_casts(a[0]).get("k") == "opcall" and strip_casts(a[0]).get("op") == "[]" and [x.get("v") for x in walk(strip_casts(a[0])["args"][1]) if x.get("k") == "str"] == ["Content-Length"]:
                tgt, val = show(strip_casts(strip_casts(a[0])["args"][0])), strip_views(a[1])
            if nn.get("k") == "mcall" and last(nn.get("callee", "")) in ("setHeader", "set_header") and nn.get("args") and [x.get("v") for x in walk(nn["args"][0]) if x.get("k") == "str"] == ["Content-Length"]:
                tgt, val = show(strip_casts(nn.get("obj"))), strip_views(nn["args"][1])
            if tgt is None:
                continue
            n += 1
            r.instance()
            owner = tgt[:-len(".headers")] if tgt.endswith(".headers") else ("" if tgt == "headers" else tgt)
            bodyname = (owner + ".body") if owner else "body"
            ok, why = False, ""
            if val.get("k") == "str":
                # literal length: the body must be cleared/that long in the same block before
                ok = val.get("v") == "0" and any(x.kind == "stmt" and x.node.get("k") == "mcall" and last(x.node.get("callee", "")) == "clear" and show(strip_casts(x.node.get("obj"))) == bodyname for x in e.block.elems[:e.idx])
                why = "a literal length without the body being cleared first"
            elif val.get("k") == "call" and last(val.get("callee", "")) == "to_string":
                src = strip_casts(val["args"][0])
                if src.get("k") == "mcall" and last(src.get("callee", "")) in ("size", "length"):
                    sized = show(strip_casts(src.get("obj")))
                    # the sized string is the body itself, or the variable assigned to the body in this function
                    bodies = [x for x in f.stmts() if asg(x.node) and show(strip_casts(asg(x.node)[0])) == bodyname]
                    if sized == bodyname:
                        ok = bool(bodies) and all(elem_dominates(f, b, e, eh=False) or not search(f, e, lambda y, b=b: y is b, eh=False) for b in bodies) and \
                            all(search(f, e, lambda y, b=b: y is b, eh=False) is None for b in bodies)
                        why = "the body is (re)assigned after its size was taken"
                    else:
                        srcs = {show(strip_wrappers(strip_views(asg(b.node)[1]))) for b in bodies}
                        moved = [b for b in bodies if show(strip_views(asg(b.node)[1])) != show(strip_wrappers(strip_views(asg(b.node)[1]))) or "move" in show(asg(b.node)[1])]
                        ok = srcs == {sized}
                        if ok and moved:
                            # size read before the move
                            ok = all(search(f, b, lambda y: y is e, eh=False) is None for b in moved)
                            why = "the size is read after the string was moved from"
                        else:
                            why = "the header is the size of `%s` but the body is assigned from %s" % (sized, sorted(srcs))
            r.expect(ok, f, e, "Content-Length source", "%s sets Content-Length from `%s`, which is not the length of the body sent on that path (%s): the peer reads a response of the wrong length and loses framing"
                     % (short(f.name), show(val)[:50], why), okdesc="%s: Content-Length = to_string(%s.size())" % (last(f.name), "body"))
    if n < 6:
        raise AnalysisBroken("only %d Content-Length assignments found in http_server.hpp (floor 6)" % n)
    # every in-server write of a response body keeps Content-Length in step (closed set of body writers)
    nb = 0
    for f in fb.in_file(HSF):
        if not f.ok or last(f.name) == "set_content":
            continue
        for e in f.stmts():
            a = asg(e.node)
            if not a:
                continue
            lt = show(strip_casts(a[0]))
            if not lt.endswith(".body") or lt.startswith("req.") or lt == "req.body":
                continue
            rt = show(strip_views(a[1]))
            if rt.endswith(".body") or "parseChunkedBody" in rt:
                continue        # copy of another message's body (its Content-Length travels with the copied headers) / request side
            owner = lt[:-len(".body")]
            nb += 1
            r.instance()
            blk = [x for x in e.block.elems if x.kind == "stmt"]
            okb = any((x.node.get("k") == "mcall" and last(x.node.get("callee", "")) in ("setHeader", "set_header") and show(strip_casts(x.node.get("obj"))) == owner and [y.get("v") for y in walk(x.node["args"][0]) if y.get("k") == "str"] == ["Content-Length"])
                      or (asg(x.node) and "Content-Length" in show(asg(x.node)[0]) and show(asg(x.node)[0]).startswith(owner + ".headers")) for x in blk)
            r.expect(okb, f, e, "body written without Content-Length: %s" % lt, "%s assigns `%s` directly and does not set that message's Content-Length in the same block (only set_content keeps the two in step): the header keeps the length of an "
                     "earlier body and the peer loses framing on the connection" % (short(f.name), lt), okdesc="%s: %s written together with its Content-Length" % (last(f.name), lt))
    if nb < 3:
        raise AnalysisBroken("only %d direct response-body writes found (floor 3)" % nb)
    # bodyless statuses (1xx, 204, 304 — RFC 9110 §6.4.1) carry neither body bytes nor a Content-Length on the wire, for ANY method
    # (HEAD: no body; its Content-Length may stay unless the status is bodyless).  Decided in two steps: the status predicate is
    # evaluated exactly over all status codes; the copy into the wire message is behind clear() / erase on every path it selects.
    from ..finite import compile_expr, NotPure
    p = fn(ctx, HS, "processHttpRequest", HSF)
    copy = [e for e in p.stmts() if asg(e.node) and show(strip_casts(asg(e.node)[0])) == "httpRes.body" and key_of(strip_views(asg(e.node)[1])) == "res.body"]
    if len(copy) != 1:
        raise AnalysisBroken("processHttpRequest: copy of the body into the wire message not found")
    pred = None
    for e in p.stmts():
        if e.node.get("k") == "decl":
            for dv in e.node["vars"]:
                i = dv.get("init")
                if dv.get("t", "").replace("const ", "") == "bool" and i is not None and {const_value(x) for x in walk(i) if x.get("k") == "int"} >= {204, 304}:
                    pred = dv
    r.instance()
    if pred is None:
        # the older spelling: explicit `res.status == 204 || res.status == 304` under the HEAD branch only
        r.fail(p, copy[0], "bodyless status carries a body", "processHttpRequest has no 'this status has no content' predicate covering 1xx, 204 and 304 for every method: a handler that sets content and then status 304, or only "
               "status 204 (the pre-seeded 404 text stays), puts Content-Length and body bytes on the wire — an RFC 9112 framer reads them as the start of the next response")
        return

    def subst(n):
        if isinstance(n, list):
            return [subst(x) for x in n]
        if not isinstance(n, dict):
            return n
        if n.get("k") == "member" and show(n) == "res.status":
            return {"k": "var", "n": "status", "t": "int", "d": -1}
        return {k: subst(v) if isinstance(v, (dict, list)) else v for k, v in n.items()}
    try:
        fnp, _t, _c = compile_expr(subst(strip_casts(pred["init"])), ["status"])
    except NotPure as ex:
        raise AnalysisBroken("bodyless-status predicate not evaluable: %s" % ex)
    wrong = [st for st in range(0, 1000) if bool(fnp(st)) != (100 <= st < 200 or st in (204, 304))]
    r.expect(not wrong, p, None, "bodyless status set", "the predicate `%s` disagrees with {1xx, 204, 304} for status %s" % (pred["n"], wrong[:5]), okdesc="%s ⇔ status ∈ {1xx, 204, 304} (1000 codes)" % pred["n"])
    vocab3 = Vocab(["B", "head", "cleared", "erased"])

    def leaf3(n):
        if n.get("k") == "var" and n.get("d") == pred["d"]:
            return A("B")
        cp = common.cmp_parts(n)
        if cp and cp[0] in ("==", "!=") and "req.method" in show(n) and "HEAD" in show(n):
            return A("head") if cp[0] == "==" else Not(A("head"))
        return None

    def eff3(e):
        if e.kind != "stmt":
            return None
        n = e.node
        if n.get("k") == "mcall" and last(n.get("callee", "")) == "clear" and show(strip_casts(n.get("obj") or {})) == "res.body":
            return [("set", "cleared", True)]
        if n.get("k") == "mcall" and last(n.get("callee", "")) == "erase" and show(strip_casts(n.get("obj") or {})) == "res.headers" and "Content-Length" in show(n):
            return [("set", "erased", True)]
        if n.get("k") == "decl" and any(v["d"] == pred["d"] for v in n["vars"]):
            return [("havoc", "B"), ("set", "cleared", False), ("set", "erased", False)]
        return None
    pa3 = PredAbs(p, vocab3, leaf3, eff3, eh=False)
    r.instance()
    r.expect(pa3.entails(copy[0], Or(Not(A("B")), And(A("cleared"), A("erased")))), p, copy[0], "bodyless status carries a body", "the body is copied to the wire message on a path where the status is bodyless but the body was "
             "not cleared / Content-Length not erased (known: %s)" % ",".join(pa3.describe(copy[0])), okdesc="bodyless status ⇒ body cleared and Content-Length erased")
    r.instance()
    r.expect(pa3.entails(copy[0], Or(Not(A("head")), A("cleared"))), p, copy[0], "HEAD with body (any status)", "the body is copied to the wire message on a HEAD path without having been cleared", okdesc="HEAD ⇒ body cleared")


def r4(ctx, r):
    p = fn(ctx, HS, "processHttpRequest", HSF)
    inv = [e for e in p.stmts() if e.node.get("k") == "mcall" and last(e.node.get("callee", "")) == "invokeWithSafetyNet"]
    clears = [e for e in p.stmts() if e.node.get("k") == "mcall" and last(e.node.get("callee", "")) == "clear" and show(strip_casts(e.node.get("obj"))) == "res.body"]
    setc = [e for e in p.stmts() if e.node.get("k") == "mcall" and last(e.node.get("callee", "")) == "set_content" and key_of(e.node.get("obj")) == "res"]
    copy = [e for e in p.stmts() if asg(e.node) and show(strip_casts(asg(e.node)[0])) == "httpRes.body"]
    if len(inv) < 3 or len(copy) != 1 or not clears:
        raise AnalysisBroken("processHttpRequest: %d handler invocations, %d body copies, %d body clears" % (len(inv), len(copy), len(clears)))
    vocab = Vocab(["head", "cleared"])

    def leaf(n):
        cp = common.cmp_parts(n)
        if cp and cp[0] == "==" and show(strip_casts(cp[1])) == "req.method" and any(x.get("k") == "enum" and last(x["n"]) == "HEAD" for x in walk(cp[2])):
            return A("head")
        return None

    def effects(e):
        if e in clears:
            return [("set", "cleared", True)]
        if e in inv or e in setc:
            return [("set", "cleared", False)]
        a = asg(e.node) if e.kind == "stmt" else None
        if a and show(strip_casts(a[0])) in ("res.body", "res"):
            return [("set", "cleared", False)]
        if a and show(strip_casts(a[0])) == "req.method":
            return [("havoc", "head")]
        return None
    pa = PredAbs(p, vocab, leaf, effects, init=Not(A("cleared")), eh=False)
    r.instance()
    r.expect(pa.entails(copy[0], Or(Not(A("head")), A("cleared"))), p, copy[0], "HEAD with body", "the response body is copied to the wire message on a path where the method is HEAD and the body was not cleared after the last handler/set_content (%s)"
             % ", ".join(pa.describe(copy[0])), okdesc="HEAD ⇒ body cleared before the wire copy")
    # the HEAD test is actually there and dominates the copy
    hb = [b for b in p.blocks.values() if b.cond is not None and leaf(strip_casts(b.cond)) is not None]
    r.instance()
    r.expect(len(hb) >= 1 and any(search(p, ("entry",), lambda x: x is copy[0], eh=False, edge_ok=lambda b, si: b not in hb) is None for _ in [0]), p, None, "HEAD test", "the wire copy is reachable without passing the HEAD test", okdesc="HEAD test on every path to the copy")


class Renamed:
    """an element of a helper, seen with the helper's Response parameter renamed to `res`"""

    def __init__(self, e, pname):
        import json
        self.kind, self.block, self.idx, self.line, self.raw, self.try_id, self.catch_id = e.kind, e.block, e.idx, e.line, e.raw, e.try_id, e.catch_id
        self.node = json.loads(json.dumps(e.node).replace('"n": "%s"' % pname, '"n": "res"')) if e.kind == "stmt" else e.node


def r5(ctx, r):
    fb = ctx.fb()
    # who invokes a user Handler (std::function<void(const Request&, Response&)>)
    invs = []
    for f in fb.in_file(HSF):
        if not f.ok:
            continue
        for e in f.stmts():
            n = e.node
            if n.get("k") == "opcall" and n.get("op") == "()" and "std::function" in (n.get("callee") or "") or (n.get("k") == "opcall" and n.get("op") == "()" and "function<void (const iora::network::HttpServer::Request &, iora::network::HttpServer::Response &)>" in (strip_casts(n["args"][0]).get("t") or "")):
                t = strip_casts(n["args"][0]).get("t") or ""
                if "HttpServer::Request &" in t and "HttpServer::Response &" in t:
                    invs.append((f, e))
    if not invs:
        raise AnalysisBroken("no invocation of a user Handler found")
    for (f, e) in invs:
        r.instance()
        r.expect(last(f.name) == "invokeWithSafetyNet", f, e, "handler invoked outside the safety net", "%s invokes a user handler directly: an exception would escape without the 500 mapping" % short(f.name), okdesc="handler invoked in invokeWithSafetyNet")
    sn = fn(ctx, HS, "invokeWithSafetyNet", HSF)
    call = [e for (f, e) in invs if f is sn]
    r.instance()
    if not r.expect(len(call) == 1 and call[0].try_id, sn, call[0] if call else None, "handler outside try", "the handler call in invokeWithSafetyNet is not inside a try block"):
        return
    t = sn.trys[call[0].try_id]
    r.instance()
    r.expect(handler_covers(t["handlers"], "...") and any("..." == h for h in t["handlers"]), sn, call[0], "no catch-all", "invokeWithSafetyNet has no catch (...): a handler throwing a non-std exception ends the worker without a response",
             okdesc="handlers: %s" % ", ".join(t["handlers"]))
    for b in sn.blocks.values():
        if b.label and b.label.get("k") == "catch" and b.label.get("try") == call[0].try_id:
            els = list(_reach_until_ret(sn, b.id))
            # a clause may delegate to a helper of the class that receives the Response: look inside (the parameter takes the place of `res`)
            for x in list(els):
                c_ = (x.node.get("callee") or "") if x.kind == "stmt" else ""
                if x.kind == "stmt" and x.node.get("k") in ("call", "mcall") and c_.startswith(HS + "::") and last(c_) not in ("set_content",) and any(key_of(a) == "res" for a in x.node.get("args", [])):
                    for g in fb.funcs(c_, HSF):
                        if g.ok:
                            pi = [i for i, a in enumerate(x.node["args"]) if key_of(a) == "res"][0]
                            pn = g.params[pi]["n"] if pi < len(g.params) else None
                            if pn:
                                els.extend(Renamed(y, pn) for y in g.stmts())
            st = [x for x in els if x.kind == "stmt" and asg(x.node) and show(strip_casts(asg(x.node)[0])) == "res.status" and const_value(strip_casts(asg(x.node)[1])) == 500]
            sc = [x for x in els if x.kind == "stmt" and x.node.get("k") == "mcall" and last(x.node.get("callee", "")) == "set_content" and key_of(x.node.get("obj")) == "res"]
            su = [x for x in els if x.kind == "stmt" and asg(x.node) and show(strip_casts(asg(x.node)[0])) == "res._suppressSend" and const_value(strip_casts(asg(x.node)[1])) == 0]
            r.instance()
            r.expect(len(st) == 1 and len(sc) == 1 and len(su) == 1, sn, None, "handler for %s" % b.label.get("t"), "the catch (%s) clause does not set status 500, set the body through set_content and clear _suppressSend (found %d/%d/%d)"
                     % (b.label.get("t"), len(st), len(sc), len(su)), okdesc="catch (%s): 500 + set_content + suppression cleared" % b.label.get("t"))
    # parse failures: fromWireFormat inside the try of processHttpRequest whose handler sends the mapped status and closes
    p = fn(ctx, HS, "processHttpRequest", HSF)
    fw = [e for e in p.stmts() if e.node.get("k") in ("call", "mcall") and last(e.node.get("callee", "")) == "fromWireFormat"]
    r.instance()
    ok = len(fw) == 1 and fw[0].try_id and handler_covers(p.trys[fw[0].try_id]["handlers"], "std::runtime_error")
    hb = [b for b in p.blocks.values() if b.label and b.label.get("k") == "catch" and fw and b.label.get("try") == fw[0].try_id]
    if ok and hb:
        els = _reach_until_ret(p, hb[0].id)
        snd = [x for x in els if x.kind == "stmt" and is_send(x.node)]
        cls = [x for x in els if x.kind == "stmt" and x.node.get("k") == "mcall" and last(x.node.get("callee", "")) == "close" and "Transport" in x.node.get("callee", "")]
        ok = len(snd) == 1 and len(cls) == 1 and search(p, snd[0], lambda x: x is cls[0], eh=False) is not None
        stt = [x for x in els if x.kind == "stmt" and x.node.get("k") == "decl" and any(v["n"] == "errStatus" and const_value(strip_casts(v.get("init") or {})) == 500 for v in x.node["vars"])]
        ok = ok and bool(stt)
    r.expect(ok, p, fw[0] if fw else None, "parse failure unanswered", "a request that fails to parse does not reach an error response followed by a close", okdesc="parse failure → mapped status (default 500) sent, then close")


def r6(ctx, r):
    p = fn(ctx, HS, "processHttpRequest", HSF)
    sets = [e for e in p.stmts() if asg(e.node) and key_of(asg(e.node)[0]) == "shouldCloseConnection" and const_value(strip_casts(asg(e.node)[1])) == 1]
    if len(sets) < 2:
        raise AnalysisBroken("processHttpRequest: %d `shouldCloseConnection = true` sites (floor 2)" % len(sets))
    # every close intent is paired with the Connection: close header value in the same block
    for e in sets:
        r.instance()
        nxt = [x for x in e.block.elems[e.idx:] if x.kind == "stmt" and asg(x.node) and key_of(asg(x.node)[0]) == "connectionHeader" and [y.get("v") for y in walk(asg(x.node)[1]) if y.get("k") == "str"] == ["close"]]
        r.expect(len(nxt) == 1, p, e, "close intent without header", "the close intent is set without announcing `Connection: close`", okdesc="close intent ⇒ Connection: close header")
    # the decision: `close` anywhere in the Connection option list closes; an HTTP/1.0 request persists only with an explicit
    # keep-alive.  Two bools are folded over the comma-split, case-folded options; the decision is taken from them.
    def opt_var(lit):
        for e in p.stmts():
            a_ = asg(e.node)
            if a_ and strip_casts(a_[0]).get("k") == "var" and any(x.get("k") in ("opcall", "bin") and x.get("op") == "==" and [y.get("v") for y in walk(x) if y.get("k") == "str"] == [lit] for x in walk(a_[1])):
                return strip_casts(a_[0]), e
        return None, None
    cvar, cdef = opt_var("close")
    kvar, kdef = opt_var("keep-alive")
    r.instance()
    if cvar is None:
        # older spelling: the whole value compared with "close"
        whole = [b for b in p.blocks.values() if b.cond is not None and any(q[0] == "==" and [y.get("v") for y in walk(q[2]) if y.get("k") == "str"] == ["close"] for q in common.cmp_both(b.cond))]
        if whole:
            r.fail(p, None, "Connection: close ignored", "the Connection request field is compared with \"close\" as a whole value: `Connection: TE, close` / `close, TE` are answered keep-alive and the connection stays open")
            return
        raise AnalysisBroken("processHttpRequest: Connection option handling not identified")
    split = any(x.get("k") == "call" and last(x.get("callee", "")) == "getline" and any(y.get("k") == "char" and y.get("cv") == 44 for y in walk(x)) for x in p.nodes.values())
    low = [e for e in p.stmts() if e.node.get("k") == "call" and last(e.node.get("callee", "")) == "transform" and "tolower" in show(e.node) and search(p, e, lambda x: x is cdef, eh=False) is not None]
    sticky = any(x.get("k") == "var" and x.get("d") == cvar.get("d") for x in walk(asg(cdef.node)[1]))
    r.expect(split and bool(low) and sticky, p, cdef, "Connection options", "the Connection field is not handled as a comma-separated, case-insensitive option list (comma split: %s, lower-cased: %s, `close` remembered across "
             "options: %s)" % (split, bool(low), sticky), okdesc="Connection: comma-split, case-folded, close is sticky")
    vocab = Vocab(["close", "ka", "http10", "will"])

    def leaf(n):
        if n.get("k") == "var" and n.get("d") == cvar.get("d"):
            return A("close")
        if kvar is not None and n.get("k") == "var" and n.get("d") == kvar.get("d"):
            return A("ka")
        if n.get("k") == "var" and n["n"] == "shouldCloseConnection":
            return A("will")
        for q in common.cmp_both(n):
            if q[0] in ("==", "!=") and "version.minor" in show(q[1]) and const_value(strip_casts(q[2])) == 0:
                return A("http10") if q[0] == "==" else Not(A("http10"))
        return None

    def effects(e):
        if e.kind != "stmt":
            return None
        a_ = asg(e.node)
        if a_ and key_of(a_[0]) == "shouldCloseConnection":
            cv_ = const_value(strip_casts(a_[1]))
            return [("set", "will", bool(cv_))] if cv_ is not None else [("havoc", "will")]
        if a_ and strip_casts(a_[0]).get("k") == "var" and strip_casts(a_[0]).get("d") == cvar.get("d"):
            return [("havoc", "close")]
        if a_ and kvar is not None and strip_casts(a_[0]).get("k") == "var" and strip_casts(a_[0]).get("d") == kvar.get("d"):
            return [("havoc", "ka")]
        if e.node.get("k") == "decl":
            ops = []
            for v in e.node["vars"]:
                if v["n"] == "shouldCloseConnection":
                    cv_ = const_value(strip_casts(v.get("init") or {}))
                    ops.append(("set", "will", bool(cv_)) if cv_ is not None else ("havoc", "will"))
            return ops
        return None
    pa = PredAbs(p, vocab, leaf, effects, eh=False)
    main = main_send(p)[3]
    r.instance()
    if not r.expect(len(main) == 1, p, None, "main send", "main response send not found"):
        return
    r.instance()
    r.expect(pa.entails(main[0], Or(Not(A("close")), A("will"))), p, main[0], "Connection: close ignored", "the response is sent on a path where the request carried a `close` option but the close intent is not set (%s)" % ", ".join(pa.describe(main[0])),
             okdesc="close option ⇒ close intent at the send")
    r.instance()
    r.expect(kvar is not None and pa.entails(main[0], Or(Not(A("http10")), A("ka"), A("will"))), p, main[0], "HTTP/1.0 kept alive by default", "an HTTP/1.0 request without a keep-alive option is answered on a path where the close intent is not "
             "set: the response says keep-alive and the connection stays open — an HTTP/1.0 client that reads to EOF hangs", okdesc="HTTP/1.0 without keep-alive ⇒ close intent")
    # the decision belongs to THIS request: processHttpRequest also reads per-connection fields (SessionInfo::httpVersion,
    # connectionKeepAlive); with pipelining several requests of one connection are framed before the first is answered, so a
    # field written from the framing of a LATER request would decide the response of an earlier one.  Nobody writes them.
    SI = HS + "::SessionInfo"
    nread = 0
    for fld in ("connectionKeepAlive", "httpVersion"):
        nread += sum(1 for x in p.nodes.values() if x.get("k") == "member" and x["n"] == SI + "::" + fld)
        for g in ctx.fb().in_file(HSF):
            if not g.ok:
                continue
            for (e, n, k) in common.field_writes(g, SI + "::" + fld):
                r.instance()
                r.fail(g, e, "per-connection close state written", "%s writes SessionInfo::%s: processHttpRequest reads it for whichever request it is answering, so with two pipelined requests the value noted while framing the "
                       "second (e.g. its `Connection: close`) closes the connection after the FIRST response — the first is announced `Connection: close` though it did not ask, the second is never answered" % (short(g.name), fld))
    r.instance()
    r.ok("SessionInfo close state is never written (%d reads in processHttpRequest)" % nread)
    # header set from connectionHeader before serialisation
    sh = [e for e in p.stmts() if e.node.get("k") == "mcall" and last(e.node.get("callee", "")) == "setHeader" and key_of(e.node.get("obj")) == "httpRes" and [y.get("v") for y in walk(e.node["args"][0]) if y.get("k") == "str"] == ["Connection"]]
    tw = [e for e in p.stmts() if e.node.get("k") == "mcall" and last(e.node.get("callee", "")) == "toWireFormat" and key_of(e.node.get("obj")) == "httpRes"]
    r.instance()
    r.expect(len(sh) == 1 and tw and key_of(strip_views(sh[0].node["args"][1])) == "connectionHeader" and elem_dominates(p, sh[0], tw[0], eh=False), p, None, "Connection header", "the response does not carry connectionHeader", okdesc="Connection header from the decision")
    # the close: after the send, outside its critical section, on (sendFailed || (sendSucceeded && shouldClose))
    closes = [e for e in p.stmts() if e.node.get("k") == "mcall" and last(e.node.get("callee", "")) == "close" and "Transport" in e.node.get("callee", "") and search(p, main[0], lambda x, e=e: x is e, eh=False) is not None]
    r.instance()
    ok = len(closes) == 1
    if ok:
        gate = [b for b in p.blocks.values() if b.cond is not None and {x.get("n") for x in walk(b.cond) if x.get("k") == "var"} >= {"shouldCloseConnection"} and b.term.get("k") in ("IfStmt", "BinaryOperator")]
        la = ctx.locks()
        same_section = common.same_section(p, la, main[0], closes[0], HS + "::_mutex") if hasattr(common, "same_section") else False
        ok = bool(gate) and la.holds(p, closes[0], HS + "::_mutex") and la.holds(p, main[0], HS + "::_mutex")
        # not the same critical section: some element between them runs without _mutex
        between = search(p, main[0], lambda x: x is closes[0], stop=lambda x: not la.holds(p, x, HS + "::_mutex"), eh=False)
        ok = ok and between is None
        ok = ok and pa.entails(closes[0], T)
    r.expect(ok, p, closes[0] if closes else None, "close after response", "the connection is not closed after the response in a separate critical section (close from inside the send's section re-enters the synchronous completion)",
             okdesc="close(sid) after the send, _mutex released and re-acquired")
    # the close that follows the response must not be able to discard it: sendAsync's completion means "accepted", the bytes may
    # still sit in the engine's write queue.  Proof searched for in the engine: the Close command of an application-originated
    # close is deferred (or skipped) while the session's write queue is not empty.
    fb = ctx.fb()
    TE = "iora::network::TcpEngine"
    procs = [g for g in fb.methods_of(TE) if g.ok and any(x.node.get("k") == "mcall" and last(x.node.get("callee", "")) == "closeNow" for x in g.stmts())
             and any(b.label and b.label.get("k") == "case" and "Close" in show(b.label.get("v") or {}) for b in g.blocks.values())]
    if len(procs) != 1:
        raise AnalysisBroken("TcpEngine: command dispatcher with a Close arm not found (%d candidates)" % len(procs))
    g = procs[0]
    arm0 = [b for b in g.blocks.values() if b.label and b.label.get("k") == "case" and "Close" in show(b.label.get("v") or {})][0]
    r.instance()

    def is_close_now(b):
        return any(x.kind == "stmt" and x.node.get("k") == "mcall" and last(x.node.get("callee", "")) == "closeNow" for x in b.elems)

    # every path of the arm from the case label to closeNow(), with the branch facts collected on the way (the arm is loop free;
    # a revisit ends the path).  On each path: which origins are still possible, and is the write queue known to be empty?
    paths = []

    def walk_arm(b, facts, seen):
        if b.id in seen or len(paths) > 512:
            return
        if is_close_now(b):
            paths.append(list(facts))
            return
        succs = [x for x in b.succs if x is not None]
        if b.cond is not None and len(succs) == 2 and b.edge_label(0) is True:
            for si, truth in ((0, True), (1, False)):
                if b.succs[si] is not None:
                    walk_arm(g.blocks[b.succs[si]], facts + flatten_fact(b.cond, truth), seen | {b.id})
        else:
            for x in succs:
                nb = g.blocks[x]
                if nb.label and nb.label.get("k") in ("case", "default") and nb is not arm0:
                    continue
                walk_arm(nb, facts, seen | {b.id})

    walk_arm(arm0, [], frozenset())
    if not paths:
        raise AnalysisBroken("TcpEngine Close arm: no path to closeNow()")
    proof = True
    for facts in paths:
        app_possible, drained = True, False
        for (c, t) in facts:
            txt = show(c)
            if c.get("k") == "bin" and c.get("op") in ("==", "!=") and "closeOrigin" in txt:
                eq = (c.get("op") == "==") == t
                names_app = "CloseOrigin::App" in txt or txt.rstrip(")").endswith("App")
                if eq and not names_app:
                    app_possible = False
                if not eq and names_app:
                    app_possible = False
            if "wq" in txt and "empty()" in txt and c.get("k") in ("mcall", "call") and t:
                drained = True
        if app_possible and not drained:
            proof = False
    r.expect(proof, p, closes[0] if closes else None, "close may discard the queued response", "processHttpRequest calls close(sid) as soon as sendAsync has ACCEPTED the response; TcpEngine handles an application Close by closeNow() "
             "without looking at the session's write queue, so for a response larger than what the socket takes at once the tail still queued is discarded: the peer receives fewer body bytes than Content-Length announces, then EOF "
             "(`Connection: close`, HTTP/1.0 and every error path)", okdesc="application close is deferred until the write queue has drained")
    # completion lambda only records
    lam = [lf for (ln, lf) in p.lambdas if any(asg(x.node) and key_of(asg(x.node)[0]) == "sendSucceeded" for x in lf.stmts())]
    r.instance()
    r.expect(len(lam) == 1 and not any(x.node.get("k") == "mcall" and last(x.node.get("callee", "")) in ("close", "sendAsync") for x in lam[0].stmts()), p, None, "completion lambda", "the send completion does more than record the outcome", okdesc="completion lambda capture-only")


def r7(ctx, r):
    fb = ctx.fb()
    h = fn(ctx, HS, "handleIncomingData", HSF)
    enq = [e for e in h.stmts() if e.node.get("k") == "mcall" and last(e.node.get("callee", "")) in ("tryEnqueue", "enqueue")]
    if len(enq) != 1:
        raise AnalysisBroken("handleIncomingData: %d dispatch sites" % len(enq))
    # proof 1: a single-worker executor
    ctor = [f for f in fb.methods_of(HS) if f.kind == "ctor" and f.ok]
    maxw = None
    for c in ctor:
        for e in c.elems():
            if e.kind == "init" and "_threadPool" in (e.node.get("field") or e.node.get("n") or ""):
                args = [const_value(strip_casts(a)) for a in (strip_casts(e.node.get("v") or {}).get("args") or [])]
                if len(args) >= 2 and args[1] is not None:
                    maxw = args[1] if maxw is None else max(maxw, args[1])
    # proof 2: per-session in-flight state consulted in the dispatch loop and updated when a request completes
    rec = fb.record("iora::network::HttpServer::SessionInfo")
    fields = [x["n"] for x in rec.get("fields", [])] if rec else []
    gate_fields = []
    p = fn(ctx, HS, "processHttpRequest", HSF)
    for fld in fields:
        if fld in ("buffer", "peerAddress", "peerPort", "connectionKeepAlive", "httpVersion"):
            continue
        read_h = any(("." + fld) in show(b.cond) for b in h.blocks.values() if b.cond is not None and search(h, ("block", b.id), lambda x: x is enq[0], eh=False) is not None)
        write_p = any(asg(e.node) and show(strip_casts(asg(e.node)[0])).endswith("." + fld) for e in p.stmts())
        if read_h and write_p:
            gate_fields.append(fld)
    r.instance()
    r.expect((maxw is not None and maxw <= 1) or bool(gate_fields), h, enq[0], "concurrent dispatch of one connection", "handleIncomingData hands every pipelined request of a connection to a pool of up to %s workers as soon as it is extracted; nothing "
             "(a per-session in-flight flag or queue, a sequence number on the send path, a single worker) orders two requests of the same connection, so a fast handler's response is written before a slow earlier one: "
             "responses leave in completion order, not request order" % maxw, okdesc="per-connection dispatch serialised (%s)" % (gate_fields or "single worker"))


def anchors(ctx, r):
    tab = [(fn(ctx, HS, "processHttpRequest", HSF), ["shouldCloseConnection", "connectionHeader", "connValue", "httpRes", "res", "req", "sendSucceeded", "errStatus"]),
           (fn(ctx, HS, "handleIncomingData", HSF), ["requestData", "sid"]), (fn(ctx, HS, "invokeWithSafetyNet", HSF), ["res", "handler"])]
    for f, names in tab:
        common.require_names(f, names)
        r.instance()
        r.ok("%s: %s" % (last(f.name), ", ".join(names)))


def run(ctx, ck):
    r0 = ck.run_rule("C16-R0", "the local names the rules are anchored on exist (a rename makes the analysis refuse — exit 2 — instead of raising a false alarm)", "anchor table", lambda r: anchors(ctx, r))
    if r0.broken:
        return
    ck.run_rule("C16-R1", "at most one send command per request; every exit has sent, handed over or found the transport gone; every extracted request enqueued or 503", "A5 predicate abstraction with ghost send counter", lambda r: r1(ctx, r))
    ck.run_rule("C16-R2", "a response is one contiguous buffer: toWireFormat() of (status, headers, body), sent as serialised", "A10 dataflow shape", lambda r: r2(ctx, r))
    ck.run_rule("C16-R3", "Content-Length set by the server/response API is the size of the body on that path", "A10 dataflow + order", lambda r: r3(ctx, r))
    ck.run_rule("C16-R4", "HEAD responses carry no body", "A5 predicate abstraction", lambda r: r4(ctx, r))
    ck.run_rule("C16-R5", "a throwing handler yields 500; a parse failure yields an error status followed by close", "A3 who-may-call + A9 handler coverage", lambda r: r5(ctx, r))
    ck.run_rule("C16-R6", "Connection: close is honoured and announced; close happens after the send outside its critical section", "A5 + A1", lambda r: r6(ctx, r))
    ck.run_rule("C16-R7", "requests of one connection are not dispatched concurrently (necessary for response order)", "A3 proof-of-serialisation search", lambda r: r7(ctx, r))
    # "a request that cannot be parsed yields an error status or a closed connection - never a connection left waiting with neither":
    # an exception that escapes the framing code on the I/O thread ends the loop with the request (and every other connection)
    # unanswered and unclosed.  Same rule as C15-R4 (every throwing primitive on the I/O-thread path is inside a try whose
    # handlers cover every exception type it can throw), reported under this property as well.
    from . import c15 as _c15
    ck.run_rule("C16-R8", "no exception escapes the request framing on the I/O thread (unparsable request → status or close, never neither)", "A9 handler coverage (= C15-R4)", lambda r: _c15.r4(ctx, r))
